"""Per-property job tables for ./check."""

SETUP_FLAVOURS = ["debug", "release"]

DIFF_ASSUME = [
    "rotogen's reference interpreter (harness/rvmon/src/rg/interp.rs) implements the documented semantics",
    "generated programs are well-typed by construction under the documented typing rules",
    "JIT-compiled code is observed only through return values, host calls, the drop ledger and the allocation balance",
]


def diff_jobs(profile, quick, thorough, corpus_prop):
    return [
        {"family": f"diff-{profile}", "flavour": "release", "cases": {"quick": quick, "thorough": thorough}},
        {"family": f"diff-{profile}", "flavour": "debug", "cases": {"quick": quick // 6, "thorough": thorough // 8},
         "args": {"stream": "debug"}},
        {"family": "corpus", "flavour": "debug", "cases": {"quick": 0, "thorough": 0},
         "args": {"prop": corpus_prop}, "shards": 1},
        {"family": "corpus", "flavour": "release", "cases": {"quick": 0, "thorough": 0},
         "args": {"prop": corpus_prop, "stream": "rel"}, "shards": 1},
    ]


PROPS = {
    "C01": {
        "rule": "rotogen 'scalar' profile: random well-typed programs over all integer widths, floats, bool, char, "
                "Option and small user enums/records, 1-5 functions with fuel-bounded recursion, each run on 4 (quick) / 8 "
                "(thorough) input vectors mixing boundary and random words; a case is non-trivial if at least one input "
                "ran to completion in both the interpreter and the JIT and produced host-call events; distinct = distinct "
                "source text",
        "jobs": diff_jobs("scalar", 60000, 1500000, "C01"),
        "assumptions": DIFF_ASSUME,
        "min_tags": 120,
        "budget": {"quick": 200, "thorough": 1500},
    },
    "C02": {
        "rule": "rotogen 'aggregate' profile: programs declaring 0-5 record/enum types (generic, nested, anonymous; random "
                "field orders over all scalar widths, String, List, Option, Trk) that copy, mutate, compare, match and emit "
                "every leaf field through out_* after mutations; non-trivial/distinct as for C01",
        "jobs": diff_jobs("aggregate", 40000, 1000000, "C02"),
        "assumptions": DIFF_ASSUME,
        "min_tags": 100,
        "budget": {"quick": 200, "thorough": 1500},
    },
    "C03": {
        "rule": "rotogen 'ownership' profile: programs that create, clone, store, pass and discard drop-tracked host values "
                "(24-byte Trk), strings and lists in every construct; the ledger checks each instance id is dropped exactly "
                "once and the allocation balance returns to zero after the call; non-trivial = ran and produced clone/drop "
                "or host events",
        "jobs": diff_jobs("ownership", 40000, 1000000, "C03"),
        "assumptions": DIFF_ASSUME + ["known-defect patterns (see KNOWN_FINDINGS.txt) are kept out of the random stream; "
                                      "their witnesses in corpus/ run in every check"],
        "min_tags": 90,
        "budget": {"quick": 200, "thorough": 1500},
    },
    "C08": {
        "rule": "rotogen 'effects' profile: 70% of leaves are logged host calls, so evaluation order and multiplicity of "
                "every operand, argument, field, element, f-string part, condition, guard and scrutinee is visible in the "
                "ordered host-call log, which is compared with the interpreter's log",
        "jobs": diff_jobs("effects", 40000, 1000000, "C08"),
        "assumptions": DIFF_ASSUME,
        "min_tags": 100,
        "budget": {"quick": 200, "thorough": 1500},
    },
}
