"""Per-property job tables for ./check."""

SETUP_FLAVOURS = ["debug", "release", "asan", "valgrind"]
HOOK_COMMITS = ["7097985", "11c3a47", "f0bf0f9", "022e47b", "ab4a121", "6b1e3cb", "5c464db"]
SETUP_EXTRAS = ["roto-bin", "cli-host", "miri-list"]
NOT_YET = {}

DIFF_ASSUME = [
    "rotogen's reference interpreter (harness/rvmon/src/rg/interp.rs) implements the documented semantics",
    "generated programs are well-typed by construction under the documented typing rules",
    "JIT-compiled code is observed only through return values, host calls, the drop ledger and the allocation balance",
]


VALGRIND = ["valgrind", "-q", "--error-exitcode=99", "--suppressions=/repo/valgrind_suppressions.supp"]


def diff_jobs(profile, quick, thorough, corpus_prop, memcheck=False):
    extra = []
    if memcheck:
        # memcheck also sees what JIT-compiled code does (e.g. an uninitialised stack slot
        # handed to a host drop function); 25x slower, so a reduced workload
        extra = [{"family": f"diff-{profile}", "flavour": "valgrind", "prefix": VALGRIND,
                  "cases": {"quick": 200, "thorough": 8000}, "args": {"stream": "memcheck"}, "case_timeout": 300}]
    # AddressSanitizer watches the host side (generated clone/drop/eq calls into Rust,
    # list and string storage, module memory); leaks are the ledger's business
    extra.append({"family": f"diff-{profile}", "flavour": "asan", "cases": {"quick": 2000, "thorough": 120000},
                  "args": {"stream": "asan"}, "case_timeout": 120,
                  "env": {"ASAN_OPTIONS": "detect_leaks=0:halt_on_error=1:abort_on_error=1"}})
    return extra + [
        {"family": f"diff-{profile}", "flavour": "release", "cases": {"quick": quick, "thorough": thorough}},
        {"family": f"diff-{profile}", "flavour": "debug", "cases": {"quick": quick // 6, "thorough": thorough // 8},
         "args": {"stream": "debug"}},
        {"family": "corpus", "flavour": "debug", "cases": {"quick": 0, "thorough": 0},
         "args": {"prop": corpus_prop}, "shards": 1},
        {"family": "corpus", "flavour": "release", "cases": {"quick": 0, "thorough": 0},
         "args": {"prop": corpus_prop, "stream": "rel"}, "shards": 1},
    ]


PROPS = {
    "C01": {
        "claim": "Differential runtime monitoring: the JIT-compiled program and an independent reference interpreter are run on the same generated well-typed programs and boundary/random inputs; return value and ordered host-call log must agree. Sampled, not exhaustive: held on the programs and inputs observed.",
        "design_ref": "DESIGN.md §4 C01",
        "level_note": "Trusted base: rotogen's interpreter and printer (harness/rvmon/src/rg); programs are well-typed by construction. JIT code is only observed through results and host calls.",
        "technique": "differential runtime monitoring against a reference interpreter (generated programs, boundary inputs)",
        "rule": "rotogen 'scalar' profile: random well-typed programs over all integer widths, floats, bool, char, "
                "Option and small user enums/records, 1-5 functions with fuel-bounded recursion, each run on 4 (quick) / 8 "
                "(thorough) input vectors mixing boundary and random words; a case is non-trivial if at least one input "
                "ran to completion in both the interpreter and the JIT and produced host-call events; distinct = distinct "
                "source text",
        "jobs": diff_jobs("scalar", 60000, 1500000, "C01"),
        "assumptions": DIFF_ASSUME,
        "min_tags": 120,
        "budget": {"quick": 400, "thorough": 2400},
    },
    "C02": {
        "claim": "Differential runtime monitoring of aggregate programs: every leaf field is emitted through logging host functions after each mutation and compared with the interpreter's value-semantics model; the drop ledger and allocation balance watch the generated clone/drop/eq code. Sampled programs and layouts.",
        "design_ref": "DESIGN.md §4 C02",
        "level_note": "Trusted base as C01; equality of aggregates containing NaN is treated as unspecified. Layouts are sampled, not enumerated.",
        "technique": "differential runtime monitoring + drop ledger + allocation balance on generated aggregate programs",
        "rule": "rotogen 'aggregate' profile: programs declaring 0-5 record/enum types (generic, nested, anonymous; random "
                "field orders over all scalar widths, String, List, Option, Trk) that copy, mutate, compare, match and emit "
                "every leaf field through out_* after mutations; a third of the programs with >= 2 types declare a packed record "
                "(2-7 one-byte or three two-byte fields) embedded next to a one-byte field of the next record; non-trivial/distinct as for C01",
        "jobs": diff_jobs("aggregate", 40000, 1000000, "C02", memcheck=True),
        "assumptions": DIFF_ASSUME,
        "min_tags": 100,
        "budget": {"quick": 400, "thorough": 2400},
    },
    "C03": {
        "claim": "Online monitor at the host boundary: every instance of a drop-tracked registered type carries an id and a canary; the ledger flags double drop, drop of garbage, read after drop and leaks the moment they happen, and a counting allocator checks that the heap balance returns to zero after each call. Sampled programs x steering inputs.",
        "design_ref": "DESIGN.md §4 C03",
        "level_note": "Trusted base: the ledger (harness/rvmon/src/host.rs) and counting allocator (alloc.rs). Known-defect patterns are excluded from the random stream and exercised by corpus witnesses (KNOWN_FINDINGS.txt).",
        "technique": "online drop-ledger monitor (per-instance ids, canaries) + allocation-balance monitor at the host boundary",
        "rule": "rotogen 'ownership' profile: programs that create, clone, store, pass and discard drop-tracked host values "
                "(24-byte Trk), strings and lists in every construct; the ledger checks each instance id is dropped exactly "
                "once and the allocation balance returns to zero after the call; non-trivial = ran and produced clone/drop "
                "or host events; script constants may be aggregates whose fields are read through paths and may own "
                "drop-tracked values (the ledger keeps what compilation created as the baseline of every call: a call may "
                "neither add to it nor release it); a sixth of the while loops have a condition that is one comparison of "
                "heap-owning values depending on the counter",
        "jobs": diff_jobs("ownership", 40000, 1000000, "C03", memcheck=True),
        "assumptions": DIFF_ASSUME + ["known-defect patterns (see KNOWN_FINDINGS.txt) are kept out of the random stream; "
                                      "their witnesses in corpus/ run in every check"],
        "min_tags": 90,
        "budget": {"quick": 400, "thorough": 2400},
    },
    "C08": {
        "claim": "Trace monitor: the ordered log of host calls (function, argument values) made during one call is compared event by event with the reference interpreter's log for programs whose sub-expressions are effectful host calls. Sampled programs.",
        "design_ref": "DESIGN.md §4 C08",
        "level_note": "Trusted base as C01; only effects that reach a host function are visible.",
        "technique": "host-call trace monitor compared with reference interpreter trace",
        "rule": "rotogen 'effects' profile: 70% of leaves are logged host calls, so evaluation order and multiplicity of "
                "every operand, argument, field, element, f-string part, condition, guard and scrutinee is visible in the "
                "ordered host-call log, which is compared with the interpreter's log",
        "jobs": diff_jobs("effects", 40000, 1000000, "C08"),
        "assumptions": DIFF_ASSUME,
        "min_tags": 100,
        "budget": {"quick": 400, "thorough": 2400},
    },
    "C10": {
        "claim": "Fault enumeration by process supervision: every enumerated (operator, type, operand pair) and built-in x edge-argument case runs between a begin and an end line of a supervised worker; a death (signal, abort) is attributed to that case. The enumerated edge space is covered completely on every run.",
        "design_ref": "DESIGN.md §4 C10",
        "level_note": "Only survival (plus the wrapped arithmetic result) is judged; values of built-ins are C17's. Exhaustive over the enumerated edge classes, not over all values.",
        "technique": "supervised worker processes; per-case attribution of signals/aborts (survival oracle)",
        "rule": "enumerated cases, one per worker begin/end pair: every (operator, integer type, operand pair) with operands "
                "from {MIN, MIN+1, -1, 0, 1, 2, MAX-1, MAX} (incl. compound assignment), unary minus, all six comparisons, "
                "float operators and methods on 22 special values, string views / list methods with indices around 0, len "
                "and u64::MAX, counts, every prefix length 0..=255 for both families, StringBuf, to_string of every "
                "primitive at its edges; plus every built-in of the default runtime as enumerated at run time (the "
                "probes of the builtins family: curated edge arguments incl. empty lists and strings, then random "
                "rounds), judged on survival only; oracle = the worker survives (and, where the language defines the "
                "result, the emitted value equals the wrapped result); distinct = distinct (script, input) pairs",
        "jobs": [
            {"family": "survive", "flavour": "release", "cases": {"quick": 0, "thorough": 0}, "case_timeout": 20},
            {"family": "survive", "flavour": "debug", "cases": {"quick": 0, "thorough": 0}, "case_timeout": 20,
             "tiers": ["thorough"], "args": {"stream": "debug"}},
            {"family": "corpus", "flavour": "release", "cases": {"quick": 0, "thorough": 0}, "args": {"prop": "C10"}, "shards": 1},
            # every built-in of the default runtime (enumerated at run time by the builtins family of
            # C17) on its curated edge arguments and random ones: here only survival is judged (a
            # wrong value is C17's business), a death is attributed to the built-in
            {"family": "builtins", "flavour": "release", "cases": {"quick": 0, "thorough": 0}, "args": {"rounds": 12},
             "tiers": ["quick"], "only_deaths": True, "case_timeout": 60},
            {"family": "builtins", "flavour": "release", "cases": {"quick": 0, "thorough": 0}, "args": {"rounds": 300},
             "tiers": ["thorough"], "only_deaths": True, "case_timeout": 60},
        ],
        "level": "fault_enumeration",
        "exhaustive": True,
        "hang_is_violation": True,
        "assumptions": ["the documented resource limits (unbounded recursion, non-terminating loops, memory exhaustion) are "
                        "never approached by the workload", "a worker death is attributed to the case between whose begin and "
                        "end lines it happened"],
        "min_cases": {"quick": 3000, "thorough": 3000},
        "budget": {"quick": 240, "thorough": 900},
    },
    "C06": {
        "claim": "Totality monitor: five families of hostile inputs (token soup, token/character mutants of valid programs, "
                 "ill-typed mutants, Unicode programs, module trees) are compiled stage by stage in supervised workers; Rust "
                 "panics are caught and attributed to a stage, aborts/stack overflows/hangs are seen by the supervisor, both "
                 "renderings of every error report are produced and every cited span is checked against its file.",
        "design_ref": "DESIGN.md §4 C06",
        "level_note": "Sampled inputs with bounded nesting; a death while compilation executes a constant initialiser is script "
                      "execution (C10), recognised through the const-eval hook, and not counted here.",
        "technique": "crash/hang supervision of worker processes + panic hook + span/rendering assertions on hostile inputs",
        "rule": "one input per case from {token soup with grammar-shaped bias, rotogen programs with 1-3 token/character "
                "mutations or splices, ill-typed AST mutants, hand-shaped Unicode programs, structurally odd snippets, module "
                "trees of 2-5 files with odd names/empty files, literal-escape programs (string / f-string / char literals over "
                "valid and invalid escapes, doubled braces, interpolations, multi-byte text, line continuations)}; every case is non-trivial; distinct = distinct input text; "
                "coverage tags record the input family, the outcome and the first line of each distinct error message",
        "jobs": [
            {"family": "totality", "flavour": "release", "cases": {"quick": 120000, "thorough": 3000000}, "case_timeout": 20},
            {"family": "totality", "flavour": "debug", "cases": {"quick": 20000, "thorough": 300000}, "case_timeout": 30,
             "args": {"stream": "debug"}},
            {"family": "corpus", "flavour": "debug", "cases": {"quick": 0, "thorough": 0}, "args": {"prop": "C06"}, "shards": 1},
        ],
        "hang_is_violation": True,
        "ignore_death_phases": ["const-eval"],
        "assumptions": ["nesting depth of generated inputs is bounded (the property bounds it too)",
                        "the per-case wall-clock limit (20-30 s against a typical cost of 1-5 ms) stands in for 'terminates'"],
        "min_tags": 40,
        "budget": {"quick": 240, "thorough": 1800},
    },
    "C07": {
        "claim": "Each well-typed generated program is turned into mutants that are ill-typed by construction (one documented "
                 "typing rule broken at one site); the monitor requires every mutant to be rejected with a type error (error "
                 "kind read through a hook), never compiled, never a panic.",
        "design_ref": "DESIGN.md §4 C07",
        "level_note": "Trusted base: the construction argument for each edit kind (harness/rvmon/src/rg/mutate.rs) and the base "
                      "program compiling. Sampled base programs; every edit kind at every site up to a per-kind bound.",
        "technique": "mutation of typed ASTs into by-construction ill-typed programs; accept/reject + error-kind monitor",
        "rule": "base programs from rotogen (scalar, aggregate and effects profiles) that compile; 47 edit kinds incl. retargeted match arms and ten out-of-scope-across-sibling-scopes kinds with well-typed controls (type mismatch "
                "at 8 kinds of typed position with the wrong-typed expression drawn from a palette of 17 shapes: literals of "
                "other widths, unit-typed loops / if-without-else / blocks in value position, the value wrapped in Some / [..], "
                "None, strings, chars, anonymous records; constant cycles through random groups of 2-4 mutually recursive "
                "functions in random item order; types recursive only through the argument of a generic after harmless uses of it; argument count, unknown name, missing/duplicate/unknown field, non-exhaustive "
                "match, arm after default, negated unsigned, arithmetic on bool, ordering on char, % on floats, ? outside an "
                "Option function, redeclaration, accept in fn, return in const, assignment to constant/function, recursive "
                "types direct/mutual/through Option, constant cycles) applied at every site (<= 3 quick / 6 thorough sites "
                "per kind and program); non-trivial = at least one mutant was rejected with a type error; evaluations = mutants",
        "jobs": [
            {"family": "illtyped", "flavour": "release", "cases": {"quick": 6000, "thorough": 150000}},
            {"family": "illtyped", "flavour": "debug", "cases": {"quick": 600, "thorough": 15000}, "args": {"stream": "debug"}},
            {"family": "corpus", "flavour": "debug", "cases": {"quick": 0, "thorough": 0}, "args": {"prop": "C07"}, "shards": 1},
        ],
        "assumptions": ["every edit kind yields an ill-typed program under the documented rules (argued per kind in mutate.rs)"],
        "min_tags": 25,
        "budget": {"quick": 240, "thorough": 1800},
    },
    "C17": {
        "claim": "Reference-model monitor: every built-in of the default runtime (enumerated at run time from the generated "
                 "documentation and cross-checked against Runtime::functions()) is called through a compiled Roto wrapper with "
                 "harness-supplied arguments and compared with the std / inetnum operation its documentation names.",
        "design_ref": "DESIGN.md §4 C17",
        "level_note": "Oracles are one-line std/inetnum counterparts (hand-written mask model for Prefix); argument classes the "
                      "documentation leaves open are tagged unspecified and not judged; a built-in without an oracle shows up "
                      "as uncovered.",
        "technique": "reference-model monitoring of built-ins against std/inetnum oracles over edge and random arguments",
        "rule": "case k runs probe (k mod N) in round (k div N); round 0 replays a curated edge list (43 edge strings x all "
                "index pairs in {0..len+2}^2 for strings <= 12 bytes, float bit patterns of interest, 7 addresses x every "
                "valid prefix length, lists of length 0..33), later rounds draw Unicode-aware random strings, derived second "
                "strings, counts, random float bits and addresses; evaluations = calls made; non-trivial = at least one "
                "result compared; distinct = (probe, argument batch)",
        "jobs": [
            {"family": "builtins", "flavour": "release", "cases": {"quick": 0, "thorough": 0}, "args": {"rounds": 60},
             "tiers": ["quick"]},
            {"family": "builtins", "flavour": "release", "cases": {"quick": 0, "thorough": 0}, "args": {"rounds": 1500},
             "tiers": ["thorough"]},
            {"family": "builtins", "flavour": "debug", "cases": {"quick": 0, "thorough": 0}, "args": {"rounds": 10, "stream": "debug"}},
        ],
        "assumptions": ["Rust's std and the inetnum crate are the documented counterparts of the built-ins"],
        "min_tags": 100,
        "min_cases": {"quick": 1000, "thorough": 1000},
        "budget": {"quick": 240, "thorough": 1500},
    },
    "C19": {
        "claim": "Model-based monitor of the test runner and CLI: for generated packages the harness knows every test's "
                 "verdict and marker sequence; run_tests / get_tests / TestCase::run and the `roto` binary plus a "
                 "Runtime::cli() host are executed and their results, marker logs (each test exactly once, same order on "
                 "rerun, recompilation and in a second process) and exit statuses compared with the model.",
        "design_ref": "DESIGN.md §4 C19",
        "level_note": "Only determinism of the order is asserted (the documentation promises no particular order). The CLI is "
                      "observed through exit status, stdout markers and a marker file.",
        "technique": "model-based runtime monitoring (verdict + marker-log oracle) in process and through CLI subprocesses",
        "rule": "generated packages with 1-4 modules, 0-12 test blocks, names colliding with functions, filtermaps, "
                "constants, records, modules, imports, runtime functions and types; a third of the packages have a group of 2-3 "
                "mutually recursive helpers entered through any member; half of the in-process cases add an "
                "invalid variant that must be rejected; CLI cases run check/test/run on file and directory packages, 35% "
                "invalid by construction; non-trivial = at least one test (or an invalid package for the CLI)",
        "jobs": [
            {"family": "tests-inproc", "flavour": "debug", "cases": {"quick": 6000, "thorough": 120000}},
            {"family": "tests-cli", "flavour": "debug", "cases": {"quick": 800, "thorough": 12000},
             "needs": ["roto-bin", "cli-host"], "case_timeout": 60},
        ],
        "assumptions": ["the generator's model of accept/reject outcomes and marker sequences is correct"],
        "min_tags": 40,
        "budget": {"quick": 300, "thorough": 1800},
    },
    "C13": {
        "claim": "Reference-resolver monitor: for random module trees (in memory and on disk with decoy files) a harness-side "
                 "resolver implementing only the documented lookup rules says for every generated reference which item tag it "
                 "must evaluate to or that it must be rejected; valid references are compiled, fetched by module path and "
                 "called, invalid ones must yield a compile error.",
        "design_ref": "DESIGN.md §4 C13",
        "level_note": "References whose resolution the documentation does not order (declaration vs import of the same name in "
                      "one scope, import cycles, enum-variant imports ...) are never generated. Sampled trees.",
        "technique": "reference-model monitoring of name resolution via identity tags (in-memory and on-disk module trees)",
        "rule": "random module trees (<= 7 modules, depth <= 3, the same item names reused in all modules) delivered through "
                "FileTree::file_spec and through FileTree::read of a temporary directory with decoys; per tree 2n+4 (quick) / "
                "3n+6 (thorough) valid references over all reference forms and scope depths plus 5/8 must-be-error "
                "references compiled alone, every function fetched by module path; a fifth of the outer scopes hold an import "
                "ladder (2-3 imports each needing the name the previous one binds, tried in every order); non-trivial = at least one reference "
                "checked; distinct = distinct tree + references",
        "jobs": [
            {"family": "modules", "flavour": "release", "cases": {"quick": 4000, "thorough": 60000}},
            {"family": "modules", "flavour": "debug", "cases": {"quick": 600, "thorough": 6000}, "args": {"stream": "debug"}},
        ],
        "assumptions": ["the harness resolver implements exactly the documented rules (listed in DESIGN.md §4 C13)"],
        "min_tags": 50,
        "budget": {"quick": 300, "thorough": 1500},
    },
    "C15": {
        "claim": "Lock-step model monitor: every operation sequence is executed by roto's List and by a shared-vector model "
                 "(one Vec per list object + handle->object map); results, tracked-element live counts after every operation "
                 "and the final ledger must agree, and an operation that makes no progress is reported as a hang. The Rust-API "
                 "driver enumerates ALL sequences up to a length bound and also runs under Miri (UB / deadlock detection).",
        "design_ref": "DESIGN.md §4 C15",
        "level_note": "Exhaustive over sequences of length <= 3 (quick) / <= 4 (thorough, for u64 and the 24-byte tracked type) "
                      "of a 74-operation alphabet on two handles from three aliasing states; longer sequences, scripts and "
                      "the Miri runs are sampled. A 5 s wall-clock stall (4-5 orders of magnitude above the cost of an "
                      "operation) counts as non-termination.",
        "technique": "lock-step reference-model monitoring (shared-vector model) + drop ledger + Miri on the Rust API",
        "rule": "list-api: all operation sequences up to the length bound over 74 operations x 2 handle slots x 3 initial "
                "aliasing states in blocks of 8192, plus seeded random sequences <= 200 operations over 3 slots starting "
                "next to each growth boundary 0,4,..,256, for element types u64, 24-byte tracked, u8, String, List<u8>, "
                "zero-sized tracked, Option<u32>; list-script: the same sequences printed as Roto programs (out_* log vs "
                "model) or routed at random through the Rust API or compiled script functions on the same objects; script "
                "loops are also left from inside their body (return, return out of two loops, ? on None) after 0, 1, "
                "len-1, len, len+1 elements; script element types include () (zero-sized, no clone function); every 11th string "
                "element is the empty string; "
                "non-trivial = at least one result compared; evaluations = operations executed",
        "jobs": [
            {"family": "list-api", "flavour": "release", "cases": {"quick": 0, "thorough": 0}, "case_timeout": 60,
             "tiers": ["quick"]},
            {"family": "list-api", "flavour": "release", "cases": {"quick": 0, "thorough": 0}, "case_timeout": 60,
             "args": {"len-main": 4, "random": 40000}, "tiers": ["thorough"]},
            {"family": "list-api", "flavour": "debug", "cases": {"quick": 400, "thorough": 2000}, "case_timeout": 120,
             "args": {"stream": "debug"}},
            {"family": "list-script", "flavour": "release", "cases": {"quick": 4000, "thorough": 60000}, "case_timeout": 60},
            {"kind": "miri", "family": "list-miri", "crate": "listmiri", "procs": {"quick": 4, "thorough": 16},
             "nops": {"quick": 250, "thorough": 500}, "argv": ["u64,trk,u8,string,trkz,list<u8>", "mode=direct"],
             "budget": {"quick": 400, "thorough": 1500}},
        ],
        "hang_is_violation": True,
        "assumptions": ["the shared-vector model (harness/rvmon/src/fam/listcore.rs) is the documented meaning of List"],
        "min_tags": 60,
        "budget": {"quick": 600, "thorough": 2400},
    },
    "C16": {
        "claim": "Controlled-scheduler monitor over the real List code: short multi-threaded programs (Rust API and compiled "
                 "script functions) on two shared lists run under a scheduler that owns every lock-acquisition point (verif-hooks "
                 "list hook) and explores the interleavings depth-first; every explored schedule is checked for deadlock "
                 "(nobody runs, somebody unfinished, nothing enabled), for reads through storage another thread released, and "
                 "its invocation/response history for linearizability against the shared-vector model.",
        "design_ref": "DESIGN.md §4 C16",
        "level_note": "Exhaustive over schedules (at lock-acquisition granularity) of every enumerated configuration below the "
                      "schedule cap; capped configurations get the first schedules in DFS order plus seeded random ones; larger "
                      "random configurations are sampled. Real OS threads, real mutexes; the scheduler only decides who runs.",
        "technique": "controlled-scheduler runtime monitoring: stateless schedule exploration + linearizability checker + "
                     "released-buffer monitor + deadlock monitor; Miri (data-race detector, borrow tracker, deadlock detector) "
                     "on real threads over the Rust List API",
        "rule": "case = one configuration (element type, thread programs, initial aliasing); evaluations = schedules executed; "
                "events = hook events observed; distinct = distinct configuration; non-trivial = at least two schedules with "
                "different interleavings were executed and checked",
        "jobs": [
            {"family": "list-sched", "flavour": "release", "cases": {"quick": 4096, "thorough": 16096}, "case_timeout": 120},
            # the Rust List API under Miri with real threads: Miri's data-race detector, borrow
            # tracker and deadlock detector watch every access to the list storage (needs no hook,
            # so an access that takes no lock at all is seen too); histories are checked for
            # linearizability; every configuration meets one interleaving per Miri seed
            {"kind": "miri", "family": "list-race-miri", "crate": "listmiri", "bin": "listrace",
             "procs": {"quick": 2, "thorough": 8}, "nops": {"quick": 14, "thorough": 40},
             "many_seeds": {"quick": 16, "thorough": 48},
             "summary_re": r"(\d+) configurations, (\d+) operations, (\d+) search nodes",
             "budget": {"quick": 300, "thorough": 1500}},
        ],
        "assumptions": ["the shared-vector model (Vec per list object) is the documented meaning of List",
                        "yield points are the lock acquisitions and element callbacks: code between two of them is "
                        "thread-local (holds for the current list.rs; a lock-free shared access would be invisible)"],
        "min_tags": 20,
        "budget": {"quick": 700, "thorough": 2400},
    },
    "C04": {
        "claim": "Exhaustive cross-product monitor over a finite catalogue: for every pair (script type term, requested Rust type "
                 "term) of an 87-term boundary catalogue, every arity pair, every transposition of a 7-parameter function, "
                 "every filtermap payload combination and ~940 names, get_function::<F> must return Ok exactly for the "
                 "documented mapping; every expected handle is also called with catalogue values.",
        "design_ref": "DESIGN.md §4 C04",
        "level_note": "Exhaustive over the catalogue (87 terms, depth <= 3), not over the infinite type grammar; unexpected "
                      "handles are never called (that would be UB) but reported.",
        "technique": "exhaustive enumeration of a finite type catalogue with an accept/refuse oracle (structural equality)",
        "rule": "case = one row batch of the 87x87x2 request matrix, of the arity matrix (9x8), the transposition set, the "
                "filtermap matrix (15x24), the name list (937x10), the registered-type requests or the nomapping case (script "
                "records / enums that shadow the name of a built-in leaf type or of List / Option / Result / Verdict, and the "
                "never type at depth 0-2, requested as the same-named built-in, a same-sized primitive, a registered type "
                "or () - none may be handed out); evaluations = requests and "
                "calls made; non-trivial = at least one verdict compared; distinct = distinct row",
        "jobs": [
            {"family": "sig-gate", "flavour": "release", "cases": {"quick": 0, "thorough": 0}},
            {"family": "sig-gate", "flavour": "debug", "cases": {"quick": 0, "thorough": 0}, "args": {"stream": "debug"}},
        ],
        "exhaustive": True,
        "assumptions": ["the macro-generated catalogue covers one representative of every constructor nesting and payload "
                        "size/alignment class"],
        "min_tags": 5,
        "min_cases": {"quick": 90, "thorough": 90},
        "budget": {"quick": 240, "thorough": 900},
    },
    "C05": {
        "claim": "Identity monitor at the host boundary: for every catalogue term, edge and random values are sent along every "
                 "route (Rust argument/return, host function argument/return at positions 1-7, method receiver, script "
                 "locals and calls, Some/None/Ok/Err/Accept/Reject built or matched in the script, registered constants in "
                 "two packages, context structs under all 24 field orders) and must arrive structurally equal; the drop "
                 "ledger must balance after every call.",
        "design_ref": "DESIGN.md §4 C05",
        "level_note": "All catalogue terms x routes are walked; values are sampled (edge values first). Runs in debug and "
                      "release builds because ABI disagreements can depend on optimisation.",
        "technique": "identity (round-trip) monitoring of values across the host boundary + drop ledger, release and debug builds",
        "rule": "case = one catalogue term (or context struct family) with >= 64 values per route (5000 thorough), edge values "
                "first; 91 terms incl. four with a zero-sized 8-aligned payload nested in enums / lists; evaluations = calls; "
                "events = comparisons; non-trivial = at least one value compared",
        "jobs": [
            {"family": "boundary", "flavour": "release", "cases": {"quick": 0, "thorough": 0}, "tiers": ["quick"]},
            {"family": "boundary", "flavour": "release", "cases": {"quick": 0, "thorough": 0}, "args": {"values": 5000},
             "tiers": ["thorough"]},
            {"family": "boundary", "flavour": "debug", "cases": {"quick": 0, "thorough": 0}, "args": {"stream": "debug"}},
            {"family": "boundary", "flavour": "asan", "cases": {"quick": 0, "thorough": 0}, "args": {"stream": "asan"},
             "env": {"ASAN_OPTIONS": "detect_leaks=0:halt_on_error=1:abort_on_error=1"}, "case_timeout": 300},
            {"family": "corpus", "flavour": "release", "cases": {"quick": 0, "thorough": 0}, "args": {"prop": "C05"}, "shards": 1},
        ],
        "assumptions": ["structural equality of the catalogue's own generators/equalities (floats bitwise, NaN == NaN)"],
        "min_tags": 10,
        "min_cases": {"quick": 100, "thorough": 100},
        "budget": {"quick": 240, "thorough": 1200},
    },
    "C18": {
        "claim": "Reference-model monitor of registration: libraries built through the non-macro API (and fixed library! "
                 "libraries) with at most one injected defect are added to a runtime; a harness model of the rules gives the "
                 "expected verdict (panic = violation), and after success probe scripts reach every item by its declared "
                 "path and by root-level use paths and compare identity tags.",
        "design_ref": "DESIGN.md §4 C18",
        "level_note": "A use inside a module is checked by its verdict and by not leaking into the root (imports are "
                      "scope-local; scripts cannot be placed inside a runtime module). Sampled libraries.",
        "technique": "reference-model monitoring of registration verdicts + reachability probes with identity tags",
        "rule": "case = 1-3 libraries added to one runtime (1-12 items nested <= 3 modules, 8 harness types, 18 function "
                "shapes, constants, impl blocks, use items; 70% shuffled; 55% with one injected defect from: bad name "
                "classes, duplicates per scope and across adds, type registered twice, unregistered type in "
                "signature/impl/constant, bad or clashing use; types inside modules may be named like the prelude enums, "
                "which is legal); first 26 cases are fixed library! libraries and witnesses; "
                "non-trivial = at least one verdict compared",
        "jobs": [
            {"family": "registration", "flavour": "debug", "cases": {"quick": 8000, "thorough": 120000}},
            {"family": "registration", "flavour": "release", "cases": {"quick": 2000, "thorough": 40000}, "args": {"stream": "rel"}},
        ],
        "assumptions": ["the harness model encodes exactly the failure conditions named by the property"],
        "min_tags": 40,
        "budget": {"quick": 240, "thorough": 1200},
    },
    "C20": {
        "claim": "Differential monitor on identical IR: a hook lowers each generated program once; the IR evaluator and the "
                 "machine code generated from that same lowered IR are run on the same inputs; whenever the evaluator "
                 "completes, its result and host-call log must equal the compiled code's. Evaluator panics are legal and "
                 "counted.",
        "design_ref": "DESIGN.md §4 C20",
        "level_note": "Only entry points returning a scalar directly are used; a run in which fewer than 30% of the executions "
                      "complete in the evaluator is inconclusive. Release build (the evaluator's arithmetic panics on "
                      "overflow in debug), plus a smaller debug run.",
        "technique": "differential runtime monitoring of IR evaluator vs JIT from the same lowered IR (hook)",
        "rule": "rotogen 'evaluator' profile: non-recursive programs over scalars, records, enums, Option, strings and logging "
                "host calls (a third of the i64 / u32 inputs come from registered capturing closures), 3 (quick) / 6 (thorough) input vectors each; non-trivial = the evaluator completed on at least "
                "one input; evaluations = executions attempted",
        "jobs": [
            {"family": "evalcmp", "flavour": "release", "cases": {"quick": 30000, "thorough": 600000}},
            {"family": "evalcmp", "flavour": "debug", "cases": {"quick": 3000, "thorough": 30000}, "args": {"stream": "debug"}},
        ],
        "assumptions": ["the JIT-compiled code is the reference (its own correctness is C01's business)"],
        "min_tags": 60,
        "min_ratio": {"counter_num": "evaluator_completed", "counter_den": ["evaluator_completed", "evaluator_panicked"], "min": 0.3},
        "budget": {"quick": 240, "thorough": 1200},
    },
    "C14": {
        "claim": "Trace monitor over compilation: every constant initialiser calls a logging host function; the log recorded "
                 "while FileTree::compile runs must contain each constant exactly once and after all constants it depends on "
                 "(directly or through functions), nothing may be logged after compile returned, getters must observe the "
                 "values implied by the generated graph, and graphs with an injected cycle or context read must be rejected "
                 "with an empty log.",
        "design_ref": "DESIGN.md §4 C14",
        "level_note": "The oracle is the generated dependency graph itself (any topological order is accepted). Sampled graphs.",
        "technique": "event-log monitor (init events during compile) checked against the generated dependency DAG",
        "rule": "random DAGs of 2-12 constants and 0-8 functions (edges by direct mention, nested block, if branch, method "
                "call on a constant, function call), printed in random declaration order over 1-4 modules with paths or "
                "imports; node values travel through random aggregate value shapes (records, enums, Options, lists, strings, "
                "nested) with copies, comparisons and constant-field reads (also twice in one item: in both branches of an if, "
                "or in a branch and after it); recursive function groups of size 1-3 with a "
                "decreasing depth parameter; random identifier spellings; 20% with an injected cycle (self, mutual, through "
                "functions / recursive groups), 20% with a context read in 7 syntactic forms (direct, through functions, through "
                "recursive groups), with and without a context type on the runtime; half of the graphs hold 1-2 constants of a zero-sized "
                "type ((), or a record whose fields are all ()) whose initialiser only has an effect (zinit(id)), in four forms, "
                "optionally mentioning a constant and mentioned by one: once each, in dependency order; the getters are called "
                "twice, in half of the cases the second time after the package was dropped (the handles alone keep the "
                "constants they read); every case is non-trivial",
        "jobs": [
            {"family": "constorder", "flavour": "release", "cases": {"quick": 12000, "thorough": 300000}},
            {"family": "constorder", "flavour": "debug", "cases": {"quick": 1500, "thorough": 30000}, "args": {"stream": "debug"}},
        ],
        "assumptions": ["the host function init(k) is the only way a constant initialiser becomes observable"],
        "min_tags": 25,
        "budget": {"quick": 240, "thorough": 1200},
    },
    "C09": {
        "claim": "Independent-decoder monitor: literal spellings generated from the documented grammar are compiled into "
                 "scripts that return them, and the value is compared with hand-written decoders (std parsers for numbers "
                 "and addresses); ALL operator sequences up to length 3 (2379) and sampled longer ones are grouped by a "
                 "reference precedence climber: well-typed ones are compiled as written and fully parenthesised and both must "
                 "return the reference value on 16 operand vectors, chains of comparisons / mixed && || must be parse errors.",
        "design_ref": "DESIGN.md §4 C09",
        "level_note": "Exhaustive over operator sequences of length <= 3; literal spellings, identifiers, comment placements "
                      "and longer sequences are sampled. f32 literals accept both the directly rounded value and the value "
                      "rounded through f64; spellings the documentation does not list (10.e5, embedded IPv4 in IPv6) are not "
                      "generated.",
        "technique": "independent literal decoders + reference precedence climber compared with compiled scripts",
        "rule": "cases 0..2378 = every sequence of 1-3 binary operators over the 13 operators with random unary prefixes; then "
                "sampled: operator sequences of length 4-6, integer (underscores, hex, suffix, full range of the type; literals "
                "of signed types under unary minus incl. the minimum of each type), float "
                "(fraction, exponent, suffix; digits and a suffix only, 1-25 digits), string and char (every escape, continuation), f-string ({{ }} escapes, Unicode "
                "text), IPv4/IPv6/ASN/prefix literals, identifiers (XID start/continue from long-stable blocks, non-XID and "
                "keyword negatives), comments and shebang at token boundaries; non-trivial = at least one value or verdict "
                "compared",
        "jobs": [
            {"family": "grammar", "flavour": "release", "cases": {"quick": 30000, "thorough": 600000}},
            {"family": "grammar", "flavour": "debug", "cases": {"quick": 4000, "thorough": 40000}, "args": {"stream": "debug"}},
            {"family": "corpus", "flavour": "debug", "cases": {"quick": 0, "thorough": 0}, "args": {"prop": "C09"}, "shards": 1},
        ],
        "exhaustive": False,
        "assumptions": ["Rust's str::parse for integers/floats and std::net / inetnum parsing are the documented meaning of "
                        "the numeric and address spellings"],
        "min_tags": 30,
        "budget": {"quick": 240, "thorough": 1500},
    },
    "C11": {
        "claim": "History monitor with an ownership model: histories of {new runtime, compile, get/clone/call/drop handle, drop "
                 "package, drop runtime, drop a handle on another thread} are executed against the real API; after every "
                 "step every surviving handle is called and compared, and the set of live drop-tracked instances (script "
                 "constants, registered constants, closure captures) must equal what a 40-line ownership model predicts. The "
                 "same histories run under AddressSanitizer, which turns a call into freed code or constant storage into a "
                 "deterministic report.",
        "design_ref": "DESIGN.md §4 C11",
        "level_note": "ALL well-formed histories up to length 4 (quick) / 6 (thorough) from a seeded start state (one runtime, "
                      "package and handle) plus random histories of 8-60 steps; object choices are oldest/newest.",
        "technique": "exhaustive short + random long drop-order histories checked by an ownership model, drop ledger and ASan",
        "rule": "cases 0..407: scenario closure-holds-script-list (one runtime whose registered closures store script-made "
                "lists, 6 shapes x all drop orders of runtime, package, handles, clones, into_func closures); then one "
                "enumerated history each over 20 operations (handles, clones, into_func closures, collected test cases, packages, "
                "runtimes; every script has a zero-sized drop-tracked constant counted against the model; object "
                "choice oldest/newest, at most 3 runtimes and 4 script versions, two same-typed closures with separate "
                "captured state per runtime, plus one closure whose captured state is a zero-sized token with a destructor) of length <= 4 (6 thorough); remaining cases: random histories; evaluations = operations "
                "executed; events = handle calls and live-set comparisons; non-trivial = at least one operation",
        "jobs": [
            {"family": "lifetimes", "flavour": "release", "cases": {"quick": 0, "thorough": 0}},
            {"family": "lifetimes", "flavour": "debug", "cases": {"quick": 1200, "thorough": 20000}, "args": {"stream": "debug"}},
            {"family": "lifetimes", "flavour": "asan", "cases": {"quick": 1500, "thorough": 40000}, "args": {"stream": "asan"},
             "env": {"ASAN_OPTIONS": "detect_leaks=0:halt_on_error=1:abort_on_error=1"}, "case_timeout": 120},
        ],
        "exhaustive": False,
        "assumptions": ["the ownership model: constants of a script belong to its package and every handle of it; registered "
                        "constants and closure captures belong to the runtime and to everything compiled from it"],
        "min_tags": 10,
        "budget": {"quick": 400, "thorough": 2400},
    },
    "C12": {
        "claim": "Concurrency stress monitor: one handle is cloned into 2-16 threads that call it on several input vectors "
                 "while other threads compile fresh scripts (registering types and interning symbols concurrently) and call "
                 "and drop the resulting packages; every concurrent result and host-call log must equal the single-threaded "
                 "one and the global drop ledger must balance. Compile-and-run probes check that safe Rust cannot register "
                 "non-thread-safe state (rustc rejects them, or they are run and must not race); a ThreadSanitizer build "
                 "of the same workload (thorough tier) reports host-side data races.",
        "design_ref": "DESIGN.md §4 C12",
        "level_note": "Schedules are whatever the OS produces under load (sampled, uncontrolled); JIT code is not "
                      "TSan-instrumented; the Send-but-not-Sync types are sampled by four probes.",
        "technique": "multi-threaded stress with result/log/ledger oracles + rustc accept/reject probes + ThreadSanitizer",
        "rule": "case = one generated program (scalar, aggregate, ownership or effects profile), up to 4 input vectors on which "
                "it runs to completion, 2/4/8/16 threads x >= 150 (400 thorough) calls each, in half of the cases with 2 "
                "compiling threads and a dropper in the background, threads calling through the shared handle, their own "
                "clones or their own into_func closures while the package and the original handle are dropped; every 8th case: "
                "scenario shared-lists (four handles, two shared lists of length 0..200000 in both argument orders, injected "
                "lock delays, progress-based stuck detector) and every 8th case: scenario shared-runtime (2-16 threads compile "
                "against, call and drop packages of one runtime with 3-48 same-typed closures owning tracked state); every "
                "16th case: scenario shared-stringbufs (functions comparing two StringBuf constants in both operand orders) "
                "and scenario shared-lists-mutating (pushes, swaps, comparisons, reads on two shared lists: conservation of "
                "the elements, per-thread push order, no impossible value, progress; mix swap-vs-snapshot: a registered function "
                "takes to_vec snapshots while other threads swap - every snapshot is a permutation of the initial values); "
                "non-trivial = at least one concurrent call compared",
        "jobs": [
            {"family": "concurrent", "flavour": "release", "cases": {"quick": 600, "thorough": 12000}, "shards": 4,
             "case_timeout": 120},
            {"family": "concurrent", "flavour": "debug", "cases": {"quick": 100, "thorough": 1000}, "shards": 4,
             "args": {"stream": "debug"}, "case_timeout": 180},
            {"kind": "probe", "family": "sync-probes"},
            {"family": "concurrent", "flavour": "tsan", "cases": {"quick": 60, "thorough": 600}, "shards": 4,
             "args": {"stream": "tsan"}, "tiers": ["thorough"], "case_timeout": 300,
             "env": {"TSAN_OPTIONS": "halt_on_error=1:exitcode=66"}},
        ],
        "assumptions": ["the single-threaded execution of the same handle is the reference"],
        "min_tags": 40,
        "min_cases": {"quick": 100, "thorough": 100},
        "budget": {"quick": 400, "thorough": 2400},
    },
}
