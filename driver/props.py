"""Per-property job tables for ./check."""

SETUP_FLAVOURS = ["debug", "release"]
HOOK_COMMITS = ["7097985"]
NOT_YET = {}

DIFF_ASSUME = [
    "rotogen's reference interpreter (harness/rvmon/src/rg/interp.rs) implements the documented semantics",
    "generated programs are well-typed by construction under the documented typing rules",
    "JIT-compiled code is observed only through return values, host calls, the drop ledger and the allocation balance",
]


def diff_jobs(profile, quick, thorough, corpus_prop):
    return [
        {"family": f"diff-{profile}", "flavour": "release", "cases": {"quick": quick, "thorough": thorough}},
        {"family": f"diff-{profile}", "flavour": "debug", "cases": {"quick": quick // 6, "thorough": thorough // 8},
         "args": {"stream": "debug"}},
        {"family": "corpus", "flavour": "debug", "cases": {"quick": 0, "thorough": 0},
         "args": {"prop": corpus_prop}, "shards": 1},
        {"family": "corpus", "flavour": "release", "cases": {"quick": 0, "thorough": 0},
         "args": {"prop": corpus_prop, "stream": "rel"}, "shards": 1},
    ]


PROPS = {
    "C01": {
        "claim": "Differential runtime monitoring: the JIT-compiled program and an independent reference interpreter are run on the same generated well-typed programs and boundary/random inputs; return value and ordered host-call log must agree. Sampled, not exhaustive: held on the programs and inputs observed.",
        "design_ref": "DESIGN.md §4 C01",
        "level_note": "Trusted base: rotogen's interpreter and printer (harness/rvmon/src/rg); programs are well-typed by construction. JIT code is only observed through results and host calls.",
        "technique": "differential runtime monitoring against a reference interpreter (generated programs, boundary inputs)",
        "rule": "rotogen 'scalar' profile: random well-typed programs over all integer widths, floats, bool, char, "
                "Option and small user enums/records, 1-5 functions with fuel-bounded recursion, each run on 4 (quick) / 8 "
                "(thorough) input vectors mixing boundary and random words; a case is non-trivial if at least one input "
                "ran to completion in both the interpreter and the JIT and produced host-call events; distinct = distinct "
                "source text",
        "jobs": diff_jobs("scalar", 60000, 1500000, "C01"),
        "assumptions": DIFF_ASSUME,
        "min_tags": 120,
        "budget": {"quick": 200, "thorough": 1500},
    },
    "C02": {
        "claim": "Differential runtime monitoring of aggregate programs: every leaf field is emitted through logging host functions after each mutation and compared with the interpreter's value-semantics model; the drop ledger and allocation balance watch the generated clone/drop/eq code. Sampled programs and layouts.",
        "design_ref": "DESIGN.md §4 C02",
        "level_note": "Trusted base as C01; equality of aggregates containing NaN is treated as unspecified. Layouts are sampled, not enumerated.",
        "technique": "differential runtime monitoring + drop ledger + allocation balance on generated aggregate programs",
        "rule": "rotogen 'aggregate' profile: programs declaring 0-5 record/enum types (generic, nested, anonymous; random "
                "field orders over all scalar widths, String, List, Option, Trk) that copy, mutate, compare, match and emit "
                "every leaf field through out_* after mutations; non-trivial/distinct as for C01",
        "jobs": diff_jobs("aggregate", 40000, 1000000, "C02"),
        "assumptions": DIFF_ASSUME,
        "min_tags": 100,
        "budget": {"quick": 200, "thorough": 1500},
    },
    "C03": {
        "claim": "Online monitor at the host boundary: every instance of a drop-tracked registered type carries an id and a canary; the ledger flags double drop, drop of garbage, read after drop and leaks the moment they happen, and a counting allocator checks that the heap balance returns to zero after each call. Sampled programs x steering inputs.",
        "design_ref": "DESIGN.md §4 C03",
        "level_note": "Trusted base: the ledger (harness/rvmon/src/host.rs) and counting allocator (alloc.rs). Known-defect patterns are excluded from the random stream and exercised by corpus witnesses (KNOWN_FINDINGS.txt).",
        "technique": "online drop-ledger monitor (per-instance ids, canaries) + allocation-balance monitor at the host boundary",
        "rule": "rotogen 'ownership' profile: programs that create, clone, store, pass and discard drop-tracked host values "
                "(24-byte Trk), strings and lists in every construct; the ledger checks each instance id is dropped exactly "
                "once and the allocation balance returns to zero after the call; non-trivial = ran and produced clone/drop "
                "or host events",
        "jobs": diff_jobs("ownership", 40000, 1000000, "C03"),
        "assumptions": DIFF_ASSUME + ["known-defect patterns (see KNOWN_FINDINGS.txt) are kept out of the random stream; "
                                      "their witnesses in corpus/ run in every check"],
        "min_tags": 90,
        "budget": {"quick": 200, "thorough": 1500},
    },
    "C08": {
        "claim": "Trace monitor: the ordered log of host calls (function, argument values) made during one call is compared event by event with the reference interpreter's log for programs whose sub-expressions are effectful host calls. Sampled programs.",
        "design_ref": "DESIGN.md §4 C08",
        "level_note": "Trusted base as C01; only effects that reach a host function are visible.",
        "technique": "host-call trace monitor compared with reference interpreter trace",
        "rule": "rotogen 'effects' profile: 70% of leaves are logged host calls, so evaluation order and multiplicity of "
                "every operand, argument, field, element, f-string part, condition, guard and scrutinee is visible in the "
                "ordered host-call log, which is compared with the interpreter's log",
        "jobs": diff_jobs("effects", 40000, 1000000, "C08"),
        "assumptions": DIFF_ASSUME,
        "min_tags": 100,
        "budget": {"quick": 200, "thorough": 1500},
    },
    "C10": {
        "claim": "Fault enumeration by process supervision: every enumerated (operator, type, operand pair) and built-in x edge-argument case runs between a begin and an end line of a supervised worker; a death (signal, abort) is attributed to that case. The enumerated edge space is covered completely on every run.",
        "design_ref": "DESIGN.md §4 C10",
        "level_note": "Only survival (plus the wrapped arithmetic result) is judged; values of built-ins are C17's. Exhaustive over the enumerated edge classes, not over all values.",
        "technique": "supervised worker processes; per-case attribution of signals/aborts (survival oracle)",
        "rule": "enumerated cases, one per worker begin/end pair: every (operator, integer type, operand pair) with operands "
                "from {MIN, MIN+1, -1, 0, 1, 2, MAX-1, MAX} (incl. compound assignment), unary minus, all six comparisons, "
                "float operators and methods on 22 special values, string views / list methods with indices around 0, len "
                "and u64::MAX, counts, every prefix length 0..=255 for both families, StringBuf, to_string of every "
                "primitive at its edges; oracle = the worker survives (and, where the language defines the result, the "
                "emitted value equals the wrapped result); distinct = distinct (script, input) pairs",
        "jobs": [
            {"family": "survive", "flavour": "release", "cases": {"quick": 0, "thorough": 0}, "case_timeout": 20},
            {"family": "survive", "flavour": "debug", "cases": {"quick": 0, "thorough": 0}, "case_timeout": 20,
             "tiers": ["thorough"], "args": {"stream": "debug"}},
            {"family": "corpus", "flavour": "release", "cases": {"quick": 0, "thorough": 0}, "args": {"prop": "C10"}, "shards": 1},
        ],
        "level": "fault_enumeration",
        "exhaustive": True,
        "hang_is_violation": True,
        "assumptions": ["the documented resource limits (unbounded recursion, non-terminating loops, memory exhaustion) are "
                        "never approached by the workload", "a worker death is attributed to the case between whose begin and "
                        "end lines it happened"],
        "min_cases": {"quick": 3000, "thorough": 3000},
        "budget": {"quick": 240, "thorough": 900},
    },
}
