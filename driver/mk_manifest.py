#!/usr/bin/env python3
"""Regenerate /verif/MANIFEST.json from driver/props.py."""
import json, os, sys
HERE = os.path.dirname(os.path.abspath(__file__))
ROOT = os.path.dirname(HERE)
sys.path.insert(0, HERE)
import props

checks = []
for pid in sorted(props.PROPS):
    sp = props.PROPS[pid]
    checks.append({
        "property_id": pid,
        "quick_cmd": f"./check {pid} --tier quick",
        "thorough_cmd": f"./check {pid} --tier thorough",
        "evidence_file": f"evidence/{pid}.json",
        "replay_cmd_template": f"./check {pid} --replay {{path}}",
        "engine": "rvmon",
        "level_claimed": {"category": sp.get("level", "exploration"), "text": sp["claim"], "design_ref": sp["design_ref"]},
        "level_note": sp["level_note"],
        "technique": sp["technique"],
    })
allp = [json.loads(l)["id"] for l in open(os.path.join(ROOT, "properties.jsonl"))]
na = [{"property_id": p, "reason": props.NOT_YET.get(p, "monitor not built yet in this revision of /verif (planned, see DESIGN.md §4); runtime monitoring applies to it")}
      for p in allp if p not in props.PROPS]
m = {
    "version": 1,
    "setup_cmd": "./check --setup",
    "hooks": {
        "guard": "verif-hooks",
        "enable": "cargo feature `verif-hooks` of the roto crate, switched on by the harness' path dependency (harness/rvmon/Cargo.toml)",
        "baseline_off_cmd": "cd /repo && cargo nextest run --workspace --no-fail-fast --offline",
        "source_commits": props.HOOK_COMMITS,
        "add_only": True,
    },
    "engines": [{"name": "rvmon", "path": "harness/rvmon", "serves_properties": sorted(props.PROPS),
                 "kind_free_text": "Rust worker binary (program generator, reference interpreter, host-side monitors, "
                                   "sanitizer builds) supervised by the python driver ./check"}],
    "checks": checks,
    "not_applicable": na,
    "notes": "Every check rebuilds the harness against /repo's working tree (cargo fingerprinting) before running. "
             "Exit 2 = inconclusive (never a VIOLATION line).",
}
json.dump(m, open(os.path.join(ROOT, "MANIFEST.json"), "w"), indent=1)
print("MANIFEST.json:", len(checks), "checks,", len(na), "not yet claimed")
