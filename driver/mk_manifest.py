import json,sys
sys.path.insert(0,'/verif/driver')
import props
LEVEL = {
 "C01": ("exploration","Differential runtime monitoring: the JIT-compiled program and an independent reference interpreter are run on the same generated well-typed programs and boundary/random inputs; return value and ordered host-call log must agree. Sampled, not exhaustive: held on the programs and inputs observed.","§4 C01"),
 "C02": ("exploration","Differential runtime monitoring of aggregate programs: every leaf field is emitted through logging host functions after each mutation and compared with the interpreter's value-semantics model; the drop ledger and allocation balance watch the generated clone/drop/eq code. Sampled programs and layouts.","§4 C02"),
 "C03": ("exploration","Online monitor at the host boundary: every instance of a drop-tracked registered type carries an id and a canary; the ledger flags double drop, drop of garbage, read after drop and leaks the moment they happen, and a counting allocator checks that the heap balance returns to zero after each call. Sampled programs x steering inputs.","§4 C03"),
 "C08": ("exploration","Trace monitor: the ordered log of host calls (function, argument values) made during one call is compared event by event with the reference interpreter's log for programs whose sub-expressions are effectful host calls. Sampled programs.","§4 C08"),
}
NOTE = {
 "C01": "Trusted base: rotogen's interpreter and printer (harness/rvmon/src/rg); programs are well-typed by construction. JIT code is only observed through results and host calls.",
 "C02": "Trusted base as C01; NaN-free float equality is IEEE on both sides. Layout signatures are sampled, not enumerated.",
 "C03": "Trusted base: the ledger (harness/rvmon/src/host.rs) and counting allocator (alloc.rs). Known-defect patterns are excluded from the random stream and exercised by corpus witnesses (KNOWN_FINDINGS.txt).",
 "C08": "Trusted base as C01; only effects that reach a host function are visible.",
}
TECH = {
 "C01": "differential runtime monitoring against a reference interpreter (generated programs, boundary inputs)",
 "C02": "differential runtime monitoring + drop ledger + allocation balance on generated aggregate programs",
 "C03": "online drop-ledger monitor (per-instance ids, canaries) + allocation-balance monitor at the host boundary",
 "C08": "host-call trace monitor compared with reference interpreter trace",
}
checks=[]
for pid in sorted(props.PROPS):
    cat,text,ref = LEVEL[pid]
    checks.append({
      "property_id": pid,
      "quick_cmd": f"./check {pid} --tier quick",
      "thorough_cmd": f"./check {pid} --tier thorough",
      "evidence_file": f"evidence/{pid}.json",
      "replay_cmd_template": f"./check {pid} --replay {{path}}",
      "engine": "rvmon",
      "level_claimed": {"category": cat, "text": text, "design_ref": ref},
      "level_note": NOTE[pid],
      "technique": TECH[pid],
    })
allp=[json.loads(l)['id'] for l in open('/verif/properties.jsonl')]
na=[{"property_id":p,"reason":"monitor not built yet in this revision of /verif (planned, see DESIGN.md §4); runtime monitoring applies to it"} for p in allp if p not in props.PROPS]
m={
 "version":1,
 "setup_cmd":"./check --setup",
 "hooks":{"guard":"verif-hooks","enable":"cargo feature `verif-hooks` of the roto crate, switched on by the harness' path dependency (harness/rvmon/Cargo.toml)","baseline_off_cmd":"cd /repo && cargo nextest run --workspace --no-fail-fast --offline","source_commits":["7097985"],"add_only":True},
 "engines":[{"name":"rvmon","path":"harness/rvmon","serves_properties":sorted(props.PROPS),"kind_free_text":"Rust worker binary (program generator, reference interpreter, host-side monitors) supervised by the python driver ./check"}],
 "checks":checks,
 "not_applicable":na,
 "notes":"Every check rebuilds the harness against /repo's working tree (cargo fingerprinting) before running. Exit 2 = inconclusive (never a VIOLATION line).",
}
json.dump(m,open('/verif/MANIFEST.json','w'),indent=1)
