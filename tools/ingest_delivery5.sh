#!/bin/bash
# tools/ingest_delivery5.sh <PROP> <n>: copy /tmp/deliver${TAG:-5}/<PROP>/ to seeded/<PROP>-<n>/ and confirm it
set -e
cd "$(dirname "$0")/.."
p=$1; n=$2
d=seeded/$p-$n
mkdir -p $d
cp /tmp/deliver${TAG:-5}/$p/patch.diff $d/patch.diff
cp /tmp/deliver${TAG:-5}/$p/demo.rs $d/demo_$n.rs
cp /tmp/deliver${TAG:-5}/$p/meta.md $d/meta.md
tools/confirm_seeded.sh $d demo_$n.rs
