#!/bin/bash
# tools/ingest_delivery.sh <PROP> <a|b> <n>: copy a sub-agent's delivery /tmp/deliver/<PROP>/<a|b>
# to seeded/<PROP>-<n>/ and confirm it in a scratch worktree (tools/confirm_seeded.sh).
set -e
cd "$(dirname "$0")/.."
p=$1; s=$2; n=$3
d=seeded/$p-$n
mkdir -p $d
cp /tmp/deliver/$p/$s/patch.diff $d/patch.diff
cp /tmp/deliver/$p/$s/demo.rs $d/demo_$n.rs
cp /tmp/deliver/$p/$s/meta.md $d/meta.md
tools/confirm_seeded.sh $d demo_$n.rs
