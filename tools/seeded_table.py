#!/usr/bin/env python3
"""Print the markdown table of DESIGN.md §9 from seeded/*/meta.json and result.json."""
import json, os, sys
ROOT = os.path.dirname(os.path.dirname(os.path.abspath(__file__)))
rows = []
for n in sorted(os.listdir(os.path.join(ROOT, "seeded"))):
    d = os.path.join(ROOT, "seeded", n)
    if not os.path.exists(os.path.join(d, "meta.json")):
        continue
    m = json.load(open(os.path.join(d, "meta.json")))
    r = json.load(open(os.path.join(d, "result.json"))) if os.path.exists(os.path.join(d, "result.json")) else None
    if r is None:
        verdict, sigs = "not run", ""
    else:
        parts, sg = [], []
        for p, x in r["results"].items():
            caught = x["exit"] == 1 and x["violations"] > 0
            parts.append(f"{p}: {'caught' if caught else ('MISSED' if x['exit'] == 0 else 'exit ' + str(x['exit']))}"
                         + (f" ({x['violations']} reports)" if caught else ""))
            sg += [s.replace("sig=", "") for s in x["sigs"][:4]]
        verdict, sigs = "; ".join(parts), ", ".join(f"`{s}`" for s in sg[:5])
    note = m.get("check_note", "")
    rows.append(f"| {n} | {m['breaks'][:160]} | {verdict} | {sigs} {note} |")
own = other = missed = notrun = 0
for n in sorted(os.listdir(os.path.join(ROOT, "seeded"))):
    d = os.path.join(ROOT, "seeded", n)
    if not os.path.exists(os.path.join(d, "meta.json")):
        continue
    m = json.load(open(os.path.join(d, "meta.json")))
    if not os.path.exists(os.path.join(d, "result.json")):
        notrun += 1
        continue
    r = json.load(open(os.path.join(d, "result.json")))["results"]
    c = {p: (x["exit"] == 1 and x["violations"] > 0) for p, x in r.items()}
    if c.get(m["property"]):
        own += 1
    elif any(c.values()):
        other += 1
    else:
        missed += 1
if "--summary" in sys.argv:
    print(f"{own + other + missed + notrun} changes: {own} caught by the quick check of their own property, {other} only by the check of another property, {missed} not caught, {notrun} not run")
    sys.exit(0)
print("| change | what it breaks | quick check of its property | signatures reported |")
print("|---|---|---|---|")
print("\n".join(rows))
