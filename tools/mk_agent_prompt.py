#!/usr/bin/env python3
"""tools/mk_agent_prompt.py <PROP> <round-tag>: print the brief for an independent seeded-change agent.

The agent gets the text of ONE property, a one-line description of each change already
delivered for it (so that it looks elsewhere), its own scratch worktree and a delivery
directory -- nothing else from /verif.  Deliveries land in /tmp/deliver<round-tag>/<PROP>/.
"""
import json, os, sys, glob

root = os.path.dirname(os.path.dirname(os.path.abspath(__file__)))
prop, tag = sys.argv[1], sys.argv[2]
rec = None
for line in open(os.path.join(root, "properties.jsonl")):
    r = json.loads(line)
    if r["id"] == prop:
        rec = r
assert rec, prop
earlier = []
for m in sorted(glob.glob(os.path.join(root, "seeded", prop + "-*", "meta.json"))):
    earlier.append("- " + json.load(open(m))["breaks"])
anch = rec.get("anchors", {})
files = ", ".join(anch.get("files", []))
wt = f"/tmp/w{tag}-{prop}"
dl = f"/tmp/deliver{tag}/{prop}"
print(f"""You are helping to evaluate a verification framework for NLnetLabs/roto (a statically typed embedded scripting language for Rust: parser, Hindley-Milner type checker, MIR/LIR lowering, IR evaluator, cranelift JIT). Your job is to play the role of a developer who introduces a realistic, subtle regression.

Work ONLY in your own scratch git worktree. Create it first:
  git -C /repo worktree add --detach {wt} HEAD
and use your own build directory for every cargo command: export CARGO_TARGET_DIR=/tmp/tgt{tag}-{prop} CARGO_NET_OFFLINE=true (the sandbox has no network; always pass --offline). Never edit, build in or commit to /repo itself, and do not read anything under /verif.

The semantic property the change must break:

  id: {rec['id']} -- {rec['title']}
  statement: {rec['statement']}
  quantified over: {rec['quantifier']['text']}
  code it is anchored in: {files}

Produce ONE change to the roto sources (src/..., possibly macros/...) such that
 1. roto still compiles and its whole existing test suite still passes:
      cd {wt} && cargo nextest run --workspace --no-fail-fast --offline      (415 tests pass at HEAD)
 2. the property above is violated, but only under SPECIFIC circumstances: a particular type or width, an unusual input value, a particular nesting or order of constructs, a multi-step sequence of operations, a particular interleaving of threads, a particular drop order, or two cooperating sites that each look fine alone. NOT something that ordinary use or the first smoke test would expose at once.
 3. it looks like something a developer could plausibly write (a refactoring, an optimisation, a clean-up, a "fix") -- not sabotage, no dead code, no magic constants that single out an input, no cfg tricks, no changes to tests.
 4. it is small (ideally under ~40 changed lines).

The following changes were already delivered for this property by others; do something DIFFERENT (another mechanism, another site, another clause of the property):
{chr(10).join(earlier) if earlier else '- (none)'}

Also write a demonstration: a Rust integration test file (it will be copied to tests/demo.rs of the worktree) using only roto's public API (cargo feature `verif-hooks` exists and may be used if you need roto::verif; say so if you do) that FAILS with your change applied and PASSES on the unchanged HEAD. Verify both yourself:
      cargo nextest run --offline --test demo       (with the change: fails; after `git stash` / without: passes)
and verify the existing suite still passes with the change (without tests/demo.rs present, or tolerate that only demo fails).

Deliver exactly these files (create the directory):
  {dl}/patch.diff   -- `git diff` of your change against HEAD, sources only (NOT including tests/demo.rs); must apply with `git apply` on a clean HEAD
  {dl}/demo.rs      -- the demonstration test file
  {dl}/meta.md      -- 10-20 lines: what the change is, which clause of the property it breaks, exactly what is needed for it to manifest, and the commands you ran with their outcomes

When done, remove your worktree and build output:
  git -C /repo worktree remove --force {wt}; rm -rf /tmp/tgt{tag}-{prop}
Your final message should be a 5-line summary (what the change is, what it needs to manifest, confirmation results). If, while reading the code, you notice something in the UNCHANGED roto that already seems to violate the property, mention it in one or two lines at the end of meta.md under "Observed at HEAD" (do not fix it).""")
