#!/bin/bash
# Run every seeded change (or the ones named) against the quick check of its property.
cd "$(dirname "$0")/.."
names=${@:-$(ls seeded)}
for n in $names; do
  [ -f seeded/$n/patch.diff ] || continue
  echo "=== $n"
  python3 tools/run_seeded.py seeded/$n
done
