#!/usr/bin/env python3
"""Run the checks of /verif against a seeded change (a patch that breaks a property).

  tools/run_seeded.py seeded/<name> [--props C01,C08] [--tier quick]

Applies seeded/<name>/patch.diff to /repo (which must be clean), runs the quick check of
the property named in meta.json (and any extra ones), records the outcome in
seeded/<name>/result.json and ALWAYS restores /repo afterwards.
"""
import json, os, subprocess, sys, time

ROOT = os.path.dirname(os.path.dirname(os.path.abspath(__file__)))


def sh(cmd, **kw):
    return subprocess.run(cmd, stdout=subprocess.PIPE, stderr=subprocess.STDOUT, text=True, **kw)


def main():
    d = os.path.join(ROOT, sys.argv[1]) if not os.path.isabs(sys.argv[1]) else sys.argv[1]
    meta = json.load(open(os.path.join(d, "meta.json")))
    props = [meta["property"]]
    tier = "quick"
    full = "--full" in sys.argv
    a = sys.argv[2:]
    for i, x in enumerate(a):
        if x == "--props":
            props = a[i + 1].split(",")
        if x == "--tier":
            tier = a[i + 1]
    st = sh(["git", "-C", "/repo", "status", "--porcelain", "--untracked-files=no"]).stdout.strip()
    if st:
        print("refusing: /repo has uncommitted changes:\n" + st)
        return 2
    # patch.ported.diff: the same change re-expressed against the current /repo HEAD (the file it
    # touches was changed by a later fix: commit); patch.diff stays as delivered by its author
    patch = os.path.join(d, "patch.ported.diff")
    if not os.path.exists(patch):
        patch = os.path.join(d, "patch.diff")
    r = sh(["git", "-C", "/repo", "apply", patch])
    if r.returncode != 0:
        print("patch does not apply:\n" + r.stdout)
        return 2
    results = {}
    # the evidence files describe the unchanged tree: keep them out of the way
    import shutil, tempfile
    evdir = os.path.join(ROOT, "evidence")
    keep = tempfile.mkdtemp(prefix="evidence-keep-", dir=ROOT)
    for f in os.listdir(evdir):
        shutil.copy2(os.path.join(evdir, f), keep)
    try:
        for p in props:
            t0 = time.time()
            # fail-fast: stop once a couple of dozen unknown violations were seen (--full: whole workload)
            env = dict(os.environ) if full else dict(os.environ, VERIF_FAIL_FAST="1")
            r = sh([os.path.join(ROOT, "check"), p, "--tier", tier], cwd=ROOT, env=env)
            lines = r.stdout.splitlines()
            viol = [l for l in lines if l.startswith("VIOLATION")]
            sigs = [l.strip() for l in lines if l.strip().startswith("sig=")]
            results[p] = {"exit": r.returncode, "violations": len(viol), "sigs": sorted(set(s.split()[0] for s in sigs))[:10],
                          "first": sigs[:3], "wall_s": round(time.time() - t0, 1), "tail": lines[-3:]}
            print(p, "exit", r.returncode, "violations", len(viol), results[p]["sigs"][:5])
    finally:
        sh(["git", "-C", "/repo", "checkout", "--", "."])
        for f in os.listdir(keep):
            shutil.copy2(os.path.join(keep, f), evdir)
        shutil.rmtree(keep)
    json.dump({"ran": time.strftime("%Y-%m-%d %H:%M:%S"), "tier": tier, "mode": "full" if full else "fail-fast", "patch": os.path.basename(patch), "results": results},
              open(os.path.join(d, "result.json"), "w"), indent=1)
    return 0


if __name__ == "__main__":
    sys.exit(main())
