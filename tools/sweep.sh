#!/bin/bash
# tools/sweep.sh <seed> [props...]: run the quick check of every (or the named) property on the tree as it is,
# one after the other, and print one summary line each. Exit status 1 if any check did not exit 0.
cd "$(dirname "$0")/.."
seed=$1; shift
props=${@:-C01 C02 C03 C04 C05 C06 C07 C08 C09 C10 C11 C12 C13 C14 C15 C16 C17 C18 C19 C20}
bad=0
for p in $props; do
  out=$(VERIF_SEED=$seed ./check $p --tier quick 2>&1)
  rc=$?
  echo "$out" | grep -E "^\[$p\]|^VIOLATION|^INCONCLUSIVE|^BROKEN" | head -5
  [ $rc -eq 0 ] || { bad=1; echo "   rc=$rc"; echo "$out" | grep -E "sig=" | head -5; }
done
exit $bad
