#!/bin/bash
# Confirm a delivered seeded change in a scratch worktree of /repo (never in /repo itself):
#   tools/confirm_seeded.sh <dir-with-patch.diff-and-demo> [demo.rs ...]
# 1. existing suite with the patch   -> must be 415 passed
# 2. demonstration with the patch    -> must fail
# 3. demonstration without the patch -> must pass
# The worktree and its build output are removed afterwards. Output goes to <dir>/run.txt too.
set -u
d=$(readlink -f "$1"); shift
name=$(basename "$d")
wt=/tmp/confirm-$name
tgt=/tmp/confirm-target-$name
demos=${@:-$(cd "$d" && ls *.rs 2>/dev/null)}
export CARGO_NET_OFFLINE=true CARGO_TARGET_DIR=$tgt
git -C /repo worktree remove --force "$wt" 2>/dev/null
rm -rf "$wt" "$tgt"
git -C /repo worktree add --detach "$wt" HEAD >/dev/null 2>&1 || { echo "worktree failed"; exit 2; }
{
echo "== confirm $name at $(git -C /repo rev-parse --short HEAD) $(date -u +%FT%TZ)"
cd "$wt"
patch=$d/patch.ported.diff; [ -f "$patch" ] || patch=$d/patch.diff
git apply "$patch" || { echo "RESULT patch-does-not-apply"; }
echo "-- suite with patch"
cargo nextest run --workspace --no-fail-fast --offline 2>&1 | grep -E "Summary|FAIL|error(\[|:)" | head -20
for t in $demos; do cp "$d/$t" tests/ 2>/dev/null || { mkdir -p tests; cp "$d/$t" tests/; }; done
for t in $demos; do
  b=${t%.rs}
  echo "-- demo $b WITH patch (expect failure)"
  cargo nextest run --offline ${FEATURES:+--features $FEATURES} --test "$b" --no-fail-fast 2>&1 | grep -E "Summary|PASS|FAIL|SIGNAL|TIMEOUT|error(\[|:)" | sort | uniq -c | head -12
done
git apply -R "$patch"
for t in $demos; do
  b=${t%.rs}
  echo "-- demo $b WITHOUT patch (expect pass)"
  cargo nextest run --offline ${FEATURES:+--features $FEATURES} --test "$b" --no-fail-fast 2>&1 | grep -E "Summary|FAIL|SIGNAL|TIMEOUT|error(\[|:)" | sort | uniq -c | head -12
done
} 2>&1 | tee "$d/run.txt"
cd /
git -C /repo worktree remove --force "$wt" 2>/dev/null
rm -rf "$wt" "$tgt"
