#!/usr/bin/env python3
"""tools/mkmeta.py <name> <breaks> <needs>: write seeded/<name>/meta.json for a round-3 delivery
(after tools/confirm_seeded.sh wrote run.txt)."""
import json, sys, os, subprocess
name, breaks, needs = sys.argv[1:4]
d = os.path.join(os.path.dirname(os.path.dirname(os.path.abspath(__file__))), "seeded", name)
run = open(os.path.join(d, "run.txt")).read() if os.path.exists(os.path.join(d, "run.txt")) else ""
head = subprocess.run(["git", "-C", "/repo", "rev-parse", "--short", "HEAD"], capture_output=True, text=True).stdout.strip()
meta = {
    "property": name.split("-")[0],
    "breaks": breaks,
    "needs_to_manifest": needs,
    "author": "independent sub-agent (" + os.environ.get("ROUND", "third round") + ") given only the property text, the one-line descriptions of the earlier changes (to avoid repeats) and a scratch worktree",
    "base_commit": head,
    "demonstration": [f for f in sorted(os.listdir(d)) if f.endswith(".rs")],
    "confirmed": "tools/confirm_seeded.sh in a scratch worktree (see run.txt): existing suite with the patch 415 passed; demonstration fails with the patch and passes without it",
    "confirm_ok": ("415 passed" in run),
}
json.dump(meta, open(os.path.join(d, "meta.json"), "w"), indent=1, ensure_ascii=False)
print(name, "confirm_ok" if meta["confirm_ok"] else "CHECK run.txt")
