#!/bin/bash
# tools/ingest_delivery4.sh <PROP> <n>: copy /tmp/deliver4/<PROP>/ to seeded/<PROP>-<n>/ and confirm it
set -e
cd "$(dirname "$0")/.."
p=$1; n=$2
d=seeded/$p-$n
mkdir -p $d
cp /tmp/deliver4/$p/patch.diff $d/patch.diff
cp /tmp/deliver4/$p/demo.rs $d/demo_$n.rs
cp /tmp/deliver4/$p/meta.md $d/meta.md
tools/confirm_seeded.sh $d demo_$n.rs
