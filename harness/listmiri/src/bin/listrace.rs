//! C16 under Miri: short multi-threaded programs on two shared `roto::List`s, run by REAL
//! threads inside the Miri interpreter. Miri is the monitor for the memory half of the
//! property (data races on the list storage, reads through freed / relocated buffers,
//! deadlocks: all reported by Miri itself, whatever code path performs the access - no hook,
//! no annotation, no element callback is needed, so an access that takes no lock at all is
//! seen too); the recorded invocation / response history is checked for linearizability
//! against the shared-vector model (a small WGL search), and a per-instance ledger checks
//! that every element was dropped exactly once.
//!
//! usage: listrace <seed> <nconfigs> [key=value ...]
//!   elems=u64,string,trk   element kinds to draw from (default all three)
//!   threads=2|3            fixed thread count (default: drawn per configuration)
//!   selftest=model         break the model on purpose: the run must report a violation
//! Every configuration is drawn from (seed, index) alone, so `listrace <seed> 1 only=<i>`
//! replays configuration i. Miri's own scheduler is seeded by -Zmiri-seed / -Zmiri-many-seeds:
//! the same configuration meets different interleavings under different Miri seeds.
//! Output: one line `listrace seed S: C configurations, O operations, L search nodes,
//! I distinct interleavings, ...`; a line `MIRI-VIOLATION <sig> | <detail>` per violation.
//! Exit status 0 = no violation, 1 = at least one.

#[path = "../../../rvmon/src/rng.rs"]
#[allow(dead_code)]
mod rng;

use std::collections::{HashMap, HashSet};
use std::sync::atomic::{AtomicU64, Ordering};
use std::sync::{Arc, Barrier, Mutex};

use roto::{List, RotoString, Val, Value};

// ---------------------------------------------------------------------------------------
// element kinds

const LIVE: u64 = 0x11fe_c0de_a11c_e5ed;
const DEAD: u64 = 0xdead_dead_dead_dead;

struct Ledger {
    live: HashMap<u64, u64>,
    alarms: Vec<String>,
}

static LEDGER: Mutex<Option<Ledger>> = Mutex::new(None);
static NEXT_ID: AtomicU64 = AtomicU64::new(1);

fn with_ledger<R>(f: impl FnOnce(&mut Ledger) -> R) -> R {
    let mut g = LEDGER.lock().unwrap_or_else(|e| e.into_inner());
    f(g.get_or_insert_with(|| Ledger { live: HashMap::new(), alarms: Vec::new() }))
}

/// 24-byte drop-tracked element
#[derive(Debug)]
pub struct RTrk {
    id: u64,
    key: u64,
    canary: u64,
}

impl RTrk {
    fn new(key: u64) -> RTrk {
        let id = NEXT_ID.fetch_add(1, Ordering::Relaxed);
        with_ledger(|l| l.live.insert(id, key));
        RTrk { id, key, canary: LIVE }
    }
    fn check(&self, what: &str) {
        let (id, key, canary) = (self.id, self.key, self.canary);
        with_ledger(|l| {
            if canary != LIVE || !l.live.contains_key(&id) {
                l.alarms.push(format!("read-after-drop in {what}: instance {id} key {key} canary {canary:#x}"));
            }
        })
    }
}

impl Clone for RTrk {
    fn clone(&self) -> RTrk {
        self.check("clone");
        RTrk::new(self.key)
    }
}

impl Drop for RTrk {
    fn drop(&mut self) {
        let (id, key, canary) = (self.id, self.key, self.canary);
        with_ledger(|l| {
            if canary != LIVE || l.live.remove(&id).is_none() {
                let kind = if canary == DEAD { "double-drop" } else { "drop-of-unknown" };
                l.alarms.push(format!("{kind}: instance {id} key {key} canary {canary:#x}"));
            }
        });
        self.canary = DEAD;
    }
}

impl PartialEq for RTrk {
    fn eq(&self, o: &RTrk) -> bool {
        self.check("eq-lhs");
        o.check("eq-rhs");
        self.key == o.key
    }
}

trait RElem: Value<Transformed: PartialEq> + PartialEq + Clone + Send + Sync + 'static {
    fn make(key: u64) -> Self;
    fn key_of(&self) -> u64;
}

impl RElem for u64 {
    fn make(key: u64) -> u64 {
        key
    }
    fn key_of(&self) -> u64 {
        *self
    }
}

impl RElem for RotoString {
    fn make(key: u64) -> RotoString {
        // heap-backed: a clone through a stale address follows a dangling pointer
        RotoString::from(format!("element-{key}"))
    }
    fn key_of(&self) -> u64 {
        let s: &str = self.as_ref();
        s.strip_prefix("element-").and_then(|x| x.parse().ok()).unwrap_or(u64::MAX)
    }
}

impl RElem for Val<RTrk> {
    fn make(key: u64) -> Self {
        Val(RTrk::new(key))
    }
    fn key_of(&self) -> u64 {
        self.0.check("key_of");
        self.0.key
    }
}

// ---------------------------------------------------------------------------------------
// operations, results, model

#[derive(Clone, Copy, Debug, PartialEq, Eq, Hash)]
enum Op {
    Push(u8, u64),
    Get(u8, usize),
    Len(u8),
    IsEmpty(u8),
    Cap(u8),
    Swap(u8, usize, usize),
    Contains(u8, u64),
    Index(u8, u64),
    Concat(u8, u8),
    Eq(u8, u8),
    ToVec(u8),
    CloneDrop(u8),
    /// `for e in list.clone()`: a sequence of gets (each one atomic on its own)
    First2(u8),
}

impl Op {
    fn name(&self) -> &'static str {
        match self {
            Op::Push(..) => "push",
            Op::Get(..) => "get",
            Op::Len(..) => "len",
            Op::IsEmpty(..) => "is_empty",
            Op::Cap(..) => "capacity",
            Op::Swap(..) => "swap",
            Op::Contains(..) => "contains",
            Op::Index(..) => "index",
            Op::Concat(x, y) => {
                if x == y {
                    "concat(x,x)"
                } else {
                    "concat(x,y)"
                }
            }
            Op::Eq(x, y) => {
                if x == y {
                    "eq(x,x)"
                } else {
                    "eq(x,y)"
                }
            }
            Op::ToVec(..) => "to_vec",
            Op::CloneDrop(..) => "clone-drop",
            Op::First2(..) => "iterate",
        }
    }
}

#[derive(Clone, Debug, PartialEq, Eq)]
enum Res {
    Unit,
    Bool(bool),
    Num(usize),
    OptNum(Option<usize>),
    OptKey(Option<u64>),
    Keys(Vec<u64>),
    /// capacity: only `>= len at some moment` can be said; judged as "any"
    Any,
}

type Model = [Vec<u64>; 2];

/// pushed onto every concat result; no list element has this key
const CONCAT_MARK: u64 = 777_777;

/// atomic operations only (First2 is split into gets by the recorder)
fn model_apply(m: &mut Model, op: &Op, broken: bool) -> Res {
    match *op {
        Op::Push(x, v) => {
            m[x as usize].push(v);
            Res::Unit
        }
        Op::Get(x, i) => Res::OptKey(m[x as usize].get(i).copied()),
        Op::Len(x) => Res::Num(m[x as usize].len() + if broken { 1 } else { 0 }),
        Op::IsEmpty(x) => Res::Bool(m[x as usize].is_empty()),
        Op::Cap(_) => Res::Any,
        Op::Swap(x, i, j) => {
            let l = &mut m[x as usize];
            if i < l.len() && j < l.len() {
                l.swap(i, j);
            }
            Res::Unit
        }
        Op::Contains(x, v) => Res::Bool(m[x as usize].contains(&v)),
        Op::Index(x, v) => Res::OptNum(m[x as usize].iter().position(|e| *e == v)),
        Op::Concat(x, y) => {
            let mut r = m[x as usize].clone();
            r.extend_from_slice(&m[y as usize]);
            // the marker pushed onto the (new) result list
            r.push(CONCAT_MARK);
            Res::Keys(r)
        }
        Op::Eq(x, y) => Res::Bool(m[x as usize] == m[y as usize]),
        Op::ToVec(x) => Res::Keys(m[x as usize].clone()),
        Op::CloneDrop(_) => Res::Unit,
        Op::First2(_) => unreachable!(),
    }
}

#[derive(Clone, Debug)]
struct HOp {
    thread: usize,
    op: Op,
    inv: u64,
    ret: u64,
    res: Res,
}

/// WGL-style search: is there a total order of the operations that respects real time
/// (a before b if a returned before b was invoked) and explains every result?
/// Returns the number of search nodes visited, or the index of an operation no order explains.
fn linearize(h: &[HOp], init: &Model, broken: bool) -> Result<u64, usize> {
    fn rec(h: &[HOp], done: &mut Vec<bool>, m: &Model, left: usize, nodes: &mut u64, deepest: &mut (usize, usize), broken: bool) -> bool {
        if left == 0 {
            return true;
        }
        *nodes += 1;
        // minimal return time among the operations not yet linearized: an operation may come
        // next only if it was invoked before that moment
        let min_ret = h.iter().enumerate().filter(|(i, _)| !done[*i]).map(|(_, o)| o.ret).min().unwrap();
        for i in 0..h.len() {
            if done[i] || h[i].inv > min_ret {
                continue;
            }
            let mut m2 = m.clone();
            let r = model_apply(&mut m2, &h[i].op, broken);
            if r != Res::Any && r != h[i].res {
                let depth = h.len() - left;
                if depth >= deepest.0 {
                    *deepest = (depth, i);
                }
                continue;
            }
            done[i] = true;
            if rec(h, done, &m2, left - 1, nodes, deepest, broken) {
                return true;
            }
            done[i] = false;
        }
        false
    }
    let mut done = vec![false; h.len()];
    let mut nodes = 0;
    let mut deepest = (0, 0);
    if rec(h, &mut done, init, h.len(), &mut nodes, &mut deepest, broken) { Ok(nodes) } else { Err(deepest.1) }
}

// ---------------------------------------------------------------------------------------
// configurations

struct Config {
    kind: usize,
    init: [Vec<u64>; 2],
    progs: Vec<Vec<Op>>,
    /// list b is created before list a (the two lists are locked in address order)
    b_first: bool,
}

fn draw_config(rng: &mut rng::Rng, kinds: &[usize], threads: Option<usize>) -> Config {
    let kind = kinds[rng.usize(kinds.len())];
    // lengths next to the growth boundaries 0 -> 4 -> 8 (so that one push relocates, the next
    // does not), and short enough for the interpreter
    let lens = [0usize, 1, 3, 4, 7, 8];
    let mut next_key = 100u64;
    let mut init: [Vec<u64>; 2] = [Vec::new(), Vec::new()];
    for l in init.iter_mut() {
        let n = lens[rng.usize(lens.len())];
        for _ in 0..n {
            l.push(next_key);
            next_key += 1;
        }
    }
    // now and then both lists start with equal contents, so that == walks them to the end
    if rng.chance(1, 4) {
        init[1] = init[0].clone();
    }
    // half of the configurations aim at the two situations the property names: two operations
    // that each need both lists, issued with the operands in opposite order, and a reader of a
    // list whose next push relocates the storage
    let template = rng.usize(5);
    if template == 2 {
        // an operation that reads two lists against a thread that changes first one, then the
        // other: reading them in two critical sections yields a state the pair never had
        let (x, y) = if rng.bool() { (0u8, 1u8) } else { (1, 0) };
        let two = if rng.chance(2, 3) { Op::Concat(x, y) } else { Op::Eq(x, y) };
        let (p, q) = if rng.bool() { (x, y) } else { (y, x) };
        let mut progs = vec![vec![two], vec![Op::Push(p, 2000), Op::Push(q, 2001)]];
        if rng.chance(1, 3) {
            progs[0].push(Op::Concat(x, x));
            progs[1].push(Op::Push(x, 2002));
        }
        return Config { kind, init, progs, b_first: rng.bool() };
    }
    if template == 0 {
        let two = |rng: &mut rng::Rng, x: u8, y: u8| if rng.bool() { Op::Eq(x, y) } else { Op::Concat(x, y) };
        let mut progs = vec![Vec::new(), Vec::new()];
        for (t, p) in progs.iter_mut().enumerate() {
            let (x, y) = if t == 0 { (0, 1) } else { (1, 0) };
            for _ in 0..(1 + rng.usize(2)) {
                p.push(two(rng, x, y));
            }
            if rng.chance(1, 3) {
                p.insert(rng.usize(p.len() + 1), Op::Push(rng.usize(2) as u8, 1000 * (t as u64 + 1)));
            }
        }
        return Config { kind, init, progs, b_first: rng.bool() };
    }
    if template == 1 {
        // list x is full (length == capacity 4 or 8): the push moves the buffer
        let x = rng.usize(2);
        let n = if rng.bool() { 4 } else { 8 };
        init[x] = (0..n).map(|i| 500 + i as u64).collect();
        let y = 1 - x;
        let (x, y) = (x as u8, y as u8);
        let reader = |rng: &mut rng::Rng| match rng.usize(8) {
            0 => Op::Get(x, rng.usize(n)),
            1 => Op::Contains(x, 500 + rng.usize(n + 1) as u64),
            2 => Op::Index(x, 500 + rng.usize(n + 1) as u64),
            3 => Op::ToVec(x),
            4 => Op::Eq(x, y),
            5 => Op::Concat(y, x),
            6 => Op::Concat(x, x),
            _ => Op::First2(x),
        };
        let mut progs = vec![vec![Op::Push(x, 1000)], vec![reader(rng)]];
        if rng.bool() {
            progs[1].push(reader(rng));
        }
        if rng.chance(1, 3) {
            progs.push(vec![reader(rng)]);
        }
        if rng.chance(1, 3) {
            progs[0].push(Op::Swap(x, 0, n - 1));
        }
        return Config { kind, init, progs, b_first: rng.bool() };
    }
    let nthreads = threads.unwrap_or(if rng.chance(1, 3) { 3 } else { 2 });
    let nops = if nthreads == 3 { 2 } else { 3 };
    let mut progs = Vec::new();
    for t in 0..nthreads {
        let mut p = Vec::new();
        let mut counter = 0u64;
        for _ in 0..(1 + rng.usize(nops)) {
            let x = rng.usize(2) as u8;
            let y = rng.usize(2) as u8;
            let lx = init[x as usize].len();
            let some_key = |rng: &mut rng::Rng| -> u64 {
                match rng.usize(3) {
                    0 if lx > 0 => init[x as usize][rng.usize(lx)],
                    1 => 1000 * (1 + rng.usize(nthreads) as u64), // first key another thread may push
                    _ => 7,                                      // never present
                }
            };
            let idx = |rng: &mut rng::Rng| -> usize { [0, lx.saturating_sub(1), lx, lx + 1][rng.usize(4)] };
            let op = match rng.weighted(&[30, 18, 4, 2, 2, 8, 8, 6, 8, 8, 6, 4, 4]) {
                0 => {
                    counter += 1;
                    Op::Push(x, 1000 * (t as u64 + 1) + counter - 1)
                }
                1 => Op::Get(x, idx(rng)),
                2 => Op::Len(x),
                3 => Op::IsEmpty(x),
                4 => Op::Cap(x),
                5 => Op::Swap(x, idx(rng), idx(rng)),
                6 => Op::Contains(x, some_key(rng)),
                7 => Op::Index(x, some_key(rng)),
                8 => Op::Concat(x, y),
                9 => Op::Eq(x, y),
                10 => Op::ToVec(x),
                11 => Op::CloneDrop(x),
                _ => Op::First2(x),
            };
            p.push(op);
        }
        progs.push(p);
    }
    // at least one push somewhere, or nothing can race
    if !progs.iter().flatten().any(|o| matches!(o, Op::Push(..) | Op::Swap(..))) {
        progs[0].insert(0, Op::Push(0, 1000));
    }
    Config { kind, init, progs, b_first: rng.bool() }
}

/// the main thread, which reads the final contents after every worker finished
const OBSERVER: usize = 99;

static CLOCK: AtomicU64 = AtomicU64::new(0);

fn tick() -> u64 {
    CLOCK.fetch_add(1, Ordering::SeqCst)
}

fn exec<E: RElem>(lists: &[List<E>; 2], thread: usize, op: Op, out: &mut Vec<HOp>) {
    let mut rec = |op: Op, f: &mut dyn FnMut() -> Res| {
        let inv = tick();
        let res = f();
        let ret = tick();
        out.push(HOp { thread, op, inv, ret, res });
    };
    match op {
        Op::Push(x, v) => rec(op, &mut || {
            lists[x as usize].push(E::make(v));
            Res::Unit
        }),
        Op::Get(x, i) => rec(op, &mut || Res::OptKey(lists[x as usize].get(i).map(|e| e.key_of()))),
        Op::Len(x) => rec(op, &mut || Res::Num(lists[x as usize].len())),
        Op::IsEmpty(x) => rec(op, &mut || Res::Bool(lists[x as usize].is_empty())),
        Op::Cap(x) => rec(op, &mut || {
            let _ = lists[x as usize].capacity();
            Res::Any
        }),
        Op::Swap(x, i, j) => rec(op, &mut || {
            lists[x as usize].swap(i, j);
            Res::Unit
        }),
        Op::Contains(x, v) => rec(op, &mut || {
            let needle = E::make(v);
            Res::Bool(lists[x as usize].contains(&needle))
        }),
        Op::Index(x, v) => rec(op, &mut || {
            let needle = E::make(v);
            Res::OptNum(lists[x as usize].index(&needle))
        }),
        Op::Concat(x, y) => rec(op, &mut || {
            let r = lists[x as usize].concat(&lists[y as usize]);
            // "a new list": the marker must show up in the result and nowhere else
            r.push(E::make(CONCAT_MARK));
            Res::Keys(r.to_vec().iter().map(|e| e.key_of()).collect())
        }),
        Op::Eq(x, y) => rec(op, &mut || Res::Bool(lists[x as usize] == lists[y as usize])),
        Op::ToVec(x) => rec(op, &mut || Res::Keys(lists[x as usize].to_vec().iter().map(|e| e.key_of()).collect())),
        Op::CloneDrop(x) => rec(op, &mut || {
            let c = lists[x as usize].clone();
            let _ = c.len();
            drop(c);
            Res::Unit
        }),
        Op::First2(x) => {
            // the iterator holds a handle and fetches element 0, 1, .. with one get each
            let mut it = lists[x as usize].clone().into_iter();
            for i in 0..2 {
                let mut last = None;
                rec(Op::Get(x, i), &mut || {
                    last = it.next();
                    Res::OptKey(last.as_ref().map(|e| e.key_of()))
                });
                if last.is_none() {
                    break;
                }
            }
        }
    }
}

struct Outcome {
    ops: u64,
    nodes: u64,
    order_sig: u64,
    viol: Option<(String, String)>,
}

fn run_config<E: RElem>(cfg: &Config, broken: bool) -> Outcome {
    with_ledger(|l| {
        l.live.clear();
        l.alarms.clear();
    });
    CLOCK.store(0, Ordering::SeqCst);
    let mk = |keys: &Vec<u64>| -> List<E> {
        let l = List::new();
        for k in keys {
            l.push(E::make(*k));
        }
        l
    };
    let (a, b) = if cfg.b_first {
        let b = mk(&cfg.init[1]);
        (mk(&cfg.init[0]), b)
    } else {
        let a = mk(&cfg.init[0]);
        (a, mk(&cfg.init[1]))
    };
    let barrier = Arc::new(Barrier::new(cfg.progs.len()));
    let mut joins = Vec::new();
    for (t, prog) in cfg.progs.iter().enumerate() {
        let lists = [a.clone(), b.clone()];
        let prog = prog.clone();
        let barrier = barrier.clone();
        joins.push(std::thread::spawn(move || {
            let mut out = Vec::new();
            barrier.wait();
            for op in prog {
                exec::<E>(&lists, t, op, &mut out);
            }
            // the thread's handles are dropped here, concurrently with the other threads
            out
        }));
    }
    let mut hist: Vec<HOp> = Vec::new();
    for j in joins {
        match j.join() {
            Ok(h) => hist.extend(h),
            Err(_) => {
                return Outcome { ops: 0, nodes: 0, order_sig: 0, viol: Some(("panic@thread".into(), "a worker thread panicked".into())) };
            }
        }
    }
    // final contents, observed after every thread finished
    let lists = [a, b];
    let mut tail = Vec::new();
    exec::<E>(&lists, OBSERVER, Op::ToVec(0), &mut tail);
    exec::<E>(&lists, OBSERVER, Op::ToVec(1), &mut tail);
    hist.extend(tail);
    drop(lists);
    let ops = hist.len() as u64;
    // which interleaving was this? the order of invocations and responses
    hist.sort_by_key(|o| o.inv);
    let mut order_sig = 0xcbf2_9ce4_8422_2325u64;
    let mut evs: Vec<(u64, usize, bool)> = hist.iter().flat_map(|o| [(o.inv, o.thread, true), (o.ret, o.thread, false)]).collect();
    evs.sort();
    for (_, t, inv) in evs {
        order_sig = (order_sig ^ (t as u64 * 2 + inv as u64 + 1)).wrapping_mul(0x100_0000_01b3);
    }
    let viol = match linearize(&hist, &cfg.init, broken) {
        Err(i) => Some((
            format!("not-linearizable@{}", hist[i].op.name()),
            format!("no linearization explains {:?} -> {:?} of thread {}; history {:?}", hist[i].op, hist[i].res, hist[i].thread, hist),
        )),
        Ok(_) => None,
    };
    let nodes = linearize(&hist, &cfg.init, broken).unwrap_or(0);
    let (live, alarms) = with_ledger(|l| (l.live.len(), std::mem::take(&mut l.alarms)));
    let viol = viol.or_else(|| {
        if let Some(a) = alarms.first() {
            Some((format!("ledger:{}", a.split(':').next().unwrap_or("alarm").split(' ').next().unwrap_or("alarm")), a.clone()))
        } else if live != 0 {
            Some(("ledger:leak".into(), format!("{live} tracked elements still live after every list was dropped")))
        } else {
            None
        }
    });
    Outcome { ops, nodes, order_sig, viol }
}

const KINDS: [&str; 3] = ["u64", "string", "trk"];

fn main() {
    let argv: Vec<String> = std::env::args().collect();
    let seed: u64 = argv.get(1).and_then(|s| s.parse().ok()).unwrap_or(1);
    let n: u64 = argv.get(2).and_then(|s| s.parse().ok()).unwrap_or(8);
    let kv = |k: &str| argv.iter().skip(3).find_map(|a| a.strip_prefix(&format!("{k}=")).map(|v| v.to_string()));
    let sel = kv("elems").unwrap_or_else(|| "u64,string,trk".into());
    let kinds: Vec<usize> = (0..KINDS.len()).filter(|i| sel.split(',').any(|x| x == KINDS[*i])).collect();
    if kinds.is_empty() {
        eprintln!("no element kind selected (known: {})", KINDS.join(","));
        std::process::exit(2);
    }
    let threads: Option<usize> = kv("threads").and_then(|s| s.parse().ok());
    let only: Option<u64> = kv("only").and_then(|s| s.parse().ok());
    let broken = kv("selftest").as_deref() == Some("model");
    let (mut configs, mut ops, mut nodes, mut bad) = (0u64, 0u64, 0u64, 0u64);
    let mut orders = HashSet::new();
    let mut shapes = HashSet::new();
    for i in 0..n {
        let i = only.unwrap_or(i);
        let mut rng = rng::Rng::for_case(seed, "listrace", i);
        let cfg = draw_config(&mut rng, &kinds, threads);
        let out = match cfg.kind {
            0 => run_config::<u64>(&cfg, broken),
            1 => run_config::<RotoString>(&cfg, broken),
            _ => run_config::<Val<RTrk>>(&cfg, broken),
        };
        configs += 1;
        ops += out.ops;
        nodes += out.nodes;
        orders.insert((i, out.order_sig));
        for p in &cfg.progs {
            for o in p {
                shapes.insert((cfg.kind, o.name()));
            }
        }
        if let Some((sig, detail)) = out.viol {
            bad += 1;
            println!(
                "MIRI-VIOLATION {sig}@{} | config {i} of seed {seed}: init {:?} b_first {} programs {:?} | {detail}",
                KINDS[cfg.kind], cfg.init, cfg.b_first, cfg.progs
            );
        }
        if only.is_some() {
            break;
        }
    }
    // which interleaving each configuration met in this execution (the driver takes the union
    // over all processes and Miri seeds)
    let mut ol: Vec<String> = orders.iter().map(|(i, h)| format!("{i}:{h:016x}")).collect();
    ol.sort();
    println!("observed interleavings {}", ol.join(" "));
    println!(
        "listrace seed {seed}: {configs} configurations, {ops} operations, {nodes} search nodes of the linearizability checker, {} distinct interleavings, {} (kind, operation) shapes, {bad} violations",
        orders.len(),
        shapes.len()
    );
    std::process::exit(if bad > 0 { 1 } else { 0 });
}
