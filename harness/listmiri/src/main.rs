//! C15 driver 1 (Rust `roto::List` API against the shared-vector model) as a
//! stand-alone program that Miri can interpret.
//!
//! usage: listmiri <seed> <nops> [elems|all] [key=value ...]
//!   elems: comma separated subset of u64,trk,u8,string,list<u8>,trkz,option<u32>
//!   mode=guard   (default) operations run on a helper thread; one that makes no progress
//!                for hang-ms (default 20000) is reported as MIRI-VIOLATION hang:... and
//!                operations of that shape are skipped for the rest of the process
//!   mode=direct  no helper thread, no clock: Miri's own deadlock detector reports a
//!                blocked operation (and ends the process)
//!   skip=a;b     operation shapes not to execute (e.g. skip=hang:List::eq@distinct-objects)
//!   maxb=64      largest growth boundary the random sequences start at (<= 256)
//! Exit status 0 = no violation; 1 = at least one line `MIRI-VIOLATION ...` was printed.
//! (Undefined behaviour found by Miri itself terminates the process with Miri's report.)

#[path = "../../rvmon/src/rng.rs"]
#[allow(dead_code)]
mod rng;

#[path = "../../rvmon/src/fam/listcore.rs"]
#[allow(dead_code)]
mod listcore;

use std::collections::HashMap;
use std::sync::atomic::{AtomicI64, AtomicU64, Ordering};
use std::sync::{Arc, Mutex};
use std::time::Duration;

use listcore::{Elem, ExecCfg, ExhaustiveSrc, HangState, OneSrc, Report, RustApi, SeqSource, Worker};
use roto::{List, RotoString, Val};

// --- drop-tracked element types (own ledger: crate::host of rvmon needs the JIT crate) ---

const LIVE: u64 = 0x11fe_c0de_a11c_e5ed;
const DEAD: u64 = 0xdead_dead_dead_dead;

struct Ledger {
    live: HashMap<u64, i64>,
    alarms: Vec<(String, String)>,
}

static LEDGER: Mutex<Option<Ledger>> = Mutex::new(None);
static NEXT_ID: AtomicU64 = AtomicU64::new(1);
static Z_LIVE: AtomicI64 = AtomicI64::new(0);

fn with_ledger<R>(f: impl FnOnce(&mut Ledger) -> R) -> R {
    let mut g = LEDGER.lock().unwrap_or_else(|e| e.into_inner());
    f(g.get_or_insert_with(|| Ledger { live: HashMap::new(), alarms: Vec::new() }))
}

/// 24-byte tracked value
#[derive(Debug)]
pub struct MTrk {
    id: u64,
    tag: i64,
    canary: u64,
}

impl MTrk {
    fn new(tag: i64) -> MTrk {
        let id = NEXT_ID.fetch_add(1, Ordering::Relaxed);
        with_ledger(|l| l.live.insert(id, tag));
        MTrk { id, tag, canary: LIVE }
    }
    fn check(&self, what: &str) -> bool {
        let (id, tag, canary) = (self.id, self.tag, self.canary);
        with_ledger(|l| {
            if canary != LIVE || !l.live.contains_key(&id) {
                l.alarms.push(("read-after-drop".into(), format!("{what}: instance {id} tag {tag} canary {canary:#x}")));
                false
            } else {
                true
            }
        })
    }
}

impl Clone for MTrk {
    fn clone(&self) -> MTrk {
        self.check("clone");
        MTrk::new(self.tag)
    }
}

impl Drop for MTrk {
    fn drop(&mut self) {
        let (id, tag, canary) = (self.id, self.tag, self.canary);
        with_ledger(|l| {
            if canary != LIVE || l.live.remove(&id).is_none() {
                let kind = if canary == DEAD { "double-drop" } else { "drop-of-unknown" };
                l.alarms.push((kind.into(), format!("instance {id} tag {tag} canary {canary:#x}")));
            }
        });
        self.canary = DEAD;
    }
}

impl PartialEq for MTrk {
    fn eq(&self, o: &MTrk) -> bool {
        self.check("eq-lhs");
        o.check("eq-rhs");
        self.tag == o.tag
    }
}

/// zero-sized tracked value
#[derive(Debug)]
pub struct MTrkZ;

impl Clone for MTrkZ {
    fn clone(&self) -> MTrkZ {
        Z_LIVE.fetch_add(1, Ordering::SeqCst);
        MTrkZ
    }
}

impl Drop for MTrkZ {
    fn drop(&mut self) {
        Z_LIVE.fetch_sub(1, Ordering::SeqCst);
    }
}

impl PartialEq for MTrkZ {
    fn eq(&self, _: &MTrkZ) -> bool {
        true
    }
}

impl Elem for Val<MTrk> {
    const NAME: &'static str = "trk";
    fn make(key: u64) -> Self {
        Val(MTrk::new(key as i64))
    }
    fn canon(key: u64) -> u64 {
        key
    }
    fn key_of(&self) -> u64 {
        if self.check("list-element") { self.tag as u64 } else { u64::MAX }
    }
    fn debug_norm(s: &str) -> String {
        let mut out = String::new();
        let mut rest = s;
        while let Some(p) = rest.find("id: ") {
            out.push_str(&rest[..p + 4]);
            out.push('_');
            rest = rest[p + 4..].trim_start_matches(|c: char| c.is_ascii_digit());
        }
        out.push_str(rest);
        out
    }
    fn ledger_reset() {
        with_ledger(|l| {
            l.live.clear();
            l.alarms.clear();
        });
    }
    fn ledger_probe() -> Option<(i64, Vec<(String, String)>)> {
        Some(with_ledger(|l| (l.live.len() as i64, std::mem::take(&mut l.alarms))))
    }
}

impl Elem for Val<MTrkZ> {
    const NAME: &'static str = "trkz";
    fn make(_key: u64) -> Self {
        Z_LIVE.fetch_add(1, Ordering::SeqCst);
        Val(MTrkZ)
    }
    fn canon(_key: u64) -> u64 {
        0
    }
    fn key_of(&self) -> u64 {
        0
    }
    fn ledger_reset() {
        Z_LIVE.store(0, Ordering::SeqCst);
    }
    fn ledger_probe() -> Option<(i64, Vec<(String, String)>)> {
        Some((Z_LIVE.load(Ordering::SeqCst), Vec::new()))
    }
}

const ELEMS: [&str; 7] = ["u64", "trk", "u8", "string", "list<u8>", "trkz", "option<u32>"];

struct Run {
    worker: Option<Worker<()>>,
    hs: HangState,
    timeout: Duration,
    total: Report,
    direct: bool,
}

impl Run {
    fn block<E: Elem>(&mut self, src: Arc<dyn SeqSource>) {
        let cfg = ExecCfg { ledger_every_op: true, max_len: 600 };
        if self.direct {
            let rep = listcore::run_inline::<E, RustApi>(&mut RustApi::default(), &self.hs, src.as_ref(), cfg);
            self.total.merge(rep);
            return;
        }
        let rep = listcore::run_block::<E, (), RustApi>(
            self.worker.get_or_insert_with(|| Worker::spawn(|| ())),
            &|| Worker::spawn(|| ()),
            &mut self.hs,
            self.timeout,
            src,
            cfg,
            Arc::new(|_: &mut (), _| RustApi::default()),
        );
        self.total.merge(rep);
    }

    fn elem(&mut self, e: usize, src: Arc<dyn SeqSource>) {
        match e {
            0 => self.block::<u64>(src),
            1 => self.block::<Val<MTrk>>(src),
            2 => self.block::<u8>(src),
            3 => self.block::<RotoString>(src),
            4 => self.block::<List<u8>>(src),
            5 => self.block::<Val<MTrkZ>>(src),
            _ => self.block::<Option<u32>>(src),
        }
    }
}

fn main() {
    let argv: Vec<String> = std::env::args().collect();
    let seed: u64 = argv.get(1).and_then(|s| s.parse().ok()).unwrap_or(1);
    let nops: u64 = argv.get(2).and_then(|s| s.parse().ok()).unwrap_or(300);
    let sel = argv.get(3).map(|s| s.as_str()).unwrap_or("all");
    let kv = |k: &str| argv.iter().skip(3).find_map(|a| a.strip_prefix(&format!("{k}=")).map(|v| v.to_string()));
    let hang_ms: u64 = kv("hang-ms").and_then(|s| s.parse().ok()).unwrap_or(20_000);
    let direct = kv("mode").as_deref() == Some("direct");
    let maxb: u16 = kv("maxb").and_then(|s| s.parse().ok()).unwrap_or(64);
    let sel = if sel.contains('=') { "all" } else { sel };
    let elems: Vec<usize> = (0..ELEMS.len()).filter(|i| sel == "all" || sel.split(',').any(|x| x == ELEMS[*i])).collect();
    if elems.is_empty() {
        eprintln!("no element type selected (known: {})", ELEMS.join(","));
        std::process::exit(2);
    }
    listcore::install_panic_hook();
    let mut run = Run { worker: None, hs: HangState::default(), timeout: Duration::from_millis(hang_ms), total: Report::default(), direct };
    if let Some(sk) = kv("skip") {
        run.hs.hung.extend(sk.split(';').filter(|x| !x.is_empty()).map(|x| x.to_string()));
    }
    let alpha = listcore::alphabet(2);
    let per_init = listcore::n_seqs(alpha.len() as u64, 3);
    let mut rng = rng::Rng::for_case(seed, "listmiri", 0);
    let mut round = 0u64;
    // alternate: a slice of 24 consecutive short sequences of the exhaustive enumeration
    // (random offset) and one random long sequence, element types round-robin
    while run.total.ops < nops {
        let e = elems[(round % elems.len() as u64) as usize];
        if round % 2 == 0 {
            let lo = rng.below(per_init * listcore::N_INITS - 24);
            run.elem(e, Arc::new(ExhaustiveSrc { alpha: alpha.clone(), per_init, lo, hi: lo + 24 }));
        } else {
            let left = (nops.saturating_sub(run.total.ops)).clamp(10, 200) as usize;
            let ops = listcore::random_ops(&mut rng, 3, left, false, maxb);
            run.elem(e, Arc::new(OneSrc { nh: 3, ops }));
        }
        round += 1;
        if round > 100_000 {
            break;
        }
    }
    let t = &run.total;
    println!(
        "listmiri seed {seed}: {} sequences, {} operations, {} comparisons, {} skipped ({} known-hang), elems [{}], tags {}",
        t.seqs,
        t.ops,
        t.checks,
        t.skipped_ops,
        t.hang_skips,
        elems.iter().map(|e| ELEMS[*e]).collect::<Vec<_>>().join(","),
        t.tags.len()
    );
    let mut bad = false;
    for v in &t.viols {
        bad = true;
        println!("MIRI-VIOLATION {} | x{} | {} | {}", v.sig, v.count, v.msg, v.seq);
    }
    for (p, seq) in &t.panics {
        bad = true;
        println!("MIRI-VIOLATION panic@{} | {}", p, seq);
    }
    // stuck helper threads are never joined: leave without running destructors
    std::process::exit(if bad { 1 } else { 0 });
}
