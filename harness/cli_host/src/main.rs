//! CLI generated from a host runtime (`Runtime::cli()`), as an embedding application
//! would ship it. The only host function is `mark(k: u32)`, which appends "k\n" to the
//! file named by the environment variable RVMON_MARK_FILE, so that a supervising
//! process can count how often script code ran.

use std::io::Write;
use std::process::ExitCode;

use roto::{Runtime, library};

fn mark_impl(k: u32) {
    let Ok(path) = std::env::var("RVMON_MARK_FILE") else { return };
    if let Ok(mut f) = std::fs::OpenOptions::new().create(true).append(true).open(path) {
        let _ = writeln!(f, "{k}");
    }
}

fn main() -> ExitCode {
    let mut rt = Runtime::new();
    rt.add_io_functions();
    rt.add(library! {
        /// Log the marker `k`
        fn mark(k: u32) {
            mark_impl(k);
        }
    })
    .expect("mark registers");
    rt.cli()
}
