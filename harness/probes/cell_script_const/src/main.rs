//! Probe: a registered type that is `Send` but not `Sync` (its `Clone` goes through a
//! `Cell`) as the type of a *script constant*. A script constant is evaluated once and
//! every read clones it through a shared reference, on whichever thread calls the
//! handle: if this compiles, the clones race.
use std::cell::Cell;
use roto::{library, FileTree, Runtime, Val};

struct Ticket(Cell<u64>);

impl Clone for Ticket {
    fn clone(&self) -> Self {
        // every clone takes the next number from the original
        let n = self.0.get();
        if n % 64 == 0 {
            std::thread::yield_now();
        }
        self.0.set(n + 1);
        Ticket(Cell::new(n + 1))
    }
}

impl PartialEq for Ticket {
    fn eq(&self, other: &Self) -> bool {
        self.0.get() == other.0.get()
    }
}

fn main() {
    let lib = library! {
        /// hands out numbers
        #[clone] type Ticket = Val<Ticket>;
        impl Val<Ticket> {
            fn new() -> Val<Ticket> { Val(Ticket(Cell::new(0))) }
            fn number(self) -> u64 { self.0.0.get() }
        }
    };
    let rt = Runtime::from_lib(lib).unwrap();
    let src = "const DISPENSER: Ticket = Ticket.new();\nfn next() -> u64 { DISPENSER.number() }\n";
    let mut pkg = FileTree::test_file("p.roto", src, 0).compile(&rt).unwrap();
    let f = pkg.get_function::<fn() -> u64>("next").unwrap();
    let threads = 4;
    let per = 100_000u64;
    let hs: Vec<_> = (0..threads)
        .map(|_| {
            let f = f.clone();
            std::thread::spawn(move || {
                let mut last = 0;
                for _ in 0..per {
                    last = f.call();
                }
                last
            })
        })
        .collect();
    for h in hs {
        h.join().unwrap();
    }
    // every call cloned the constant once: the next number is calls + 1
    let total = f.call() - 1;
    let expected = threads as u64 * per;
    if total != expected {
        println!("RACE observed={total} expected={expected}");
        std::process::exit(1);
    }
    println!("NO-RACE observed={total}");
}
