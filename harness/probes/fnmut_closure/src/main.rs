//! Probe: can safe Rust register a closure that MUTATES captured state (an `FnMut`)?
//! The handle calls the registered function through one shared pointer from every
//! thread, so this must not compile; if it does, it is run and lost updates are counted.
use roto::{library, FileTree, Runtime};

fn main() {
    let mut total = 0u64;
    let lib = library! {
        let add = move |x: u64| -> u64 {
            total += x;
            total
        };
    };
    let rt = Runtime::from_lib(lib).unwrap();
    let mut pkg = FileTree::test_file("p.roto", "fn f(x: u64) -> u64 { add(x) }", 0).compile(&rt).unwrap();
    let f = pkg.get_function::<fn(u64) -> u64>("f").unwrap();
    let threads = 4;
    let per = 200_000u64;
    let hs: Vec<_> = (0..threads)
        .map(|_| {
            let f = f.clone();
            std::thread::spawn(move || {
                for _ in 0..per {
                    f.call(1);
                }
            })
        })
        .collect();
    for h in hs {
        h.join().unwrap();
    }
    let total = f.call(0);
    let expected = threads as u64 * per;
    if total != expected {
        println!("RACE observed={total} expected={expected}");
        std::process::exit(1);
    }
    println!("NO-RACE observed={total}");
}
