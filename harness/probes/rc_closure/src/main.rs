//! Probe: a closure capturing an `Rc` (neither Send nor Sync) must not be registerable.
use std::rc::Rc;
use roto::{library, Runtime};

fn main() {
    let shared = Rc::new(5u64);
    let lib = library! {
        let peek = move || -> u64 { *shared };
    };
    let _rt = Runtime::from_lib(lib).unwrap();
    println!("NO-RACE (compiled)");
}
