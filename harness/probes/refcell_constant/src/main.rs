//! Probe: a registered constant of a `!Sync` type (RefCell inside) would be shared
//! by every thread that calls a function reading it.
use std::cell::RefCell;
use roto::{library, Runtime, Val};

#[derive(Clone, PartialEq)]
struct Shared(RefCell<u64>);

fn main() {
    let lib = library! {
        /// a type with interior mutability
        #[clone] type Shared = Val<Shared>;
        const S: Val<Shared> = Val(Shared(RefCell::new(0)));
    };
    let _rt = Runtime::from_lib(lib).unwrap();
    println!("NO-RACE (compiled)");
}
