//! Probe: a registered type with a `Cell` inside, used as argument of a function
//! handle that is shared between threads.
use std::cell::Cell;
use roto::{library, FileTree, Runtime, Val};

#[derive(Clone, PartialEq)]
struct Counter(Cell<u64>);

fn main() {
    let lib = library! {
        /// a type with interior mutability
        #[clone] type Counter = Val<Counter>;
        fn bump(c: Val<Counter>) -> u64 { c.0.0.set(c.0.0.get() + 1); c.0.0.get() }
    };
    let rt = Runtime::from_lib(lib).unwrap();
    let mut pkg = FileTree::test_file("p.roto", "fn f(c: Counter) -> u64 { bump(c) }", 0).compile(&rt).unwrap();
    let _f = pkg.get_function::<fn(Val<Counter>) -> u64>("f").unwrap();
    println!("NO-RACE (compiled)");
}
