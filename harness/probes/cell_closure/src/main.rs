//! Probe: can safe Rust register a closure that captures `!Sync` state and have it
//! called from several threads at once? If this compiles, it is run and lost
//! updates are counted.
use std::cell::Cell;
use roto::{library, FileTree, Runtime};

fn main() {
    let counter = Cell::new(0u64);
    let lib = library! {
        let bump = move || -> u64 {
            counter.set(counter.get() + 1);
            counter.get()
        };
    };
    let rt = Runtime::from_lib(lib).unwrap();
    let mut pkg = FileTree::test_file("p.roto", "fn f() -> u64 { bump() }", 0).compile(&rt).unwrap();
    let f = pkg.get_function::<fn() -> u64>("f").unwrap();
    let threads = 4;
    let per = 100_000u64;
    let hs: Vec<_> = (0..threads)
        .map(|_| {
            let f = f.clone();
            std::thread::spawn(move || {
                let mut last = 0;
                for _ in 0..per {
                    last = f.call();
                }
                last
            })
        })
        .collect();
    for h in hs {
        h.join().unwrap();
    }
    let total = f.call() - 1;
    let expected = threads as u64 * per;
    if total != expected {
        println!("RACE observed={total} expected={expected}");
        std::process::exit(1);
    }
    println!("NO-RACE observed={total}");
}
