//! Reference interpreter over rotogen's AST. Deliberately naive: no sharing of
//! code with roto, i128 arithmetic wrapped to the declared width, IEEE floats at
//! their own width, value semantics for everything but lists.

use std::collections::HashMap;

use super::ast::*;
use crate::conv;
use crate::val::{Ev, IntTy, V};

#[derive(Debug, Clone)]
pub enum Stop {
    /// the program would trap (division by zero, MIN / -1): C10's business
    Trap(String),
    /// step budget exhausted
    Fuel,
    /// behaviour not defined by the documentation; case must be skipped
    Unspecified(String),
}

enum Ctl {
    Return(V),
    Stop(Stop),
}

type R<T> = Result<T, Ctl>;

pub struct Interp<'p> {
    pub prog: &'p Program,
    pub input: Vec<u64>,
    pub log: Vec<Ev>,
    pub fuel: u64,
    pub consts: HashMap<String, V>,
    scopes: Vec<HashMap<String, V>>,
    depth: u32,
    pub max_depth: u32,
    /// statistics for coverage / ledger expectations
    pub trk_created: u64,
}

pub struct Outcome {
    pub result: Result<V, Stop>,
    pub log: Vec<Ev>,
}

pub fn lit_value(l: &Lit, ty: &Ty) -> V {
    match l {
        Lit::Unit => V::Unit,
        Lit::Bool(b) => V::Bool(*b),
        Lit::Char(c) => V::Char(*c),
        Lit::Str(s) => V::Str(s.clone()),
        Lit::Int { v, .. } => match ty {
            Ty::Int(t) => V::Int(*t, *v),
            _ => panic!("int literal with type {ty:?}"),
        },
        Lit::Float { text, .. } => {
            let clean: String = text.chars().filter(|c| *c != '_').collect();
            let f: f64 = clean.parse().expect("float literal text");
            match ty {
                // roto parses every float literal as f64 first; a f32 literal is
                // the f64 value rounded to f32. The two roundings differ only for
                // a vanishing fraction of spellings; the generator avoids them.
                Ty::F32 => V::F32(f as f32),
                _ => V::F64(f),
            }
        }
    }
}

pub fn fmt_to_string(v: &V) -> Option<String> {
    Some(match v {
        V::Bool(b) => format!("{b}"),
        V::Char(c) => format!("{c}"),
        V::Int(_, x) => format!("{x}"),
        V::F32(x) => format!("{x}"),
        V::F64(x) => format!("{x}"),
        V::Str(s) => s.clone(),
        V::Trk(t) => format!("T{t}"),
        _ => return None,
    })
}

impl<'p> Interp<'p> {
    pub fn new(prog: &'p Program, input: &[u64], fuel: u64) -> Self {
        Interp {
            prog,
            input: input.to_vec(),
            log: Vec::new(),
            fuel,
            // the registered constants of the harness runtime are visible in every program
            consts: crate::host::host_consts().into_iter().map(|(n, _, v)| (n.to_string(), v)).collect(),
            scopes: Vec::new(),
            depth: 0,
            max_depth: 200,
            trk_created: 0,
        }
    }

    /// Evaluate constants in the given order (caller supplies a valid order).
    pub fn eval_consts(&mut self, order: &[usize]) -> Result<(), Stop> {
        for &i in order {
            let c = &self.prog.consts[i];
            let saved = std::mem::take(&mut self.scopes);
            self.scopes.push(HashMap::new());
            let r = self.expr(&c.init);
            self.scopes = saved;
            match r {
                Ok(v) => {
                    self.consts.insert(c.name.clone(), v);
                }
                Err(Ctl::Return(_)) => return Err(Stop::Unspecified("return in const".into())),
                Err(Ctl::Stop(s)) => return Err(s),
            }
        }
        Ok(())
    }

    pub fn call_fn(&mut self, idx: usize, args: Vec<V>) -> Result<V, Stop> {
        match self.call(idx, args) {
            Ok(v) => Ok(v),
            Err(Ctl::Return(v)) => Ok(v),
            Err(Ctl::Stop(s)) => Err(s),
        }
    }

    fn tick(&mut self) -> R<()> {
        if self.fuel == 0 {
            return Err(Ctl::Stop(Stop::Fuel));
        }
        self.fuel -= 1;
        Ok(())
    }

    fn call(&mut self, idx: usize, args: Vec<V>) -> R<V> {
        self.tick()?;
        let f = &self.prog.fns[idx];
        if self.depth >= self.max_depth {
            return Err(Ctl::Stop(Stop::Fuel));
        }
        self.depth += 1;
        let saved = std::mem::take(&mut self.scopes);
        let mut sc = HashMap::new();
        for ((n, _), v) in f.params.iter().zip(args) {
            sc.insert(n.clone(), v);
        }
        self.scopes.push(sc);
        let r = self.block_inner(&f.body);
        self.scopes = saved;
        self.depth -= 1;
        match r {
            Ok(v) => Ok(v),
            Err(Ctl::Return(v)) => Ok(v),
            Err(e) => Err(e),
        }
    }

    fn lookup(&self, name: &str) -> V {
        for s in self.scopes.iter().rev() {
            if let Some(v) = s.get(name) {
                return v.clone();
            }
        }
        if let Some(v) = self.consts.get(name) {
            return v.clone();
        }
        panic!("rotogen bug: unbound variable {name}");
    }

    fn lookup_mut(&mut self, name: &str) -> &mut V {
        for s in self.scopes.iter_mut().rev() {
            if let Some(v) = s.get_mut(name) {
                return v;
            }
        }
        panic!("rotogen bug: unbound variable {name} (assignment)");
    }

    fn block(&mut self, b: &Block) -> R<V> {
        self.scopes.push(HashMap::new());
        let r = self.block_inner(b);
        self.scopes.pop();
        r
    }

    fn block_inner(&mut self, b: &Block) -> R<V> {
        for s in &b.stmts {
            match s {
                Stmt::Let(n, _, e) => {
                    let v = self.expr(e)?;
                    self.scopes.last_mut().unwrap().insert(n.clone(), v);
                }
                Stmt::Expr(e) => {
                    self.expr(e)?;
                }
            }
        }
        match &b.tail {
            Some(t) => self.expr(t),
            None => Ok(V::Unit),
        }
    }

    fn field_of(v: &V, f: &str) -> V {
        match v {
            V::Rec(fs) => fs.iter().find(|(n, _)| n == f).map(|(_, v)| v.clone()).expect("field"),
            _ => panic!("rotogen bug: field access on {v:?}"),
        }
    }

    fn place_mut<'a>(&'a mut self, p: &Place) -> &'a mut V {
        let mut cur = self.lookup_mut(&p.root);
        for f in &p.fields {
            cur = match cur {
                V::Rec(fs) => &mut fs.iter_mut().find(|(n, _)| n == f).expect("field").1,
                _ => panic!("rotogen bug: field write on non-record"),
            };
        }
        cur
    }

    fn host_in(&mut self, name: &str, k: u32) -> V {
        let w = conv::word_at(&self.input, k);
        match name {
            "in_u8" => conv::int_v(IntTy::U8, w),
            "in_u16" => conv::int_v(IntTy::U16, w),
            "in_u32" => conv::int_v(IntTy::U32, w),
            "in_u64" => conv::int_v(IntTy::U64, w),
            "in_i8" => conv::int_v(IntTy::I8, w),
            "in_i16" => conv::int_v(IntTy::I16, w),
            "in_i32" => conv::int_v(IntTy::I32, w),
            "in_i64" => conv::int_v(IntTy::I64, w),
            "in_cap_i64" => V::Int(IntTy::I64, ((conv::int_of(IntTy::I64, w) as i64) ^ (crate::host::cap_mix() as i64)) as i128),
            "in_cap_u32" => V::Int(IntTy::U32, ((conv::int_of(IntTy::U32, w) as u32) ^ (crate::host::cap_mix() as u32)) as i128),
            "in_f32" => V::F32(conv::f32_of(w)),
            "in_f64" => V::F64(conv::f64_of(w)),
            "in_bool" => V::Bool(conv::bool_of(w)),
            "in_char" => V::Char(conv::char_of(w)),
            "in_str" => V::Str(conv::str_of(w)),
            "in_opt_i32" => {
                if w & 1 == 1 {
                    V::Opt(Some(Box::new(conv::int_v(IntTy::I32, w >> 1))))
                } else {
                    V::Opt(None)
                }
            }
            "in_opt_trk" => {
                if w & 1 == 1 {
                    self.trk_created += 1;
                    V::Opt(Some(Box::new(V::Trk((w >> 1) as i64 & 0xffff))))
                } else {
                    V::Opt(None)
                }
            }
            "in_opt_str" => {
                if w & 1 == 1 {
                    V::Opt(Some(Box::new(V::Str(conv::str_of(w >> 1)))))
                } else {
                    V::Opt(None)
                }
            }
            _ => panic!("rotogen bug: unknown input function {name}"),
        }
    }

    fn host(&mut self, name: &str, args: Vec<V>) -> R<V> {
        if name.starts_with("in_") {
            let V::Int(_, k) = args[0] else { panic!() };
            self.log.push(Ev::new(name, args.clone()));
            return Ok(self.host_in(name, k as u32));
        }
        match name {
            "mk" => {
                self.log.push(Ev::new(name, args.clone()));
                let V::Int(_, t) = args[0] else { panic!() };
                self.trk_created += 1;
                Ok(V::Trk(t as i64))
            }
            "mkz" => {
                self.log.push(Ev::new(name, vec![]));
                Ok(V::TrkZ)
            }
            "trk_tag" => {
                self.log.push(Ev::new(name, args.clone()));
                let V::Trk(t) = args[0] else { panic!() };
                Ok(V::Int(IntTy::I64, t as i128))
            }
            n if n.starts_with("out_") => {
                let snap: Vec<V> = args.iter().map(|a| a.snapshot()).collect();
                self.log.push(Ev::new(name, snap));
                Ok(V::Unit)
            }
            _ => panic!("rotogen bug: unknown host function {name}"),
        }
    }

    fn method(&mut self, recv: V, recv_ty: &Ty, name: &str, args: Vec<V>) -> R<V> {
        match (recv_ty, name) {
            (Ty::Trk, "tag") => {
                let V::Trk(t) = recv else { panic!() };
                self.log.push(Ev::new("Trk.tag", vec![V::Trk(t)]));
                Ok(V::Int(IntTy::I64, t as i128))
            }
            (Ty::Trk, "join") => {
                let (V::Trk(a), V::Trk(b)) = (&recv, &args[0]) else { panic!() };
                self.log.push(Ev::new("Trk.join", vec![V::Trk(*a), V::Trk(*b)]));
                self.trk_created += 1;
                Ok(V::Trk(a.wrapping_mul(31).wrapping_add(*b)))
            }
            (Ty::List(_), _) => {
                let V::List(l) = &recv else { panic!() };
                match name {
                    "push" => {
                        l.borrow_mut().push(args[0].clone());
                        Ok(V::Unit)
                    }
                    "len" => Ok(V::Int(IntTy::U64, l.borrow().len() as i128)),
                    "is_empty" => Ok(V::Bool(l.borrow().is_empty())),
                    "get" => {
                        let V::Int(_, i) = args[0] else { panic!() };
                        let b = l.borrow();
                        Ok(V::Opt(b.get(i as usize).filter(|_| i >= 0).map(|x| Box::new(x.clone()))))
                    }
                    "swap" => {
                        let (V::Int(_, i), V::Int(_, j)) = (&args[0], &args[1]) else { panic!() };
                        let mut b = l.borrow_mut();
                        let n = b.len() as i128;
                        if *i < n && *j < n {
                            b.swap(*i as usize, *j as usize);
                        }
                        Ok(V::Unit)
                    }
                    "contains" | "index" if args[0].contains_nan() || recv.contains_nan() => {
                        Err(Ctl::Stop(Stop::Unspecified("list search with NaN".into())))
                    }
                    "contains" => Ok(V::Bool(l.borrow().iter().any(|x| x.lang_eq(&args[0])))),
                    "index" => {
                        let p = l.borrow().iter().position(|x| x.lang_eq(&args[0]));
                        Ok(V::Opt(p.map(|i| Box::new(V::Int(IntTy::U64, i as i128)))))
                    }
                    "concat" => {
                        let V::List(o) = &args[0] else { panic!() };
                        let mut v: Vec<V> = l.borrow().clone();
                        v.extend(o.borrow().iter().cloned());
                        if v.len() > 4096 {
                            return Err(Ctl::Stop(Stop::Fuel));
                        }
                        Ok(V::list(v))
                    }
                    "join" => {
                        let V::Str(sep) = &args[0] else { panic!() };
                        let parts: Vec<String> = l
                            .borrow()
                            .iter()
                            .map(|x| match x {
                                V::Str(s) => s.clone(),
                                _ => panic!(),
                            })
                            .collect();
                        Ok(V::Str(parts.join(sep)))
                    }
                    _ => panic!("rotogen bug: list method {name}"),
                }
            }
            (Ty::Str, _) => {
                let V::Str(s) = &recv else { panic!() };
                match name {
                    "len_bytes" => Ok(V::Int(IntTy::U64, s.len() as i128)),
                    "to_uppercase" => Ok(V::Str(s.to_uppercase())),
                    "to_lowercase" => Ok(V::Str(s.to_lowercase())),
                    "contains" => {
                        let V::Str(n) = &args[0] else { panic!() };
                        Ok(V::Bool(s.contains(n.as_str())))
                    }
                    "append" => {
                        let V::Str(n) = &args[0] else { panic!() };
                        Ok(V::Str(format!("{s}{n}")))
                    }
                    _ => panic!("rotogen bug: string method {name}"),
                }
            }
            (_, "to_string") => match fmt_to_string(&recv) {
                Some(s) => {
                    if let V::Trk(t) = &recv {
                        self.log.push(Ev::new("Trk.to_string", vec![V::Trk(*t)]));
                    }
                    Ok(V::Str(s))
                }
                None => panic!("rotogen bug: to_string on {recv:?}"),
            },
            _ => panic!("rotogen bug: method {name} on {recv_ty:?}"),
        }
    }

    pub fn arith(op: BinOp, ty: &Ty, a: &V, b: &V) -> Result<V, Stop> {
        match (a, b) {
            (V::Int(t, x), V::Int(_, y)) => {
                let r = match op {
                    BinOp::Add => x.wrapping_add(*y),
                    BinOp::Sub => x.wrapping_sub(*y),
                    // i128 wrap-around is a multiple of 2^bits, so reducing afterwards is exact
                    BinOp::Mul => x.wrapping_mul(*y),
                    BinOp::Div | BinOp::Mod => {
                        if *y == 0 {
                            return Err(Stop::Trap(format!("{}/zero", t.name())));
                        }
                        if t.signed() && *x == t.min_v() && *y == -1 {
                            return Err(Stop::Trap(format!("{}/min-by-minus-one", t.name())));
                        }
                        if op == BinOp::Div { x / y } else { x % y }
                    }
                    _ => unreachable!(),
                };
                Ok(V::Int(*t, t.wrap(r)))
            }
            (V::F32(x), V::F32(y)) => Ok(V::F32(match op {
                BinOp::Add => x + y,
                BinOp::Sub => x - y,
                BinOp::Mul => x * y,
                BinOp::Div => x / y,
                _ => unreachable!(),
            })),
            (V::F64(x), V::F64(y)) => Ok(V::F64(match op {
                BinOp::Add => x + y,
                BinOp::Sub => x - y,
                BinOp::Mul => x * y,
                BinOp::Div => x / y,
                _ => unreachable!(),
            })),
            (V::Str(x), V::Str(y)) if op == BinOp::Add => Ok(V::Str(format!("{x}{y}"))),
            (V::List(x), V::List(y)) if op == BinOp::Add => {
                let mut v: Vec<V> = x.borrow().clone();
                v.extend(y.borrow().iter().cloned());
                Ok(V::list(v))
            }
            _ => panic!("rotogen bug: arith {op:?} at {ty:?} on {a:?} {b:?}"),
        }
    }

    pub fn compare(op: BinOp, a: &V, b: &V) -> bool {
        use std::cmp::Ordering::*;
        let ord = match (a, b) {
            (V::Int(_, x), V::Int(_, y)) => Some(x.cmp(y)),
            (V::F32(x), V::F32(y)) => x.partial_cmp(y),
            (V::F64(x), V::F64(y)) => x.partial_cmp(y),
            _ => panic!("rotogen bug: compare on {a:?} {b:?}"),
        };
        match (op, ord) {
            (_, None) => false,
            (BinOp::Lt, Some(o)) => o == Less,
            (BinOp::Le, Some(o)) => o != Greater,
            (BinOp::Gt, Some(o)) => o == Greater,
            (BinOp::Ge, Some(o)) => o != Less,
            _ => unreachable!(),
        }
    }

    fn expr(&mut self, e: &Expr) -> R<V> {
        self.tick()?;
        match &e.k {
            EK::Lit(l) => Ok(lit_value(l, &e.ty)),
            EK::Paren(a) => self.expr(a),
            EK::Path(root, fields) => {
                let mut v = self.lookup(root);
                for f in fields {
                    v = Self::field_of(&v, f);
                }
                Ok(v)
            }
            EK::Field(b, f) => {
                let v = self.expr(b)?;
                Ok(Self::field_of(&v, f))
            }
            EK::Un(op, a) => {
                let v = self.expr(a)?;
                Ok(match (op, v) {
                    (UnOp::Not, V::Bool(b)) => V::Bool(!b),
                    (UnOp::Neg, V::Int(t, x)) => V::Int(t, t.wrap(-x)),
                    (UnOp::Neg, V::F32(x)) => V::F32(-x),
                    (UnOp::Neg, V::F64(x)) => V::F64(-x),
                    (op, v) => panic!("rotogen bug: {op:?} on {v:?}"),
                })
            }
            EK::Bin(op, l, r) => match op {
                BinOp::And => {
                    let V::Bool(a) = self.expr(l)? else { panic!() };
                    if !a {
                        return Ok(V::Bool(false));
                    }
                    self.expr(r)
                }
                BinOp::Or => {
                    let V::Bool(a) = self.expr(l)? else { panic!() };
                    if a {
                        return Ok(V::Bool(true));
                    }
                    self.expr(r)
                }
                BinOp::Eq | BinOp::Ne => {
                    let a = self.expr(l)?;
                    let b = self.expr(r)?;
                    // The documentation defines NaN != NaN for floats only; what
                    // `==` means for aggregates/lists that contain a NaN (identity
                    // shortcut or element-wise IEEE) is not specified.
                    if !l.ty.is_float() && (a.contains_nan() || b.contains_nan()) {
                        return Err(Ctl::Stop(Stop::Unspecified("aggregate equality with NaN".into())));
                    }
                    let eq = a.lang_eq(&b);
                    Ok(V::Bool(if *op == BinOp::Eq { eq } else { !eq }))
                }
                BinOp::Lt | BinOp::Le | BinOp::Gt | BinOp::Ge => {
                    let a = self.expr(l)?;
                    let b = self.expr(r)?;
                    Ok(V::Bool(Self::compare(*op, &a, &b)))
                }
                _ => {
                    let a = self.expr(l)?;
                    let b = self.expr(r)?;
                    let v = Self::arith(*op, &e.ty, &a, &b).map_err(Ctl::Stop)?;
                    // values that double in loops would make a run arbitrarily
                    // expensive: treat oversized values like exhausted fuel
                    match &v {
                        V::Str(s) if s.len() > (1 << 16) => return Err(Ctl::Stop(Stop::Fuel)),
                        V::List(l) if l.borrow().len() > 4096 => return Err(Ctl::Stop(Stop::Fuel)),
                        _ => {}
                    }
                    Ok(v)
                }
            },
            EK::If(c, t, el) => {
                let V::Bool(c) = self.expr(c)? else { panic!() };
                if c {
                    self.block(t)
                } else if let Some(el) = el {
                    self.block(el)
                } else {
                    Ok(V::Unit)
                }
            }
            EK::Match(s, arms) => {
                let sv = self.expr(s)?;
                let (vidx, payload): (usize, Vec<V>) = match &sv {
                    V::Opt(Some(x)) => (0, vec![(**x).clone()]),
                    V::Opt(None) => (1, vec![]),
                    V::Enum(i, _, p) => (*i, p.clone()),
                    _ => panic!("rotogen bug: match on {sv:?}"),
                };
                for a in arms {
                    let matches = match a.variant {
                        None => true,
                        Some(v) => v == vidx,
                    };
                    if !matches {
                        continue;
                    }
                    let mut sc = HashMap::new();
                    if a.variant.is_some() {
                        for (n, v) in a.binds.iter().zip(payload.iter()) {
                            sc.insert(n.clone(), v.clone());
                        }
                    }
                    self.scopes.push(sc);
                    let ok = match &a.guard {
                        None => Ok(true),
                        Some(g) => match self.expr(g) {
                            Ok(V::Bool(b)) => Ok(b),
                            Ok(_) => panic!(),
                            Err(e) => Err(e),
                        },
                    };
                    let ok = match ok {
                        Ok(b) => b,
                        Err(e) => {
                            self.scopes.pop();
                            return Err(e);
                        }
                    };
                    if ok {
                        let r = self.block_inner(&a.body);
                        self.scopes.pop();
                        return r;
                    }
                    self.scopes.pop();
                }
                panic!("rotogen bug: no match arm applied");
            }
            EK::Call(f, args) => {
                let mut vs = Vec::new();
                for a in args {
                    vs.push(self.expr(a)?);
                }
                self.call(*f, vs)
            }
            EK::Host(name, args) => {
                let mut vs = Vec::new();
                for a in args {
                    vs.push(self.expr(a)?);
                }
                self.host(name, vs)
            }
            EK::Method(r, name, args) => {
                let rv = self.expr(r)?;
                let mut vs = Vec::new();
                for a in args {
                    vs.push(self.expr(a)?);
                }
                self.method(rv, &r.ty, name, vs)
            }
            EK::RecLit(_, fields) => {
                // evaluate in source order, store in declaration order
                let mut vals = Vec::new();
                for (n, fe) in fields {
                    vals.push((n.clone(), self.expr(fe)?));
                }
                let decl = self.prog.record_fields(&e.ty).expect("record type");
                let ordered = decl
                    .iter()
                    .map(|(n, _)| {
                        let v = vals.iter().find(|(m, _)| m == n).expect("field present").1.clone();
                        (n.clone(), v)
                    })
                    .collect();
                Ok(V::Rec(ordered))
            }
            EK::Ctor(c, args) => {
                let mut vs = Vec::new();
                for a in args {
                    vs.push(self.expr(a)?);
                }
                Ok(match c {
                    Ctor::Some => V::Opt(Some(Box::new(vs.pop().unwrap()))),
                    Ctor::None => V::Opt(None),
                    Ctor::Variant(d, _, v) => {
                        let name = match &self.prog.types[*d] {
                            TypeDecl::Enum { variants, .. } => variants[*v].0.clone(),
                            _ => panic!(),
                        };
                        V::Enum(*v, name, vs)
                    }
                    Ctor::Accept => V::Enum(0, "Accept".into(), vs),
                    Ctor::Reject => V::Enum(1, "Reject".into(), vs),
                })
            }
            EK::ListLit(xs) => {
                let mut vs = Vec::new();
                for a in xs {
                    vs.push(self.expr(a)?);
                }
                Ok(V::list(vs))
            }
            EK::FStr(parts) => {
                let mut s = String::new();
                for p in parts {
                    match p {
                        FPart::Text(t) => s.push_str(t),
                        FPart::Expr(pe) => {
                            let v = self.expr(pe)?;
                            // a part is formatted before the next part is evaluated; the
                            // to_string of a registered type is a (logged) host call
                            if let V::Trk(t) = &v {
                                self.log.push(Ev::new("Trk.to_string", vec![V::Trk(*t)]));
                            }
                            s.push_str(&fmt_to_string(&v).expect("formattable"));
                        }
                    }
                }
                if s.len() > (1 << 16) {
                    return Err(Ctl::Stop(Stop::Fuel));
                }
                Ok(V::Str(s))
            }
            EK::Block(b) => self.block(b),
            EK::Ret(k, v) => {
                let val = match v {
                    Some(v) => self.expr(v)?,
                    None => V::Unit,
                };
                Err(Ctl::Return(match k {
                    RetKind::Return => val,
                    RetKind::Accept => V::Enum(0, "Accept".into(), vec![val]),
                    RetKind::Reject => V::Enum(1, "Reject".into(), vec![val]),
                }))
            }
            EK::Try(a) => match self.expr(a)? {
                V::Opt(Some(x)) => Ok(*x),
                V::Opt(None) => Err(Ctl::Return(V::Opt(None))),
                v => panic!("rotogen bug: ? on {v:?}"),
            },
            EK::Assign(p, v) => {
                let val = self.expr(v)?;
                *self.place_mut(p) = val;
                Ok(V::Unit)
            }
            EK::CompAssign(p, op, v) => {
                // target is read before the right-hand side is evaluated
                let cur = self.place_mut(p).clone();
                let rhs = self.expr(v)?;
                let ty = v.ty.clone();
                let r = Self::arith(*op, &ty, &cur, &rhs).map_err(Ctl::Stop)?;
                *self.place_mut(p) = r;
                Ok(V::Unit)
            }
            EK::While(c, b) => {
                loop {
                    let V::Bool(c) = self.expr(c)? else { panic!() };
                    if !c {
                        break;
                    }
                    self.block(b)?;
                }
                Ok(V::Unit)
            }
            EK::For(var, it, b) => {
                let V::List(l) = self.expr(it)? else { panic!() };
                let mut i = 0usize;
                loop {
                    self.tick()?;
                    let elem = {
                        let lb = l.borrow();
                        match lb.get(i) {
                            Some(x) => x.clone(),
                            None => break,
                        }
                    };
                    let mut sc = HashMap::new();
                    sc.insert(var.clone(), elem);
                    self.scopes.push(sc);
                    let r = self.block(b);
                    self.scopes.pop();
                    r?;
                    i += 1;
                }
                Ok(V::Unit)
            }
        }
    }
}

/// Run `fns[idx]` on `args` with the given input words.
pub fn run(prog: &Program, idx: usize, args: Vec<V>, input: &[u64], fuel: u64, const_order: &[usize]) -> Outcome {
    let mut it = Interp::new(prog, input, fuel);
    if let Err(s) = it.eval_consts(const_order) {
        return Outcome { result: Err(s), log: it.log };
    }
    // events logged by constant initialisers belong to compilation, not to the call
    it.log.clear();
    let r = it.call_fn(idx, args);
    Outcome { result: r, log: it.log }
}
