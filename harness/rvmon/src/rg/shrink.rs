//! AST-level delta debugging for generated programs.
//!
//! `shrink(prog, pred)` greedily applies size-reducing edits as long as `pred`
//! (which re-runs the failing monitor) still reports the same alarm.

use super::ast::*;
use crate::val::IntTy;

fn lit_int(t: IntTy, v: i128) -> Expr {
    Expr::new(Ty::Int(t), EK::Lit(Lit::Int { v, suffix: true, hex: false, under: false }))
}

/// Smallest expressions of a type (several alternatives, tried in order).
pub fn defaults(prog: &Program, ty: &Ty) -> Vec<Expr> {
    let one = |e: Expr| vec![e];
    match ty {
        Ty::Unit => one(Expr::unit()),
        Ty::Bool => vec![Expr::boolean(false), Expr::boolean(true)],
        Ty::Char => one(Expr::new(Ty::Char, EK::Lit(Lit::Char('a')))),
        Ty::Int(t) => vec![lit_int(*t, 0), lit_int(*t, 1)],
        Ty::F32 | Ty::F64 => one(Expr::new(ty.clone(), EK::Lit(Lit::Float { text: "0.0".into(), suffix: true }))),
        Ty::Str => one(Expr::new(Ty::Str, EK::Lit(Lit::Str(String::new())))),
        Ty::Trk => one(Expr::new(
            Ty::Trk,
            EK::Host("mk".into(), vec![Expr::new(Ty::Int(IntTy::I64), EK::Lit(Lit::Int { v: 0, suffix: false, hex: false, under: false }))]),
        )),
        Ty::TrkZ => one(Expr::new(Ty::TrkZ, EK::Host("mkz".into(), vec![]))),
        Ty::Trk1 => one(Expr::new(Ty::Trk1, EK::Host("mk1".into(), vec![lit_int(IntTy::U8, 0)]))),
        Ty::Opt(t) => {
            let mut v = vec![Expr::new(ty.clone(), EK::Ctor(Ctor::None, vec![]))];
            for d in defaults(prog, t).into_iter().take(1) {
                v.push(Expr::new(ty.clone(), EK::Ctor(Ctor::Some, vec![d])));
            }
            v
        }
        Ty::List(t) => {
            let mut v = vec![];
            for d in defaults(prog, t).into_iter().take(1) {
                v.push(Expr::new(ty.clone(), EK::ListLit(vec![d])));
            }
            v.push(Expr::new(ty.clone(), EK::ListLit(vec![])));
            v
        }
        Ty::Anon(fs) => {
            let fields = fs.iter().map(|(n, t)| (n.clone(), defaults(prog, t).remove(0))).collect();
            one(Expr::new(ty.clone(), EK::RecLit(None, fields)))
        }
        Ty::Named(d, args) => match &prog.types[*d] {
            TypeDecl::Record { fields, .. } => {
                let fs = fields.iter().map(|(n, t)| (n.clone(), defaults(prog, &t.subst(args)).remove(0))).collect();
                one(Expr::new(ty.clone(), EK::RecLit(Some(*d), fs)))
            }
            TypeDecl::Enum { variants, .. } => variants
                .iter()
                .enumerate()
                .map(|(vi, (_, ts))| {
                    let a = ts.iter().map(|t| defaults(prog, &t.subst(args)).remove(0)).collect();
                    Expr::new(ty.clone(), EK::Ctor(Ctor::Variant(*d, args.clone(), vi), a))
                })
                .take(2)
                .collect(),
        },
        Ty::Verdict(a, _) => one(Expr::new(ty.clone(), EK::Ctor(Ctor::Accept, vec![defaults(prog, a).remove(0)]))),
        Ty::Param(_) => vec![],
    }
}

pub fn size(prog: &Program) -> usize {
    let mut n = prog.types.len() * 3 + prog.consts.len() * 2;
    for f in &prog.fns {
        n += 2 + f.params.len();
        super::generate::visit_block(&f.body, &mut |_| n += 1);
        n += count_stmts(&f.body);
    }
    for c in &prog.consts {
        super::generate::visit(&c.init, &mut |_| n += 1);
    }
    n
}

fn count_stmts(b: &Block) -> usize {
    let mut n = 0;
    walk_blocks(b, &mut |blk| n += blk.stmts.len());
    n
}

fn walk_blocks(b: &Block, f: &mut dyn FnMut(&Block)) {
    f(b);
    let mut on_expr = |e: &Expr, f: &mut dyn FnMut(&Block)| walk_blocks_expr(e, f);
    for s in &b.stmts {
        match s {
            Stmt::Let(_, _, e) | Stmt::Expr(e) => on_expr(e, f),
        }
    }
    if let Some(t) = &b.tail {
        on_expr(t, f);
    }
}

fn walk_blocks_expr(e: &Expr, f: &mut dyn FnMut(&Block)) {
    match &e.k {
        EK::Lit(_) | EK::Path(..) => {}
        EK::Field(a, _) | EK::Un(_, a) | EK::Try(a) | EK::Paren(a) => walk_blocks_expr(a, f),
        EK::Bin(_, a, b) => {
            walk_blocks_expr(a, f);
            walk_blocks_expr(b, f);
        }
        EK::If(c, t, el) => {
            walk_blocks_expr(c, f);
            walk_blocks(t, f);
            if let Some(el) = el {
                walk_blocks(el, f);
            }
        }
        EK::Match(s, arms) => {
            walk_blocks_expr(s, f);
            for a in arms {
                if let Some(g) = &a.guard {
                    walk_blocks_expr(g, f);
                }
                walk_blocks(&a.body, f);
            }
        }
        EK::Call(_, args) | EK::Host(_, args) | EK::Ctor(_, args) | EK::ListLit(args) => {
            for a in args {
                walk_blocks_expr(a, f);
            }
        }
        EK::Method(r, _, args) => {
            walk_blocks_expr(r, f);
            for a in args {
                walk_blocks_expr(a, f);
            }
        }
        EK::RecLit(_, fs) => {
            for (_, a) in fs {
                walk_blocks_expr(a, f);
            }
        }
        EK::FStr(ps) => {
            for p in ps {
                if let FPart::Expr(a) = p {
                    walk_blocks_expr(a, f);
                }
            }
        }
        EK::Block(b) => walk_blocks(b, f),
        EK::Ret(_, v) => {
            if let Some(v) = v {
                walk_blocks_expr(v, f);
            }
        }
        EK::Assign(_, v) | EK::CompAssign(_, _, v) => walk_blocks_expr(v, f),
        EK::While(c, b) => {
            walk_blocks_expr(c, f);
            walk_blocks(b, f);
        }
        EK::For(_, it, b) => {
            walk_blocks_expr(it, f);
            walk_blocks(b, f);
        }
    }
}

// ---------------------------------------------------------------------------
// mutable traversal with an edit counter
// ---------------------------------------------------------------------------

enum Edit<'a> {
    /// remove the n-th statement (pre-order over all blocks)
    DropStmt,
    /// replace the n-th expression by `alt`-th alternative (default or child)
    Replace(&'a Program, usize),
    /// drop the guard of the n-th guarded arm
    DropGuard,
    /// drop the n-th non-final match arm / turn `if c {a} else {b}` stmt into one branch
    DropArm,
}

struct Cursor<'a> {
    target: usize,
    n: usize,
    edit: Edit<'a>,
    done: bool,
}

/// Alternatives for replacing `e`: same-typed direct children first, then defaults.
fn alternatives(prog: &Program, e: &Expr) -> Vec<Expr> {
    let mut alts: Vec<Expr> = Vec::new();
    let same = |x: &Expr| x.ty == e.ty;
    let tail_of = |b: &Block| -> Option<Expr> {
        if b.stmts.is_empty() { b.tail.as_ref().map(|t| (**t).clone()) } else { None }
    };
    match &e.k {
        EK::Paren(a) | EK::Un(_, a) => {
            if same(a) {
                alts.push((**a).clone());
            }
        }
        EK::Bin(_, a, b) => {
            if same(a) {
                alts.push((**a).clone());
            }
            if same(b) {
                alts.push((**b).clone());
            }
        }
        EK::If(_, t, el) => {
            alts.push(Expr::new(e.ty.clone(), EK::Block(t.clone())));
            if let Some(el) = el {
                alts.push(Expr::new(e.ty.clone(), EK::Block(el.clone())));
            }
        }
        EK::Block(b) => {
            if let Some(t) = tail_of(b) {
                alts.push(t);
            }
        }
        EK::Match(_, arms) => {
            for a in arms {
                if a.binds.is_empty() {
                    alts.push(Expr::new(e.ty.clone(), EK::Block(a.body.clone())));
                }
            }
        }
        EK::Call(_, args) | EK::Host(_, args) | EK::ListLit(args) | EK::Ctor(_, args) => {
            for a in args {
                if same(a) {
                    alts.push(a.clone());
                }
            }
        }
        EK::Method(r, _, args) => {
            if same(r) {
                alts.push((**r).clone());
            }
            for a in args {
                if same(a) {
                    alts.push(a.clone());
                }
            }
        }
        EK::While(_, b) | EK::For(_, _, b) => {
            let _ = b;
            alts.push(Expr::unit());
        }
        _ => {}
    }
    let trivially_small = matches!(e.k, EK::Lit(_) | EK::Path(..));
    if !trivially_small {
        alts.extend(defaults(prog, &e.ty));
    }
    alts
}

impl Cursor<'_> {
    fn block(&mut self, b: &mut Block) {
        if self.done {
            return;
        }
        if let Edit::DropStmt = self.edit {
            let len = b.stmts.len();
            if self.target < self.n + len {
                let i = self.target - self.n;
                b.stmts.remove(i);
                self.done = true;
                return;
            }
            self.n += len;
        }
        for s in b.stmts.iter_mut() {
            match s {
                Stmt::Let(_, _, e) | Stmt::Expr(e) => self.expr(e),
            }
            if self.done {
                return;
            }
        }
        if let Some(t) = b.tail.as_mut() {
            self.expr(t);
        }
    }

    fn expr(&mut self, e: &mut Expr) {
        if self.done {
            return;
        }
        if let Edit::Replace(prog, alt) = &self.edit {
            if self.n == self.target {
                let alts = alternatives(prog, e);
                if let Some(a) = alts.get(*alt) {
                    *e = a.clone();
                }
                self.done = true;
                return;
            }
            self.n += 1;
        }
        match &mut e.k {
            EK::Lit(_) | EK::Path(..) => {}
            EK::Field(a, _) | EK::Un(_, a) | EK::Try(a) | EK::Paren(a) => self.expr(a),
            EK::Bin(_, a, b) => {
                self.expr(a);
                self.expr(b);
            }
            EK::If(c, t, el) => {
                if let Edit::DropArm = self.edit
                    && el.is_some()
                    && e.ty == Ty::Unit
                {
                    if self.n == self.target {
                        *el = None;
                        self.done = true;
                        return;
                    }
                    self.n += 1;
                }
                self.expr(c);
                self.block(t);
                if let Some(el) = el {
                    self.block(el);
                }
            }
            EK::Match(s, arms) => {
                if let Edit::DropGuard = self.edit {
                    for a in arms.iter_mut() {
                        if a.guard.is_some() {
                            if self.n == self.target {
                                a.guard = None;
                                self.done = true;
                                return;
                            }
                            self.n += 1;
                        }
                    }
                }
                if let Edit::DropArm = self.edit {
                    for i in 0..arms.len() {
                        // an arm can go if another arm for the same variant (or `_`) follows
                        let later = arms[i + 1..].iter().any(|b| b.variant == arms[i].variant || b.variant.is_none());
                        if later {
                            if self.n == self.target {
                                arms.remove(i);
                                self.done = true;
                                return;
                            }
                            self.n += 1;
                        }
                    }
                }
                self.expr(s);
                for a in arms.iter_mut() {
                    if let Some(g) = a.guard.as_mut() {
                        self.expr(g);
                    }
                    self.block(&mut a.body);
                }
            }
            EK::Call(_, args) | EK::Host(_, args) | EK::Ctor(_, args) | EK::ListLit(args) => {
                for a in args.iter_mut() {
                    self.expr(a);
                }
            }
            EK::Method(r, _, args) => {
                self.expr(r);
                for a in args.iter_mut() {
                    self.expr(a);
                }
            }
            EK::RecLit(_, fs) => {
                for (_, a) in fs.iter_mut() {
                    self.expr(a);
                }
            }
            EK::FStr(ps) => {
                for p in ps.iter_mut() {
                    if let FPart::Expr(a) = p {
                        self.expr(a);
                    }
                }
            }
            EK::Block(b) => self.block(b),
            EK::Ret(_, v) => {
                if let Some(v) = v {
                    self.expr(v);
                }
            }
            EK::Assign(_, v) | EK::CompAssign(_, _, v) => self.expr(v),
            EK::While(c, b) => {
                self.expr(c);
                self.block(b);
            }
            EK::For(_, it, b) => {
                self.expr(it);
                self.block(b);
            }
        }
    }
}

fn apply(prog: &Program, target: usize, edit: Edit) -> Option<Program> {
    let mut p = prog.clone();
    let mut c = Cursor { target, n: 0, edit, done: false };
    for f in p.fns.iter_mut() {
        c.block(&mut f.body);
        if c.done {
            break;
        }
    }
    if !c.done {
        for k in p.consts.iter_mut() {
            c.expr(&mut k.init);
            if c.done {
                break;
            }
        }
    }
    if c.done { Some(p) } else { None }
}

fn fn_is_called(prog: &Program, idx: usize) -> bool {
    let mut called = false;
    for f in &prog.fns {
        super::generate::visit_block(&f.body, &mut |e| {
            if let EK::Call(j, _) = &e.k
                && *j == idx
            {
                called = true;
            }
        });
    }
    called
}

/// Remove function `idx` (must be uncalled) and renumber calls.
fn drop_fn(prog: &Program, idx: usize) -> Program {
    let mut p = prog.clone();
    p.fns.remove(idx);
    fn fix(e: &mut Expr, idx: usize) {
        struct V(usize);
        fn walk(e: &mut Expr, idx: usize) {
            if let EK::Call(j, _) = &mut e.k
                && *j > idx
            {
                *j -= 1;
            }
            match &mut e.k {
                EK::Lit(_) | EK::Path(..) => {}
                EK::Field(a, _) | EK::Un(_, a) | EK::Try(a) | EK::Paren(a) => walk(a, idx),
                EK::Bin(_, a, b) => {
                    walk(a, idx);
                    walk(b, idx);
                }
                EK::If(c, t, el) => {
                    walk(c, idx);
                    walk_b(t, idx);
                    if let Some(el) = el {
                        walk_b(el, idx);
                    }
                }
                EK::Match(s, arms) => {
                    walk(s, idx);
                    for a in arms.iter_mut() {
                        if let Some(g) = a.guard.as_mut() {
                            walk(g, idx);
                        }
                        walk_b(&mut a.body, idx);
                    }
                }
                EK::Call(_, args) | EK::Host(_, args) | EK::Ctor(_, args) | EK::ListLit(args) => {
                    for a in args.iter_mut() {
                        walk(a, idx);
                    }
                }
                EK::Method(r, _, args) => {
                    walk(r, idx);
                    for a in args.iter_mut() {
                        walk(a, idx);
                    }
                }
                EK::RecLit(_, fs) => {
                    for (_, a) in fs.iter_mut() {
                        walk(a, idx);
                    }
                }
                EK::FStr(ps) => {
                    for p in ps.iter_mut() {
                        if let FPart::Expr(a) = p {
                            walk(a, idx);
                        }
                    }
                }
                EK::Block(b) => walk_b(b, idx),
                EK::Ret(_, v) => {
                    if let Some(v) = v {
                        walk(v, idx);
                    }
                }
                EK::Assign(_, v) | EK::CompAssign(_, _, v) => walk(v, idx),
                EK::While(c, b) => {
                    walk(c, idx);
                    walk_b(b, idx);
                }
                EK::For(_, it, b) => {
                    walk(it, idx);
                    walk_b(b, idx);
                }
            }
        }
        fn walk_b(b: &mut Block, idx: usize) {
            for s in b.stmts.iter_mut() {
                match s {
                    Stmt::Let(_, _, e) | Stmt::Expr(e) => walk(e, idx),
                }
            }
            if let Some(t) = b.tail.as_mut() {
                walk(t, idx);
            }
        }
        let _ = V(0);
        walk(e, idx);
    }
    for f in p.fns.iter_mut() {
        let mut blk = Expr::new(Ty::Unit, EK::Block(std::mem::take(&mut f.body)));
        fix(&mut blk, idx);
        if let EK::Block(b) = blk.k {
            f.body = b;
        }
    }
    p.item_order.clear();
    p
}

/// Greedy shrink. `pred` must return true iff the candidate still shows the alarm.
/// `budget` bounds the number of predicate evaluations.
pub fn shrink(prog: &Program, mut budget: usize, pred: &mut dyn FnMut(&Program) -> bool) -> Program {
    let mut cur = prog.clone();
    let mut progress = true;
    while progress && budget > 0 {
        progress = false;
        // 1. drop uncalled functions (never the last one = entry point)
        let mut i = 0;
        while i + 1 < cur.fns.len() && budget > 0 {
            if !fn_is_called(&cur, i) {
                let cand = drop_fn(&cur, i);
                budget -= 1;
                if pred(&cand) {
                    cur = cand;
                    progress = true;
                    continue;
                }
            }
            i += 1;
        }
        // 2. drop constants
        let mut i = 0;
        while i < cur.consts.len() && budget > 0 {
            let mut cand = cur.clone();
            cand.consts.remove(i);
            cand.item_order.clear();
            budget -= 1;
            if pred(&cand) {
                cur = cand;
                progress = true;
            } else {
                i += 1;
            }
        }
        // 3. statements, from the back (later statements depend on earlier ones)
        let mut n = 0;
        for f in &cur.fns {
            n += count_stmts(&f.body);
        }
        let mut t = n;
        while t > 0 && budget > 0 {
            t -= 1;
            if let Some(cand) = apply(&cur, t, Edit::DropStmt) {
                budget -= 1;
                if pred(&cand) {
                    cur = cand;
                    progress = true;
                }
            }
        }
        // 4. guards and arms
        for kind in 0..2 {
            let mut t = 0;
            while budget > 0 {
                let e = if kind == 0 { Edit::DropGuard } else { Edit::DropArm };
                match apply(&cur, t, e) {
                    None => break,
                    Some(cand) => {
                        budget -= 1;
                        if pred(&cand) {
                            cur = cand;
                            progress = true;
                        } else {
                            t += 1;
                        }
                    }
                }
            }
        }
        // 5. expressions: children / defaults
        let mut t = 0;
        while budget > 0 {
            let mut any = false;
            let mut replaced = false;
            for alt in 0..5 {
                let progc = cur.clone();
                match apply(&cur, t, Edit::Replace(&progc, alt)) {
                    None => break,
                    Some(cand) => {
                        any = true;
                        if size(&cand) >= size(&cur) {
                            continue;
                        }
                        budget -= 1;
                        if pred(&cand) {
                            cur = cand;
                            progress = true;
                            replaced = true;
                            break;
                        }
                        if budget == 0 {
                            break;
                        }
                    }
                }
            }
            if !any {
                break;
            }
            if !replaced {
                t += 1;
            }
        }
        // 6. unused type declarations (only the last one, to keep indices stable)
        while !cur.types.is_empty() && budget > 0 {
            let last = cur.types.len() - 1;
            if type_is_used(&cur, last) {
                break;
            }
            let mut cand = cur.clone();
            cand.types.pop();
            cand.item_order.clear();
            budget -= 1;
            if pred(&cand) {
                cur = cand;
                progress = true;
            } else {
                break;
            }
        }
    }
    cur
}

fn ty_mentions(t: &Ty, d: usize) -> bool {
    match t {
        Ty::Named(x, args) => *x == d || args.iter().any(|a| ty_mentions(a, d)),
        Ty::Opt(a) | Ty::List(a) => ty_mentions(a, d),
        Ty::Verdict(a, r) => ty_mentions(a, d) || ty_mentions(r, d),
        Ty::Anon(fs) => fs.iter().any(|(_, a)| ty_mentions(a, d)),
        _ => false,
    }
}

fn type_is_used(prog: &Program, d: usize) -> bool {
    let mut used = false;
    for (i, t) in prog.types.iter().enumerate() {
        if i == d {
            continue;
        }
        match t {
            TypeDecl::Record { fields, .. } => used |= fields.iter().any(|(_, t)| ty_mentions(t, d)),
            TypeDecl::Enum { variants, .. } => used |= variants.iter().any(|(_, ts)| ts.iter().any(|t| ty_mentions(t, d))),
        }
    }
    for c in &prog.consts {
        used |= ty_mentions(&c.ty, d);
        super::generate::visit(&c.init, &mut |e| used |= ty_mentions(&e.ty, d));
    }
    for f in &prog.fns {
        used |= ty_mentions(&f.ret, d) || f.params.iter().any(|(_, t)| ty_mentions(t, d));
        super::generate::visit_block(&f.body, &mut |e| used |= ty_mentions(&e.ty, d));
        walk_blocks(&f.body, &mut |b| {
            for s in &b.stmts {
                if let Stmt::Let(_, Some(t), _) = s {
                    used |= ty_mentions(t, d);
                }
            }
        });
    }
    used
}
