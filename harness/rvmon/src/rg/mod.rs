pub mod ast;
pub mod generate;
pub mod interp;
pub mod mutate;
pub mod print;
pub mod shrink;
