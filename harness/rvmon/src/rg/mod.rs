pub mod ast;
pub mod generate;
pub mod interp;
pub mod print;
pub mod shrink;
