//! Pretty printer: rotogen AST -> Roto source text.

use super::ast::*;
use crate::rng::Rng;

pub struct Printer<'p> {
    pub prog: &'p Program,
    /// layout randomness (semantically irrelevant choices); None = canonical
    pub rng: Option<Rng>,
    out: String,
    ind: usize,
}

/// While set, parameter and return types of functions that are anonymous records list their fields
/// in the opposite order of every other mention of that type (let annotations, literals). Whether the two spellings are one type is
/// not documented: such a program may be refused with a type error, but if it compiles, every
/// field must still be addressed by its NAME (see fam/diff.rs).
pub static PERMUTE_ANON_LETS: std::sync::atomic::AtomicBool = std::sync::atomic::AtomicBool::new(false);

pub fn print_program(prog: &Program, layout_seed: Option<u64>) -> String {
    let mut p = Printer { prog, rng: layout_seed.map(Rng::new), out: String::new(), ind: 0 };
    p.program();
    p.out
}

pub fn print_expr(prog: &Program, e: &Expr) -> String {
    let mut p = Printer { prog, rng: None, out: String::new(), ind: 0 };
    p.expr(e, 0);
    p.out
}

pub fn print_ty(prog: &Program, t: &Ty) -> String {
    let mut p = Printer { prog, rng: None, out: String::new(), ind: 0 };
    p.ty(t);
    p.out
}

pub fn esc_char(c: char, quote: char, out: &mut String) {
    match c {
        '\n' => out.push_str("\\n"),
        '\r' => out.push_str("\\r"),
        '\t' => out.push_str("\\t"),
        '\0' => out.push_str("\\0"),
        '\\' => out.push_str("\\\\"),
        c if c == quote => {
            out.push('\\');
            out.push(c);
        }
        c if (c as u32) < 0x20 || c as u32 == 0x7f => {
            out.push_str(&format!("\\u{{{:x}}}", c as u32));
        }
        c => out.push(c),
    }
}

impl Printer<'_> {
    fn flip(&mut self, num: u64, den: u64) -> bool {
        match &mut self.rng {
            Some(r) => r.chance(num, den),
            None => false,
        }
    }
    fn w(&mut self, s: &str) {
        self.out.push_str(s);
    }
    fn nl(&mut self) {
        self.out.push('\n');
        for _ in 0..self.ind {
            self.out.push_str("    ");
        }
    }

    fn program(&mut self) {
        let prog = self.prog;
        let order: Vec<(u8, usize)> = if prog.item_order.is_empty() {
            let mut v = Vec::new();
            v.extend((0..prog.types.len()).map(|i| (0u8, i)));
            v.extend((0..prog.consts.len()).map(|i| (1u8, i)));
            v.extend((0..prog.fns.len()).map(|i| (2u8, i)));
            v
        } else {
            prog.item_order.clone()
        };
        for (kind, i) in order {
            match kind {
                0 => self.type_decl(&prog.types[i]),
                1 => self.const_decl(&prog.consts[i]),
                _ => self.fn_decl(&prog.fns[i]),
            }
            self.w("\n");
            if self.flip(1, 6) {
                self.w("// rotogen\n");
            }
        }
    }

    fn type_decl(&mut self, d: &TypeDecl) {
        match d {
            TypeDecl::Record { name, params, fields } => {
                self.w("record ");
                self.w(name);
                self.tparams(params);
                self.w(" {");
                self.ind += 1;
                for (n, t) in fields {
                    self.nl();
                    self.w(n);
                    self.w(": ");
                    self.ty(t);
                    self.w(",");
                }
                self.ind -= 1;
                self.nl();
                self.w("}\n");
            }
            TypeDecl::Enum { name, params, variants } => {
                self.w("enum ");
                self.w(name);
                self.tparams(params);
                self.w(" {");
                self.ind += 1;
                for (n, ts) in variants {
                    self.nl();
                    self.w(n);
                    if !ts.is_empty() {
                        self.w("(");
                        for (i, t) in ts.iter().enumerate() {
                            if i > 0 {
                                self.w(", ");
                            }
                            self.ty(t);
                        }
                        self.w(")");
                    }
                    self.w(",");
                }
                self.ind -= 1;
                self.nl();
                self.w("}\n");
            }
        }
    }

    fn tparams(&mut self, params: &[String]) {
        if !params.is_empty() {
            self.w("[");
            self.w(&params.join(", "));
            self.w("]");
        }
    }

    fn const_decl(&mut self, c: &ConstDecl) {
        self.w("const ");
        self.w(&c.name);
        self.w(": ");
        self.ty(&c.ty);
        self.w(" = ");
        self.expr(&c.init, 0);
        self.w(";\n");
    }

    fn fn_decl(&mut self, f: &FnDecl) {
        match f.kind {
            FnKind::Fn => self.w("fn "),
            FnKind::FilterMap => self.w("filtermap "),
            FnKind::Test => self.w("test "),
        }
        self.w(&f.name);
        if f.kind != FnKind::Test {
            self.w("(");
            for (i, (n, t)) in f.params.iter().enumerate() {
                if i > 0 {
                    self.w(", ");
                }
                self.w(n);
                self.w(": ");
                self.sig_ty(t);
            }
            self.w(")");
        }
        if f.kind == FnKind::Fn && (f.ret != Ty::Unit || self.flip(1, 8)) {
            self.w(" -> ");
            self.sig_ty(&f.ret);
        }
        self.w(" ");
        self.block(&f.body);
        self.w("\n");
    }

    /// a parameter or return type: see PERMUTE_ANON_LETS
    fn sig_ty(&mut self, t: &Ty) {
        match t {
            Ty::Anon(fs) if fs.len() >= 2 && PERMUTE_ANON_LETS.load(std::sync::atomic::Ordering::Relaxed) => {
                let rev: Vec<(String, Ty)> = fs.iter().rev().cloned().collect();
                self.ty(&Ty::Anon(rev));
            }
            _ => self.ty(t),
        }
    }

    pub fn ty(&mut self, t: &Ty) {
        match t {
            Ty::Unit => self.w("()"),
            Ty::Bool => self.w("bool"),
            Ty::Char => self.w("char"),
            Ty::Int(i) => self.w(i.name()),
            Ty::F32 => self.w("f32"),
            Ty::F64 => self.w("f64"),
            Ty::Str => self.w("String"),
            Ty::Opt(t) => {
                if self.flip(1, 3) {
                    self.w("Option[");
                    self.ty(t);
                    self.w("]");
                } else {
                    self.ty(t);
                    self.w("?");
                }
            }
            Ty::List(t) => {
                self.w("List[");
                self.ty(t);
                self.w("]");
            }
            Ty::Named(d, args) => {
                let name = self.prog.type_name(*d).to_string();
                self.w(&name);
                if !args.is_empty() {
                    self.w("[");
                    for (i, a) in args.iter().enumerate() {
                        if i > 0 {
                            self.w(", ");
                        }
                        self.ty(a);
                    }
                    self.w("]");
                }
            }
            Ty::Anon(fs) => {
                self.w("{");
                for (i, (n, t)) in fs.iter().enumerate() {
                    if i > 0 {
                        self.w(", ");
                    }
                    self.w(n);
                    self.w(": ");
                    self.ty(t);
                }
                self.w("}");
            }
            Ty::Verdict(a, r) => {
                self.w("Verdict[");
                self.ty(a);
                self.w(", ");
                self.ty(r);
                self.w("]");
            }
            Ty::Trk => self.w("Trk"),
            Ty::TrkZ => self.w("TrkZ"),
            Ty::Trk1 => self.w("Trk1"),
            Ty::Param(i) => {
                // only valid inside declarations: T0, T1
                self.w(&format!("T{i}"));
            }
        }
    }

    pub fn block(&mut self, b: &Block) {
        self.w("{");
        self.ind += 1;
        let n = b.stmts.len();
        for (i, s) in b.stmts.iter().enumerate() {
            self.nl();
            let last_no_tail = i + 1 == n && b.tail.is_none();
            self.stmt(s, last_no_tail);
        }
        if let Some(t) = &b.tail {
            self.nl();
            self.expr(t, 0);
        }
        self.ind -= 1;
        self.nl();
        self.w("}");
    }

    fn stmt(&mut self, s: &Stmt, last_no_tail: bool) {
        match s {
            Stmt::Let(n, t, e) => {
                self.w("let ");
                self.w(n);
                if let Some(t) = t {
                    self.w(": ");
                    self.ty(t);
                }
                self.w(" = ");
                self.expr(e, 0);
                self.w(";");
            }
            Stmt::Expr(e) => {
                self.expr(e, 0);
                let blocklike = matches!(e.k, EK::If(..) | EK::Match(..) | EK::While(..) | EK::For(..));
                if blocklike {
                    // `;` is optional after these, except that at the very end of a
                    // block the construct would become the block's value.
                    if (last_no_tail && e.ty != Ty::Unit) || last_no_tail || self.flip(1, 3) {
                        self.w(";");
                    }
                } else {
                    self.w(";");
                }
            }
        }
    }

    fn is_atom(e: &Expr) -> bool {
        match &e.k {
            EK::Lit(Lit::Int { v, .. }) => *v >= 0,
            EK::Lit(Lit::Float { text, .. }) => !text.starts_with('-'),
            EK::Lit(_) => true,
            EK::Path(..) | EK::Field(..) | EK::Call(..) | EK::Host(..) | EK::Method(..) => true,
            EK::ListLit(_) | EK::Paren(_) | EK::FStr(_) | EK::Try(_) => true,
            EK::Ctor(..) => true,
            _ => false,
        }
    }

    fn has_bare_typed_record(e: &Expr) -> bool {
        match &e.k {
            EK::RecLit(Some(_), _) => true,
            EK::Un(_, a) | EK::Field(a, _) | EK::Try(a) => Self::has_bare_typed_record(a),
            EK::Bin(_, a, b) => Self::has_bare_typed_record(a) || Self::has_bare_typed_record(b),
            EK::Method(r, _, _) => Self::has_bare_typed_record(r),
            _ => false,
        }
    }

    /// expression in a position where `Name { .. }` is not allowed (if/while
    /// condition, match scrutinee, for iterable)
    fn expr_no_records(&mut self, e: &Expr) {
        if Self::has_bare_typed_record(e) {
            self.w("(");
            self.expr(e, 0);
            self.w(")");
        } else {
            self.expr(e, 0);
        }
    }

    fn operand(&mut self, e: &Expr) {
        // operand of a unary operator or receiver of a postfix form
        if Self::is_atom(e) {
            self.expr(e, 0);
        } else {
            self.w("(");
            self.expr(e, 0);
            self.w(")");
        }
    }

    fn bin_child(&mut self, op: BinOp, child: &Expr, right: bool) {
        let needs = match &child.k {
            EK::Bin(cop, _, _) => {
                let (p, cp) = (op.prec(), cop.prec());
                cp < p || (cp == p && (right || p == 2 || (p == 1 && *cop != op)))
            }
            EK::If(..) | EK::Match(..) | EK::Block(..) | EK::While(..) | EK::For(..) => true,
            EK::RecLit(..) => true,
            EK::Ret(..) | EK::Assign(..) | EK::CompAssign(..) => true,
            EK::Un(..) => false,
            _ => false,
        };
        let redundant = !needs && self.flip(1, 12);
        if needs || redundant {
            self.w("(");
            self.expr(child, 0);
            self.w(")");
        } else {
            self.expr(child, 0);
        }
    }

    fn args(&mut self, args: &[Expr]) {
        self.w("(");
        for (i, a) in args.iter().enumerate() {
            if i > 0 {
                self.w(", ");
            }
            self.expr(a, 0);
        }
        if !args.is_empty() && self.flip(1, 10) {
            self.w(",");
        }
        self.w(")");
    }

    fn lit(&mut self, l: &Lit, ty: &Ty) {
        match l {
            Lit::Unit => self.w("()"),
            Lit::Bool(b) => self.w(if *b { "true" } else { "false" }),
            Lit::Char(c) => {
                let mut s = String::from("'");
                esc_char(*c, '\'', &mut s);
                s.push('\'');
                self.w(&s);
            }
            Lit::Str(t) => {
                let mut s = String::from("\"");
                for c in t.chars() {
                    esc_char(c, '"', &mut s);
                }
                s.push('"');
                self.w(&s);
            }
            Lit::Int { v, suffix, hex, under } => {
                let mag = v.unsigned_abs();
                let mut digits = if *hex && !*suffix && *v >= 0 {
                    format!("0x{mag:X}")
                } else {
                    format!("{mag}")
                };
                if *under && !digits.starts_with("0x") && digits.len() > 3 {
                    let mut g = String::new();
                    let n = digits.len();
                    for (i, c) in digits.chars().enumerate() {
                        if i > 0 && (n - i) % 3 == 0 {
                            g.push('_');
                        }
                        g.push(c);
                    }
                    digits = g;
                }
                if *v < 0 {
                    self.w("-");
                }
                self.w(&digits);
                if *suffix {
                    if let Ty::Int(t) = ty {
                        self.w(t.name());
                    }
                }
            }
            Lit::Float { text, suffix } => {
                self.w(text);
                if *suffix {
                    self.w(if *ty == Ty::F32 { "f32" } else { "f64" });
                }
            }
        }
    }

    pub fn expr(&mut self, e: &Expr, _min: u8) {
        match &e.k {
            EK::Lit(l) => self.lit(l, &e.ty),
            EK::Path(root, fields) => {
                self.w(root);
                for f in fields {
                    self.w(".");
                    self.w(f);
                }
            }
            EK::Field(b, f) => {
                self.operand(b);
                self.w(".");
                self.w(f);
            }
            EK::Un(op, a) => {
                self.w(match op {
                    UnOp::Neg => "-",
                    UnOp::Not => "!",
                });
                let neg_start = match &a.k {
                    EK::Un(UnOp::Neg, _) => true,
                    EK::Lit(Lit::Int { v, .. }) => *v < 0,
                    EK::Lit(Lit::Float { text, .. }) => text.starts_with('-'),
                    _ => false,
                };
                if matches!(a.k, EK::Un(..)) && !neg_start {
                    self.expr(a, 0);
                } else {
                    self.operand(a);
                }
            }
            EK::Bin(op, l, r) => {
                self.bin_child(*op, l, false);
                self.w(" ");
                self.w(op.sym());
                self.w(" ");
                self.bin_child(*op, r, true);
            }
            EK::If(c, t, el) => {
                self.w("if ");
                self.expr_no_records(c);
                self.w(" ");
                self.block(t);
                if let Some(el) = el {
                    self.w(" else ");
                    // `else if` chain when the else block is exactly one if-expression
                    if el.stmts.is_empty()
                        && let Some(t) = &el.tail
                        && matches!(t.k, EK::If(..))
                        && self.flip(1, 2)
                    {
                        self.expr(t, 0);
                    } else {
                        self.block(el);
                    }
                }
            }
            EK::Match(s, arms) => {
                self.w("match ");
                self.expr_no_records(s);
                self.w(" {");
                self.ind += 1;
                let n = arms.len();
                for (i, a) in arms.iter().enumerate() {
                    self.nl();
                    if a.variant.is_none() {
                        self.w("_");
                    } else {
                        self.w(&a.variant_name);
                        if !a.binds.is_empty() {
                            self.w("(");
                            self.w(&a.binds.join(", "));
                            self.w(")");
                        }
                    }
                    if let Some(g) = &a.guard {
                        self.w(" if ");
                        self.expr(g, 0);
                    }
                    self.w(" => ");
                    let simple = a.body.stmts.is_empty()
                        && a.body.tail.as_ref().is_some_and(|t| {
                            !matches!(t.k, EK::RecLit(None, _) | EK::Block(_))
                                && !Self::starts_with_curly(t)
                        });
                    if simple && self.flip(1, 2) {
                        self.expr(a.body.tail.as_ref().unwrap(), 0);
                        if i + 1 < n || self.flip(1, 2) {
                            self.w(",");
                        }
                    } else {
                        self.block(&a.body);
                        if self.flip(1, 4) {
                            self.w(",");
                        }
                    }
                }
                self.ind -= 1;
                self.nl();
                self.w("}");
            }
            EK::Call(f, args) => {
                let name = self.prog.fns[*f].name.clone();
                self.w(&name);
                self.args(args);
            }
            EK::Host(name, args) => {
                self.w(name);
                self.args(args);
            }
            EK::Method(r, name, args) => {
                self.operand(r);
                self.w(".");
                self.w(name);
                self.args(args);
            }
            EK::RecLit(d, fields) => {
                if let Some(d) = d {
                    let name = self.prog.type_name(*d).to_string();
                    self.w(&name);
                    self.w(" ");
                }
                self.w("{ ");
                for (i, (n, v)) in fields.iter().enumerate() {
                    if i > 0 {
                        self.w(", ");
                    }
                    self.w(n);
                    self.w(": ");
                    self.expr(v, 0);
                }
                if !fields.is_empty() && self.flip(1, 8) {
                    self.w(",");
                }
                self.w(" }");
            }
            EK::Ctor(c, args) => {
                match c {
                    Ctor::Some => {
                        if self.flip(1, 4) {
                            self.w("Option.");
                        }
                        self.w("Some");
                    }
                    Ctor::None => {
                        if self.flip(1, 4) {
                            self.w("Option.");
                        }
                        self.w("None");
                    }
                    Ctor::Variant(d, _, v) => {
                        let (tn, vn) = match &self.prog.types[*d] {
                            TypeDecl::Enum { name, variants, .. } => (name.clone(), variants[*v].0.clone()),
                            _ => unreachable!(),
                        };
                        self.w(&tn);
                        self.w(".");
                        self.w(&vn);
                    }
                    Ctor::Accept => self.w("Verdict.Accept"),
                    Ctor::Reject => self.w("Verdict.Reject"),
                }
                if !args.is_empty() {
                    self.args(args);
                }
            }
            EK::ListLit(xs) => {
                self.w("[");
                for (i, x) in xs.iter().enumerate() {
                    if i > 0 {
                        self.w(", ");
                    }
                    self.expr(x, 0);
                }
                self.w("]");
            }
            EK::FStr(parts) => {
                self.w("f\"");
                for p in parts {
                    match p {
                        FPart::Text(t) => {
                            let mut s = String::new();
                            for c in t.chars() {
                                match c {
                                    '{' => s.push_str("{{"),
                                    '}' => s.push_str("}}"),
                                    c => esc_char(c, '"', &mut s),
                                }
                            }
                            self.w(&s);
                        }
                        FPart::Expr(e) => {
                            // `{{` and `}}` are escapes: keep braces of the
                            // expression away from the delimiters
                            let mut sub = Printer { prog: self.prog, rng: None, out: String::new(), ind: self.ind };
                            sub.expr(e, 0);
                            let t = sub.out;
                            self.w("{");
                            if t.starts_with('{') {
                                self.w(" ");
                            }
                            self.w(&t);
                            if t.ends_with('}') {
                                self.w(" ");
                            }
                            self.w("}");
                        }
                    }
                }
                self.w("\"");
            }
            EK::Block(b) => {
                if b.stmts.is_empty() && b.tail.is_none() {
                    // `{}` in expression position is an empty record literal
                    self.w("{ () }");
                } else {
                    self.block(b)
                }
            }
            EK::Ret(k, v) => {
                self.w(match k {
                    RetKind::Return => "return",
                    RetKind::Accept => "accept",
                    RetKind::Reject => "reject",
                });
                if let Some(v) = v {
                    self.w(" ");
                    // `return <expr>` for every expression (the documentation gives no
                    // restriction); now and then in redundant parentheses
                    if self.flip(1, 5) {
                        self.w("(");
                        self.expr(v, 0);
                        self.w(")");
                    } else {
                        self.expr(v, 0);
                    }
                }
            }
            EK::Try(a) => {
                self.operand(a);
                self.w("?");
            }
            EK::Assign(p, v) => {
                self.place(p);
                self.w(" = ");
                self.expr(v, 0);
            }
            EK::CompAssign(p, op, v) => {
                self.place(p);
                self.w(" ");
                self.w(op.sym());
                self.w("= ");
                self.expr(v, 0);
            }
            EK::While(c, b) => {
                self.w("while ");
                self.expr_no_records(c);
                self.w(" ");
                self.block(b);
            }
            EK::For(v, it, b) => {
                self.w("for ");
                self.w(v);
                self.w(" in ");
                self.expr_no_records(it);
                self.w(" ");
                self.block(b);
            }
            EK::Paren(a) => {
                self.w("(");
                self.expr(a, 0);
                self.w(")");
            }
        }
    }

    fn starts_with_curly(e: &Expr) -> bool {
        match &e.k {
            EK::RecLit(None, _) | EK::Block(_) => true,
            EK::Bin(_, l, _) => Self::starts_with_curly(l),
            EK::Field(b, _) | EK::Try(b) => Self::starts_with_curly(b),
            EK::Method(r, _, _) => Self::starts_with_curly(r),
            _ => false,
        }
    }

    fn place(&mut self, p: &Place) {
        self.w(&p.root);
        for f in &p.fields {
            self.w(".");
            self.w(f);
        }
    }
}
