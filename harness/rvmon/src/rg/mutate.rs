//! Type-breaking edits on rotogen's typed AST: every mutant is ill-typed *by
//! construction* under the documented typing rules (C07), and doubles as an input
//! family for the totality check (C06).

use super::ast::*;
use crate::rng::Rng;
use crate::val::IntTy;

/// Syntactic position of an expression, as far as typing is concerned.
#[derive(Clone, Copy, Debug, PartialEq, Eq)]
pub enum Pos {
    /// condition of if / while, or a match guard: must be bool
    Cond,
    /// argument of a script or host function: parameter type is declared
    Arg,
    /// right operand of an arithmetic or ordering operator
    BinRight,
    /// field value in a *named* record literal
    NamedField,
    /// element i >= 1 of a list literal
    LaterElem,
    /// right-hand side of an assignment
    AssignRhs,
    /// initialiser of an annotated let
    AnnotatedLet,
    /// tail / return value of a function with declared return type
    Returned,
    /// anything else (type not fixed by a documented rule at this position)
    Other,
}

pub const EDIT_KINDS: [&str; 22] = [
    "mismatch-cond",
    "mismatch-arg",
    "mismatch-operand",
    "mismatch-field",
    "mismatch-element",
    "mismatch-assigned",
    "mismatch-let",
    "mismatch-return",
    "arg-count-extra",
    "arg-count-missing",
    "unknown-name",
    "field-missing",
    "field-duplicate",
    "field-unknown",
    "match-nonexhaustive",
    "match-arm-after-default",
    "negate-unsigned",
    "arith-on-bool",
    "order-on-char",
    "rem-on-float",
    "question-mark-outside-option-fn",
    "redeclare-in-scope",
];

/// Item-level edits (applied on the program, not on an expression site)
pub const ITEM_EDITS: [&str; 9] = [
    "accept-in-fn",
    "return-in-const",
    "assign-to-const",
    "assign-to-function",
    "recursive-record-direct",
    "recursive-record-mutual",
    "recursive-record-through-option",
    "const-depends-on-itself",
    "const-cycle-through-function",
];

fn bool_lit() -> Expr {
    Expr::boolean(true)
}

fn int_lit() -> Expr {
    Expr::new(Ty::Int(IntTy::I32), EK::Lit(Lit::Int { v: 7, suffix: false, hex: false, under: false }))
}

/// An expression whose type cannot equal `expected`.
fn non_unifiable(expected: &Ty) -> Expr {
    match expected {
        Ty::Bool => int_lit(),
        _ => bool_lit(),
    }
}

struct Walker<'a> {
    /// None: count sites; Some(n): apply at the n-th site
    target: Option<usize>,
    n: usize,
    kind: &'a str,
    done: bool,
    fns: Vec<(usize, Ty)>, // (param count, ret) per function
    rng_word: u64,
}

impl Walker<'_> {
    fn hit(&mut self) -> bool {
        let me = self.n;
        self.n += 1;
        if self.target == Some(me) {
            self.done = true;
            true
        } else {
            false
        }
    }

    fn block(&mut self, b: &mut Block, ret: Option<&Ty>) {
        if self.kind == "redeclare-in-scope" {
            // duplicate a let in the same scope
            let lets: Vec<usize> = b.stmts.iter().enumerate().filter(|(_, s)| matches!(s, Stmt::Let(..))).map(|(i, _)| i).collect();
            for i in lets {
                if self.done {
                    return;
                }
                if self.hit() {
                    let s = b.stmts[i].clone();
                    b.stmts.insert(i + 1, s);
                    return;
                }
            }
        }
        if self.kind == "question-mark-outside-option-fn" && ret.is_some_and(|r| !matches!(r, Ty::Opt(_))) && self.hit() {
            let some = Expr::new(Ty::opt(Ty::Int(IntTy::I32)), EK::Ctor(Ctor::Some, vec![int_lit()]));
            let q = Expr::new(Ty::Int(IntTy::I32), EK::Try(Box::new(some)));
            b.stmts.insert(0, Stmt::Expr(q));
            return;
        }
        for s in b.stmts.iter_mut() {
            if self.done {
                return;
            }
            match s {
                Stmt::Let(_, Some(_), e) => self.expr(e, Pos::AnnotatedLet, ret),
                Stmt::Let(_, None, e) | Stmt::Expr(e) => self.expr(e, Pos::Other, ret),
            }
        }
        if let Some(t) = b.tail.as_mut() {
            // the tail of a nested block inherits "Other": only the function body's
            // tail is checked against the declared return type (handled by caller)
            self.expr(t, Pos::Other, ret);
        }
    }

    fn expr(&mut self, e: &mut Expr, pos: Pos, ret: Option<&Ty>) {
        if self.done {
            return;
        }
        // --- edits that replace the expression at a typed position ---
        let wanted = match pos {
            Pos::Cond => "mismatch-cond",
            Pos::Arg => "mismatch-arg",
            Pos::BinRight => "mismatch-operand",
            Pos::NamedField => "mismatch-field",
            Pos::LaterElem => "mismatch-element",
            Pos::AssignRhs => "mismatch-assigned",
            Pos::AnnotatedLet => "mismatch-let",
            Pos::Returned => "mismatch-return",
            Pos::Other => "",
        };
        if self.kind == wanted && !matches!(e.ty, Ty::Unit) && self.hit() {
            let expected = if pos == Pos::Cond { Ty::Bool } else { e.ty.clone() };
            *e = non_unifiable(&expected);
            return;
        }
        // --- edits keyed on the node itself ---
        match (&mut e.k, self.kind) {
            (EK::Call(f, args), "arg-count-extra") => {
                let _ = f;
                if self.hit() {
                    args.push(int_lit());
                    return;
                }
            }
            (EK::Call(_, args), "arg-count-missing") if !args.is_empty() => {
                if self.hit() {
                    args.pop();
                    return;
                }
            }
            (EK::Path(root, fields), "unknown-name") if fields.is_empty() && pos != Pos::Other => {
                if self.hit() {
                    *root = format!("zz_undefined_{}", self.rng_word % 1000);
                    return;
                }
            }
            (EK::RecLit(Some(_), fs), "field-missing") if !fs.is_empty() => {
                if self.hit() {
                    fs.pop();
                    return;
                }
            }
            (EK::RecLit(_, fs), "field-duplicate") if !fs.is_empty() => {
                if self.hit() {
                    let f = fs[0].clone();
                    fs.push(f);
                    return;
                }
            }
            (EK::RecLit(Some(_), fs), "field-unknown") if !fs.is_empty() => {
                if self.hit() {
                    fs[0].0 = "zz_nofield".into();
                    return;
                }
            }
            (EK::Match(_, arms), "match-nonexhaustive") => {
                // removing the only unguarded arm of a variant (when there is no `_`)
                let has_default = arms.iter().any(|a| a.variant.is_none());
                if !has_default {
                    let cand: Vec<usize> = (0..arms.len())
                        .filter(|&i| {
                            arms[i].guard.is_none()
                                && arms.iter().enumerate().all(|(j, b)| j == i || b.variant != arms[i].variant || b.guard.is_some())
                        })
                        .collect();
                    if !cand.is_empty() && self.hit() {
                        let i = cand[(self.rng_word as usize) % cand.len()];
                        arms.remove(i);
                        return;
                    }
                }
            }
            (EK::Match(_, arms), "match-arm-after-default") => {
                if let Some(d) = arms.iter().position(|a| a.variant.is_none() && a.guard.is_none())
                    && self.hit()
                {
                    let extra = arms[d].clone();
                    arms.push(extra);
                    return;
                }
            }
            (EK::Path(_, fields), "negate-unsigned")
                if fields.is_empty() && matches!(&e.ty, Ty::Int(t) if !t.signed()) && pos != Pos::Other =>
            {
                if self.hit() {
                    let inner = e.clone();
                    *e = Expr::new(inner.ty.clone(), EK::Un(UnOp::Neg, Box::new(inner)));
                    return;
                }
            }
            (_, "arith-on-bool") if e.ty == Ty::Bool && pos == Pos::Cond => {
                if self.hit() {
                    let inner = e.clone();
                    *e = Expr::new(Ty::Bool, EK::Bin(BinOp::Add, Box::new(Expr::new(Ty::Bool, EK::Paren(Box::new(inner)))), Box::new(bool_lit())));
                    return;
                }
            }
            (_, "order-on-char") if e.ty == Ty::Bool && pos == Pos::Cond => {
                if self.hit() {
                    let c = |ch| Expr::new(Ty::Char, EK::Lit(Lit::Char(ch)));
                    *e = Expr::new(Ty::Bool, EK::Bin(BinOp::Lt, Box::new(c('a')), Box::new(c('b'))));
                    return;
                }
            }
            (EK::Bin(op, _, _), "rem-on-float") if e.ty.is_float() && op.is_arith() => {
                if self.hit() {
                    *op = BinOp::Mod;
                    return;
                }
            }
            _ => {}
        }
        // --- recurse ---
        match &mut e.k {
            EK::Lit(_) | EK::Path(..) => {}
            EK::Field(a, _) | EK::Un(_, a) | EK::Try(a) | EK::Paren(a) => self.expr(a, Pos::Other, ret),
            EK::Bin(op, a, b) => {
                self.expr(a, Pos::Other, ret);
                // String + and List + are legal; so is IpAddr /
                let plain = (op.is_arith() && a.ty.is_numeric()) || (op.is_cmp() && a.ty.is_numeric());
                self.expr(b, if plain { Pos::BinRight } else { Pos::Other }, ret);
            }
            EK::If(c, t, el) => {
                self.expr(c, Pos::Cond, ret);
                self.block(t, ret);
                if let Some(el) = el {
                    self.block(el, ret);
                }
            }
            EK::Match(s, arms) => {
                self.expr(s, Pos::Other, ret);
                for a in arms.iter_mut() {
                    if let Some(g) = a.guard.as_mut() {
                        self.expr(g, Pos::Cond, ret);
                    }
                    self.block(&mut a.body, ret);
                }
            }
            EK::Call(_, args) | EK::Host(_, args) => {
                for a in args.iter_mut() {
                    self.expr(a, Pos::Arg, ret);
                }
            }
            EK::Ctor(_, args) => {
                for a in args.iter_mut() {
                    self.expr(a, Pos::Other, ret);
                }
            }
            EK::ListLit(xs) => {
                for (i, a) in xs.iter_mut().enumerate() {
                    self.expr(a, if i == 0 { Pos::Other } else { Pos::LaterElem }, ret);
                }
            }
            EK::Method(r, _, args) => {
                self.expr(r, Pos::Other, ret);
                for a in args.iter_mut() {
                    self.expr(a, Pos::Other, ret);
                }
            }
            EK::RecLit(d, fs) => {
                // a field of a generic record may have a type parameter as type:
                // another value there only instantiates the parameter differently
                let named = d.is_some() && matches!(&e.ty, Ty::Named(_, a) if a.is_empty());
                for (_, a) in fs.iter_mut() {
                    self.expr(a, if named { Pos::NamedField } else { Pos::Other }, ret);
                }
            }
            EK::FStr(ps) => {
                for p in ps.iter_mut() {
                    if let FPart::Expr(a) = p {
                        self.expr(a, Pos::Other, ret);
                    }
                }
            }
            EK::Block(b) => self.block(b, ret),
            EK::Ret(RetKind::Return, Some(v)) => self.expr(v, Pos::Returned, ret),
            EK::Ret(_, v) => {
                if let Some(v) = v {
                    self.expr(v, Pos::Other, ret);
                }
            }
            EK::Assign(_, v) => self.expr(v, Pos::AssignRhs, ret),
            EK::CompAssign(_, _, v) => self.expr(v, Pos::BinRight, ret),
            EK::While(c, b) => {
                self.expr(c, Pos::Cond, ret);
                self.block(b, ret);
            }
            EK::For(_, it, b) => {
                self.expr(it, Pos::Other, ret);
                self.block(b, ret);
            }
        }
    }

    fn program(&mut self, p: &mut Program) {
        for f in p.fns.iter_mut() {
            if self.done {
                return;
            }
            if f.kind != FnKind::Fn {
                continue;
            }
            let ret = f.ret.clone();
            // statements
            let mut body = std::mem::take(&mut f.body);
            let tail = body.tail.take();
            self.block(&mut body, Some(&ret));
            body.tail = tail;
            if let Some(t) = body.tail.as_mut()
                && !self.done
            {
                self.expr(t, if ret == Ty::Unit { Pos::Other } else { Pos::Returned }, Some(&ret));
            }
            f.body = body;
        }
    }
}

fn count_sites(prog: &Program, kind: &str) -> usize {
    let mut p = prog.clone();
    let mut w = Walker { target: None, n: 0, kind, done: false, fns: vec![], rng_word: 0 };
    w.program(&mut p);
    w.n
}

/// Number of distinct sites at which `kind` can be applied to `prog`.
pub fn sites(prog: &Program, kind: &str) -> usize {
    if ITEM_EDITS.contains(&kind) { if item_edit(prog, kind, 0).is_some() { 1 } else { 0 } } else { count_sites(prog, kind) }
}

/// Apply edit `kind` at site `site`. Returns None if not applicable.
pub fn apply(prog: &Program, kind: &str, site: usize, word: u64) -> Option<Program> {
    if ITEM_EDITS.contains(&kind) {
        return item_edit(prog, kind, word);
    }
    let mut p = prog.clone();
    let mut w = Walker { target: Some(site), n: 0, kind, done: false, fns: vec![], rng_word: word };
    w.program(&mut p);
    if w.done { Some(p) } else { None }
}

fn item_edit(prog: &Program, kind: &str, word: u64) -> Option<Program> {
    let mut p = prog.clone();
    let plain_fns: Vec<usize> = (0..p.fns.len()).filter(|&i| p.fns[i].kind == FnKind::Fn).collect();
    match kind {
        "accept-in-fn" => {
            let i = *plain_fns.get(word as usize % plain_fns.len().max(1))?;
            let e = Expr::new(Ty::Unit, EK::Ret(if word & 1 == 0 { RetKind::Accept } else { RetKind::Reject }, None));
            p.fns[i].body.stmts.insert(0, Stmt::Expr(Expr::new(Ty::Unit, EK::If(Box::new(Expr::boolean(false)), Block { stmts: vec![Stmt::Expr(e)], tail: None }, None))));
        }
        "return-in-const" => {
            let r = Expr::new(Ty::Int(IntTy::I32), EK::Ret(RetKind::Return, Some(Box::new(int_lit()))));
            p.consts.push(ConstDecl { name: "ZZ_RET".into(), ty: Ty::Int(IntTy::I32), init: r });
        }
        "assign-to-const" => {
            p.consts.push(ConstDecl { name: "ZZ_CONST".into(), ty: Ty::Int(IntTy::I32), init: int_lit() });
            let i = *plain_fns.first()?;
            let a = Expr::new(Ty::Unit, EK::Assign(Place { root: "ZZ_CONST".into(), fields: vec![] }, Box::new(int_lit())));
            p.fns[i].body.stmts.insert(0, Stmt::Expr(a));
        }
        "assign-to-function" => {
            let i = *plain_fns.first()?;
            let name = p.fns[i].name.clone();
            let a = Expr::new(Ty::Unit, EK::Assign(Place { root: name, fields: vec![] }, Box::new(int_lit())));
            p.fns[i].body.stmts.insert(0, Stmt::Expr(a));
        }
        "recursive-record-direct" => {
            let d = p.types.len();
            p.types.push(TypeDecl::Record { name: "ZzRec".into(), params: vec![], fields: vec![("x".into(), Ty::Named(d, vec![]))] });
        }
        "recursive-record-mutual" => {
            let d = p.types.len();
            p.types.push(TypeDecl::Record { name: "ZzRecA".into(), params: vec![], fields: vec![("x".into(), Ty::Named(d + 1, vec![]))] });
            p.types.push(TypeDecl::Enum { name: "ZzRecB".into(), params: vec![], variants: vec![("ZzV".into(), vec![Ty::Named(d, vec![])])] });
        }
        "recursive-record-through-option" => {
            let d = p.types.len();
            p.types.push(TypeDecl::Record {
                name: "ZzRecO".into(),
                params: vec![],
                fields: vec![("y".into(), Ty::Int(IntTy::U8)), ("x".into(), Ty::opt(Ty::Named(d, vec![])))],
            });
        }
        "const-depends-on-itself" => {
            let me = Expr::var("ZZ_SELF", Ty::Int(IntTy::I32));
            let init = Expr::new(Ty::Int(IntTy::I32), EK::Bin(BinOp::Add, Box::new(me), Box::new(int_lit())));
            p.consts.push(ConstDecl { name: "ZZ_SELF".into(), ty: Ty::Int(IntTy::I32), init });
        }
        "const-cycle-through-function" => {
            let fi = p.fns.len();
            p.fns.insert(
                0,
                FnDecl {
                    name: "zz_cyc".into(),
                    kind: FnKind::Fn,
                    params: vec![],
                    ret: Ty::Int(IntTy::I32),
                    body: Block { stmts: vec![], tail: Some(Box::new(Expr::var("ZZ_CYC", Ty::Int(IntTy::I32)))) },
                },
            );
            let _ = fi;
            // function indices shift by one
            shift_calls(&mut p, 1);
            let call = Expr::new(Ty::Int(IntTy::I32), EK::Call(0, vec![]));
            p.consts.push(ConstDecl { name: "ZZ_CYC".into(), ty: Ty::Int(IntTy::I32), init: call });
        }
        _ => return None,
    }
    p.item_order.clear();
    Some(p)
}

fn shift_calls(p: &mut Program, by: usize) {
    fn ex(e: &mut Expr, by: usize) {
        if let EK::Call(j, _) = &mut e.k {
            *j += by;
        }
        match &mut e.k {
            EK::Lit(_) | EK::Path(..) => {}
            EK::Field(a, _) | EK::Un(_, a) | EK::Try(a) | EK::Paren(a) => ex(a, by),
            EK::Bin(_, a, b) => {
                ex(a, by);
                ex(b, by);
            }
            EK::If(c, t, el) => {
                ex(c, by);
                bl(t, by);
                if let Some(el) = el {
                    bl(el, by);
                }
            }
            EK::Match(s, arms) => {
                ex(s, by);
                for a in arms.iter_mut() {
                    if let Some(g) = a.guard.as_mut() {
                        ex(g, by);
                    }
                    bl(&mut a.body, by);
                }
            }
            EK::Call(_, args) | EK::Host(_, args) | EK::Ctor(_, args) | EK::ListLit(args) => {
                for a in args.iter_mut() {
                    ex(a, by);
                }
            }
            EK::Method(r, _, args) => {
                ex(r, by);
                for a in args.iter_mut() {
                    ex(a, by);
                }
            }
            EK::RecLit(_, fs) => {
                for (_, a) in fs.iter_mut() {
                    ex(a, by);
                }
            }
            EK::FStr(ps) => {
                for p in ps.iter_mut() {
                    if let FPart::Expr(a) = p {
                        ex(a, by);
                    }
                }
            }
            EK::Block(b) => bl(b, by),
            EK::Ret(_, v) => {
                if let Some(v) = v {
                    ex(v, by);
                }
            }
            EK::Assign(_, v) | EK::CompAssign(_, _, v) => ex(v, by),
            EK::While(c, b) => {
                ex(c, by);
                bl(b, by);
            }
            EK::For(_, it, b) => {
                ex(it, by);
                bl(b, by);
            }
        }
    }
    fn bl(b: &mut Block, by: usize) {
        for s in b.stmts.iter_mut() {
            match s {
                Stmt::Let(_, _, e) | Stmt::Expr(e) => ex(e, by),
            }
        }
        if let Some(t) = b.tail.as_mut() {
            ex(t, by);
        }
    }
    for (i, f) in p.fns.iter_mut().enumerate() {
        if i == 0 {
            continue;
        }
        bl(&mut f.body, by);
    }
    for c in p.consts.iter_mut() {
        ex(&mut c.init, by);
    }
}

pub fn pick_edit(rng: &mut Rng) -> &'static str {
    let n = EDIT_KINDS.len() + ITEM_EDITS.len();
    let i = rng.usize(n);
    if i < EDIT_KINDS.len() { EDIT_KINDS[i] } else { ITEM_EDITS[i - EDIT_KINDS.len()] }
}
