//! Type-breaking edits on rotogen's typed AST: every mutant is ill-typed *by
//! construction* under the documented typing rules (C07), and doubles as an input
//! family for the totality check (C06).

use std::collections::{HashMap, HashSet};

use super::ast::*;
use crate::rng::Rng;
use crate::val::IntTy;

/// Syntactic position of an expression, as far as typing is concerned.
#[derive(Clone, Copy, Debug, PartialEq, Eq)]
pub enum Pos {
    /// condition of if / while, or a match guard: must be bool
    Cond,
    /// argument of a script or host function: parameter type is declared
    Arg,
    /// right operand of an arithmetic or ordering operator
    BinRight,
    /// field value in a *named* record literal
    NamedField,
    /// element i >= 1 of a list literal
    LaterElem,
    /// right-hand side of an assignment
    AssignRhs,
    /// initialiser of an annotated let
    AnnotatedLet,
    /// tail / return value of a function with declared return type
    Returned,
    /// anything else (type not fixed by a documented rule at this position)
    Other,
}

pub const EDIT_KINDS: [&str; 35] = [
    "mismatch-cond",
    "mismatch-arg",
    "mismatch-operand",
    "mismatch-field",
    "mismatch-element",
    "mismatch-assigned",
    "mismatch-let",
    "mismatch-return",
    "arg-count-extra",
    "arg-count-missing",
    "unknown-name",
    "field-missing",
    "field-duplicate",
    "field-unknown",
    "match-nonexhaustive",
    "match-arm-after-default",
    "negate-unsigned",
    // A negated un-suffixed literal whose type is still open when it is negated, is
    // unified with another un-suffixed literal first, and only then meets the unsigned
    // type that the context fixes: `(-5 + 3)`, `(-6 * 2)`, `(if true { -4 } else { 2 })`,
    // `{ let zz_n = -7; let zz_m = zz_n + 1; zz_m }` in place of an expression of an
    // unsigned integer type at a position whose type the context declares.
    "negate-literal-unsigned-later",
    "arith-on-bool",
    "order-on-char",
    "rem-on-float",
    "question-mark-outside-option-fn",
    "redeclare-in-scope",
    // A non-exhaustive match obtained by *retargeting* arms instead of deleting them.
    // In a match without an unguarded `_` arm, take 1..k variants X whose only
    // unguarded arm is arm A(X), and give each A(X) the pattern of another variant Y
    // that keeps its own arms (Y is never one of the X). Every X is then left without
    // an unguarded arm (guarded arms and guarded `_` arms may fail and never cover a
    // variant), so the match is not exhaustive, although it has as many unguarded
    // arms as before. The new arm is well typed in that place:
    // keep-body: X has no payload (its body names no binder; Y's payload gets fresh
    //            binders), or X and Y have the same payload types (binders kept);
    // copy-arm:  a copy of an arm of Y (guard dropped), whose body was typed in the
    //            same enclosing scope with Y's binders; the binders may be renamed
    //            consistently to fresh names.
    // Control program: the new arm is added in front of A(X) instead of replacing it
    // (complete match with a repeated arm: accepted, with a warning).
    "match-retarget-keep-body",
    "match-retarget-copy-arm",
    // A name used in a *sibling* scope of the one that declares it. The name is
    // declared by a `let` directly in the source block (or by the pattern of the source
    // arm / the variable of the source `for`), and nothing else in the function or at
    // top level declares that name, so no binding of it can be visible at the use,
    // which is a plain read of the name (`let zz_use = n;`, the same with the type
    // annotated, `n;`, or in a condition `n`, `n == n`, `{ let zz_use = n; true }`)
    // put at a reachable place (before the first statement that may return).
    // Control program: the same read right after the declaration, plus a marker
    // statement `let zz_pos = true;` where the mutant has the read.
    //   then-to-else / else-to-then: between the two blocks of one if-else
    //   then-to-elseif-cond / -body: into the condition / a block of an `else if`
    //       link of the chain that follows (an existing chain, or `else {E}` is first
    //       rewritten to `else if c {E} .. else {E}`, in mutant and control alike)
    //   arm-to-arm-guard / -body: into the guard (an existing one, or the guard of a
    //       guarded copy of the arm put in front of it) / the body of another arm
    //   then- / loop- / block- / arm-to-after: from the then block, `while`/`for` body
    //       (or the `for` variable), inner block, arm of statement i of a block to a
    //       later place in that block
    "scope-then-to-else",
    "scope-else-to-then",
    "scope-then-to-elseif-cond",
    "scope-then-to-elseif-body",
    "scope-arm-to-arm-guard",
    "scope-arm-to-arm-body",
    "scope-then-to-after",
    "scope-loop-to-after",
    "scope-block-to-after",
    "scope-arm-to-after",
];

/// Item-level edits (applied on the program, not on an expression site)
pub const ITEM_EDITS: [&str; 12] = [
    "accept-in-fn",
    "return-in-const",
    "assign-to-const",
    "assign-to-function",
    "recursive-record-direct",
    "recursive-record-mutual",
    "recursive-record-through-option",
    "const-depends-on-itself",
    "const-cycle-through-function",
    // A constant that depends on itself through a *group* of 2-4 new functions with a
    // random call graph: `const K = g_i();`, every function's body is the sum of calls
    // to a random subset of the group (mutual recursion, self calls, several strongly
    // connected shapes) and at least one function reachable from g_i mentions K. Names
    // get a random suffix and the new items are printed at random places among the old
    // ones in random relative order (cycle detection walks items in an order that
    // depends on both). Optionally a second constant sits between K and the group.
    "const-cycle-through-function-group",
    // A type that contains itself only through the argument of a generic (Option, List,
    // a new generic record or enum), directly or through a second new type, as record
    // field or enum payload, with 0-2 *harmless* uses of the same generic (other
    // arguments) before and after the recursive mention.
    "recursive-type-through-generic",
    // generated programs have no local of type Verdict: a synthesised function
    // matches on a Verdict parameter, and one of its two arms is retargeted
    "match-retarget-verdict",
];

fn bool_lit() -> Expr {
    Expr::boolean(true)
}

fn int_lit() -> Expr {
    Expr::new(Ty::Int(IntTy::I32), EK::Lit(Lit::Int { v: 7, suffix: false, hex: false, under: false }))
}

/// An expression whose type cannot equal `expected`: one entry, chosen by `m`, of a
/// palette of expressions of *closed* types (no un-suffixed literal where `expected` is
/// numeric, never `!`-typed) that differ from `expected` in their outermost constructor
/// or, for numbers, in their declared width. Returns the name of the entry (coverage tag).
///
/// The palette deliberately goes beyond "a bool where a number is wanted": unit-typed
/// *statement-like* expressions in value position (`while`, `for`, `if` without `else`,
/// a block that ends in a statement), the unit literal, suffixed literals of another
/// width, the expected value wrapped in `Some(..)` / `[..]`, `None`, strings, chars and
/// anonymous records. Each entry was checked to be refused with "mismatched types" by the
/// unchanged tree at every one of the eight typed positions.
fn non_unifiable(expected: &Ty, orig: &Expr, pos: Pos, m: &mut Mix) -> (Expr, &'static str) {
    let mut pal: Vec<(&'static str, Expr)> = Vec::new();
    let lit_int = |t: IntTy, v: i128| Expr::int(t, v);
    let flt = |ty: Ty, text: &str, suffix: bool| Expr::new(ty, EK::Lit(Lit::Float { text: text.to_string(), suffix }));
    let unit_like = !matches!(expected, Ty::Unit);
    if *expected != Ty::Bool {
        pal.push(("bool", bool_lit()));
    }
    if !expected.is_numeric() {
        // an un-suffixed literal is an open integer type: only where no number fits
        pal.push(("int-unsuffixed", int_lit()));
        pal.push(("float-unsuffixed", flt(Ty::F64, "7.5", false)));
    }
    // Literals of another *width* are wrong only where a declaration pins the expected type
    // (parameter, annotated let, return type). A variable initialised by an un-suffixed literal
    // (`let cnt = 0;`) has an open numeric type that a later `cnt += 7u32` legitimately fixes,
    // so at operands, elements, assigned values and fields of generic records the numeric
    // entries are left out when a number is expected.
    let pinned = matches!(pos, Pos::Arg | Pos::AnnotatedLet | Pos::Returned) || !expected.is_numeric();
    // a suffixed integer literal of another width / signedness
    let other_int = match expected {
        Ty::Int(IntTy::U8) => IntTy::I64,
        Ty::Int(IntTy::I64) => IntTy::U8,
        Ty::Int(IntTy::I32) => IntTy::U32,
        Ty::Int(IntTy::U32) => IntTy::I32,
        Ty::Int(_) => IntTy::I32,
        _ => IntTy::U8,
    };
    if pinned {
        pal.push(("int-suffixed-other-width", lit_int(other_int, 7)));
        match expected {
            Ty::F32 => pal.push(("float-suffixed-other-width", flt(Ty::F64, "7.5", true))),
            Ty::F64 => pal.push(("float-suffixed-other-width", flt(Ty::F32, "7.5", true))),
            Ty::Int(_) => pal.push(("float-for-int", flt(Ty::F64, "7.5", false))),
            _ => {}
        }
        if expected.is_float() {
            pal.push(("int-for-float", int_lit()));
        }
    }
    if *expected != Ty::Str {
        pal.push(("string", Expr::new(Ty::Str, EK::Lit(Lit::Str("s".to_string())))));
    }
    if *expected != Ty::Char {
        pal.push(("char", Expr::new(Ty::Char, EK::Lit(Lit::Char('c')))));
    }
    if unit_like {
        pal.push(("unit-literal", Expr::unit()));
        pal.push(("while-loop", Expr::new(Ty::Unit, EK::While(Box::new(Expr::boolean(false)), Block::default()))));
        pal.push((
            "for-loop",
            Expr::new(
                Ty::Unit,
                EK::For(
                    "zz_i".to_string(),
                    Box::new(Expr::new(Ty::list(Ty::Int(IntTy::I32)), EK::ListLit(vec![int_lit()]))),
                    Block::default(),
                ),
            ),
        ));
        pal.push(("if-without-else", Expr::new(Ty::Unit, EK::If(Box::new(Expr::boolean(true)), Block::default(), None))));
        pal.push((
            "block-ending-in-statement",
            Expr::new(
                Ty::Unit,
                EK::Block(Block { stmts: vec![Stmt::Let("zz_a".to_string(), None, int_lit())], tail: None }),
            ),
        ));
    }
    if !matches!(expected, Ty::Opt(_)) {
        pal.push(("none", Expr::new(Ty::opt(Ty::Int(IntTy::I32)), EK::Ctor(Ctor::None, vec![]))));
    }
    // the value itself, wrapped once more: Some(e) / [e] have the types T? / List[T]. Not where
    // an option / a list is expected: a polymorphic `e` (None, [], a literal) then simply takes
    // the type one level down and `Some(None): T??` is well typed.
    if orig.ty == *expected && !matches!(expected, Ty::Unit) {
        if !matches!(expected, Ty::Opt(_)) {
            pal.push(("wrapped-in-some", Expr::new(Ty::opt(expected.clone()), EK::Ctor(Ctor::Some, vec![orig.clone()]))));
        }
        if !matches!(expected, Ty::List(_)) {
            pal.push(("wrapped-in-list", Expr::new(Ty::list(expected.clone()), EK::ListLit(vec![orig.clone()]))));
        }
    }
    // anonymous records coerce to named records with the same fields: only where no record fits
    if !matches!(expected, Ty::Anon(_) | Ty::Named(..)) {
        pal.push((
            "anonymous-record",
            Expr::new(Ty::Anon(vec![("zz_f".to_string(), Ty::Int(IntTy::I32))]), EK::RecLit(None, vec![("zz_f".to_string(), int_lit())])),
        ));
    }
    let i = m.below(pal.len());
    let (name, e) = pal.swap_remove(i);
    (e, name)
}

struct Walker<'a> {
    /// None: count sites; Some(n): apply at the n-th site
    target: Option<usize>,
    n: usize,
    kind: &'a str,
    done: bool,
    fns: Vec<(usize, Ty)>, // (param count, ret) per function
    rng_word: u64,
    /// type declarations of the program (for the payload types of variants)
    tp: Program,
    /// how often each name is declared (parameter, let, pattern or loop binder) in
    /// the function that is being walked
    decls: HashMap<String, u32>,
    /// names of constants and functions
    globals: HashSet<String>,
    /// build the *control* program instead of the mutant: the same edit, but done so
    /// that the typing rule is respected (the use stays inside the scope of the
    /// declaration; the retargeted arm is added next to the arm it would replace)
    control: bool,
    /// details of the applied edit (coverage tags)
    tags: Vec<String>,
}

/// splitmix64 over the edit word: the choices inside one edit
struct Mix(u64);

impl Mix {
    fn next(&mut self) -> u64 {
        self.0 = self.0.wrapping_add(0x9e37_79b9_7f4a_7c15);
        let mut z = self.0;
        z = (z ^ (z >> 30)).wrapping_mul(0xbf58_476d_1ce4_e5b9);
        z = (z ^ (z >> 27)).wrapping_mul(0x94d0_49bb_1331_11eb);
        z ^ (z >> 31)
    }
    fn below(&mut self, n: usize) -> usize {
        if n == 0 { 0 } else { (self.next() % n as u64) as usize }
    }
}

/// Where a name is declared inside its scope.
#[derive(Clone, Debug)]
enum Decl {
    /// `let` statement number i of the block
    Let(usize),
    /// binder of the pattern of a match arm
    Binder,
    /// loop variable of a `for`
    ForVar,
}

#[derive(Clone, Debug)]
struct Cand {
    name: String,
    ty: Ty,
    decl: Decl,
}

impl Cand {
    fn var(&self) -> Expr {
        Expr::var(&self.name, self.ty.clone())
    }
    fn src_tag(&self) -> &'static str {
        match self.decl {
            Decl::Let(_) => "let",
            Decl::Binder => "arm-binder",
            Decl::ForVar => "for-binder",
        }
    }
    /// a statement that reads the name
    fn use_stmt(&self, m: &mut Mix) -> (Stmt, &'static str) {
        match m.below(3) {
            0 => (Stmt::Let("zz_use".into(), None, self.var()), "let"),
            1 => (Stmt::Let("zz_use".into(), Some(self.ty.clone()), self.var()), "let-annotated"),
            _ => (Stmt::Expr(self.var()), "expr-stmt"),
        }
    }
    /// a boolean expression that reads the name
    fn use_cond(&self, m: &mut Mix) -> (Expr, &'static str) {
        let eq = || Expr::new(Ty::Bool, EK::Bin(BinOp::Eq, Box::new(self.var()), Box::new(self.var())));
        let blk = || {
            let b = Block { stmts: vec![Stmt::Let("zz_use".into(), None, self.var())], tail: Some(Box::new(Expr::boolean(true))) };
            Expr::new(Ty::Bool, EK::Block(b))
        };
        match &self.ty {
            Ty::Bool => match m.below(3) {
                0 => (self.var(), "bool"),
                1 => (eq(), "eq"),
                _ => (blk(), "block"),
            },
            Ty::Int(_) | Ty::F32 | Ty::F64 | Ty::Char | Ty::Str => {
                if m.below(2) == 0 {
                    (eq(), "eq")
                } else {
                    (blk(), "block")
                }
            }
            _ => (blk(), "block"),
        }
    }
}

fn paren(e: Expr) -> Expr {
    Expr::new(e.ty.clone(), EK::Paren(Box::new(e)))
}

/// `(cond) && (use)` or `(use) && (cond)`
fn conjoin(cond: Expr, u: Expr, m: &mut Mix) -> Expr {
    let (a, b) = if m.below(2) == 0 { (paren(cond), paren(u)) } else { (paren(u), paren(cond)) };
    Expr::new(Ty::Bool, EK::Bin(BinOp::And, Box::new(a), Box::new(b)))
}

/// Read-only traversal: `f` sees every expression, `d` every declared local name.
fn visit_expr(e: &Expr, f: &mut dyn FnMut(&Expr), d: &mut dyn FnMut(&str)) {
    f(e);
    match &e.k {
        EK::Lit(_) | EK::Path(..) => {}
        EK::Field(a, _) | EK::Un(_, a) | EK::Try(a) | EK::Paren(a) => visit_expr(a, f, d),
        EK::Bin(_, a, b) => {
            visit_expr(a, f, d);
            visit_expr(b, f, d);
        }
        EK::If(c, t, el) => {
            visit_expr(c, f, d);
            visit_block(t, f, d);
            if let Some(el) = el {
                visit_block(el, f, d);
            }
        }
        EK::Match(s, arms) => {
            visit_expr(s, f, d);
            for a in arms {
                for b in &a.binds {
                    d(b);
                }
                if let Some(g) = &a.guard {
                    visit_expr(g, f, d);
                }
                visit_block(&a.body, f, d);
            }
        }
        EK::Call(_, args) | EK::Host(_, args) | EK::Ctor(_, args) | EK::ListLit(args) => {
            for a in args {
                visit_expr(a, f, d);
            }
        }
        EK::Method(r, _, args) => {
            visit_expr(r, f, d);
            for a in args {
                visit_expr(a, f, d);
            }
        }
        EK::RecLit(_, fs) => {
            for (_, a) in fs {
                visit_expr(a, f, d);
            }
        }
        EK::FStr(ps) => {
            for p in ps {
                if let FPart::Expr(a) = p {
                    visit_expr(a, f, d);
                }
            }
        }
        EK::Block(b) => visit_block(b, f, d),
        EK::Ret(_, v) => {
            if let Some(v) = v {
                visit_expr(v, f, d);
            }
        }
        EK::Assign(_, v) | EK::CompAssign(_, _, v) => visit_expr(v, f, d),
        EK::While(c, b) => {
            visit_expr(c, f, d);
            visit_block(b, f, d);
        }
        EK::For(v, it, b) => {
            d(v);
            visit_expr(it, f, d);
            visit_block(b, f, d);
        }
    }
}

fn visit_block(b: &Block, f: &mut dyn FnMut(&Expr), d: &mut dyn FnMut(&str)) {
    for s in &b.stmts {
        match s {
            Stmt::Let(n, _, e) => {
                d(n);
                visit_expr(e, f, d);
            }
            Stmt::Expr(e) => visit_expr(e, f, d),
        }
    }
    if let Some(t) = &b.tail {
        visit_expr(t, f, d);
    }
}

/// May control leave this statement early? (conservative: any return / accept /
/// reject anywhere inside). Statements after such a one may be unreachable, and
/// an unreachable statement is an error of its own.
fn stmt_may_diverge(s: &Stmt) -> bool {
    let mut found = false;
    let e = match s {
        Stmt::Let(_, _, e) | Stmt::Expr(e) => e,
    };
    visit_expr(e, &mut |x| found |= matches!(x.k, EK::Ret(..)), &mut |_| {});
    found
}

/// Largest position p >= from such that no statement in from..p may diverge.
fn reach_limit(b: &Block, from: usize) -> usize {
    (from..b.stmts.len()).find(|&i| stmt_may_diverge(&b.stmts[i])).unwrap_or(b.stmts.len())
}

/// Insert a statement into `b` at a reachable position >= from. Returns the position.
fn insert_reachable(b: &mut Block, from: usize, s: Stmt, m: &mut Mix) -> usize {
    let hi = reach_limit(b, from);
    // the two ends are the interesting places
    let pos = match m.below(4) {
        0 => from,
        1 => hi,
        _ => from + m.below(hi - from + 1),
    };
    b.stmts.insert(pos, s);
    pos
}

fn pos_marker() -> Stmt {
    Stmt::Let("zz_pos".into(), None, Expr::boolean(true))
}

/// In the control program: read the name right where it is in scope.
fn control_use(src: &mut Block, c: &Cand, s: Stmt) {
    let at = match c.decl {
        Decl::Let(i) => i + 1,
        Decl::Binder | Decl::ForVar => 0,
    };
    src.stmts.insert(at, s);
}

/// Is this else block exactly one `if` (printed as `else if`)?
fn is_link(b: &Block) -> bool {
    b.stmts.is_empty() && b.tail.as_ref().is_some_and(|t| matches!(t.k, EK::If(..)))
}

/// Number of `else if` links of the chain that starts with this else block
fn chain_len(b: &Block) -> usize {
    if !is_link(b) {
        return 0;
    }
    match &b.tail.as_ref().unwrap().k {
        EK::If(_, _, Some(el)) => 1 + chain_len(el),
        _ => 1,
    }
}

/// The j-th `if` of the chain that starts with else block `b`
fn link_mut(b: &mut Block, j: usize) -> &mut Expr {
    let t = b.tail.as_mut().unwrap();
    if j == 0 {
        return t;
    }
    match &mut t.k {
        EK::If(_, _, Some(el)) => link_mut(el, j - 1),
        _ => unreachable!("chain_len"),
    }
}

/// Rename identifier `from` to `to` everywhere in the arm (alpha-renaming of a
/// binder: `to` is fresh, and `from` is bound by the pattern for the whole arm).
fn rename_block(b: &mut Block, from: &str, to: &str) {
    for s in b.stmts.iter_mut() {
        match s {
            Stmt::Let(n, _, e) => {
                if n == from {
                    *n = to.to_string();
                }
                rename_expr(e, from, to);
            }
            Stmt::Expr(e) => rename_expr(e, from, to),
        }
    }
    if let Some(t) = b.tail.as_mut() {
        rename_expr(t, from, to);
    }
}

fn rename_expr(e: &mut Expr, from: &str, to: &str) {
    match &mut e.k {
        EK::Lit(_) => {}
        EK::Path(r, _) => {
            if r == from {
                *r = to.to_string();
            }
        }
        EK::Field(a, _) | EK::Un(_, a) | EK::Try(a) | EK::Paren(a) => rename_expr(a, from, to),
        EK::Bin(_, a, b) => {
            rename_expr(a, from, to);
            rename_expr(b, from, to);
        }
        EK::If(c, t, el) => {
            rename_expr(c, from, to);
            rename_block(t, from, to);
            if let Some(el) = el {
                rename_block(el, from, to);
            }
        }
        EK::Match(s, arms) => {
            rename_expr(s, from, to);
            for a in arms.iter_mut() {
                for b in a.binds.iter_mut() {
                    if b == from {
                        *b = to.to_string();
                    }
                }
                if let Some(g) = a.guard.as_mut() {
                    rename_expr(g, from, to);
                }
                rename_block(&mut a.body, from, to);
            }
        }
        EK::Call(_, args) | EK::Host(_, args) | EK::Ctor(_, args) | EK::ListLit(args) => {
            for a in args.iter_mut() {
                rename_expr(a, from, to);
            }
        }
        EK::Method(r, _, args) => {
            rename_expr(r, from, to);
            for a in args.iter_mut() {
                rename_expr(a, from, to);
            }
        }
        EK::RecLit(_, fs) => {
            for (_, a) in fs.iter_mut() {
                rename_expr(a, from, to);
            }
        }
        EK::FStr(ps) => {
            for p in ps.iter_mut() {
                if let FPart::Expr(a) = p {
                    rename_expr(a, from, to);
                }
            }
        }
        EK::Block(b) => rename_block(b, from, to),
        EK::Ret(_, v) => {
            if let Some(v) = v {
                rename_expr(v, from, to);
            }
        }
        EK::Assign(p, v) | EK::CompAssign(p, _, v) => {
            if p.root == from {
                p.root = to.to_string();
            }
            rename_expr(v, from, to);
        }
        EK::While(c, b) => {
            rename_expr(c, from, to);
            rename_block(b, from, to);
        }
        EK::For(v, it, b) => {
            if v == from {
                *v = to.to_string();
            }
            rename_expr(it, from, to);
            rename_block(b, from, to);
        }
    }
}

impl Walker<'_> {
    fn hit(&mut self) -> bool {
        let me = self.n;
        self.n += 1;
        if self.target == Some(me) {
            self.done = true;
            true
        } else {
            false
        }
    }

    /// May `name` serve as the out-of-scope name? Only if nothing else in the
    /// function (or at top level) declares it: then no outer binding of the name can
    /// be visible where the use is put, whatever is shadowed where.
    fn uniq(&self, name: &str, ty: &Ty) -> bool {
        *ty != Ty::Unit && self.decls.get(name) == Some(&1) && !self.globals.contains(name)
    }

    /// names declared by a `let` directly in this block
    fn let_cands(&self, b: &Block) -> Vec<Cand> {
        let mut v = Vec::new();
        for (i, s) in b.stmts.iter().enumerate() {
            if let Stmt::Let(n, t, e) = s {
                let ty = t.clone().unwrap_or_else(|| e.ty.clone());
                if self.uniq(n, &ty) {
                    v.push(Cand { name: n.clone(), ty, decl: Decl::Let(i) });
                }
            }
        }
        v
    }

    /// names declared by the pattern of the arm or by a `let` directly in its body
    fn arm_cands(&self, a: &Arm, scrut: &Ty) -> Vec<Cand> {
        let mut v = Vec::new();
        if let Some(vi) = a.variant
            && let Some(vs) = self.tp.enum_variants(scrut)
            && let Some((_, fts)) = vs.get(vi)
            && fts.len() == a.binds.len()
        {
            for (b, t) in a.binds.iter().zip(fts.iter()) {
                if self.uniq(b, t) {
                    v.push(Cand { name: b.clone(), ty: t.clone(), decl: Decl::Binder });
                }
            }
        }
        v.extend(self.let_cands(&a.body));
        v
    }

    /// Sources of the "declared inside statement i, used after it" kinds: the names
    /// that the (then block | loop body | inner block | match arms) of `e` declares.
    fn after_cands(&self, e: &Expr) -> Vec<(usize, Cand)> {
        match (&e.k, self.kind) {
            (EK::If(_, t, _), "scope-then-to-after") => self.let_cands(t).into_iter().map(|c| (0, c)).collect(),
            (EK::While(_, b), "scope-loop-to-after") => self.let_cands(b).into_iter().map(|c| (0, c)).collect(),
            (EK::For(v, it, b), "scope-loop-to-after") => {
                let mut cs = Vec::new();
                if let Ty::List(t) = &it.ty
                    && self.uniq(v, t)
                {
                    cs.push((0, Cand { name: v.clone(), ty: (**t).clone(), decl: Decl::ForVar }));
                }
                cs.extend(self.let_cands(b).into_iter().map(|c| (0, c)));
                cs
            }
            (EK::Block(b), "scope-block-to-after") => self.let_cands(b).into_iter().map(|c| (0, c)).collect(),
            (EK::Match(s, arms), "scope-arm-to-after") => {
                let mut cs = Vec::new();
                for (i, a) in arms.iter().enumerate() {
                    cs.extend(self.arm_cands(a, &s.ty).into_iter().map(|c| (i, c)));
                }
                cs
            }
            _ => Vec::new(),
        }
    }

    fn scope_tags(&mut self, c: &Cand, how: &str) {
        self.tags.push(format!("scope-src:{}", c.src_tag()));
        self.tags.push(format!("scope-use:{how}"));
        self.tags.push(format!("{}:src:{}", self.kind, c.src_tag()));
    }

    fn block(&mut self, b: &mut Block, ret: Option<&Ty>) {
        if matches!(self.kind, "scope-then-to-after" | "scope-loop-to-after" | "scope-block-to-after" | "scope-arm-to-after") {
            for i in 0..b.stmts.len() {
                if self.done {
                    return;
                }
                // everything up to and including statement i must fall through
                if stmt_may_diverge(&b.stmts[i]) {
                    break;
                }
                let cands = match &b.stmts[i] {
                    Stmt::Let(_, _, e) | Stmt::Expr(e) => self.after_cands(e),
                };
                if cands.is_empty() || !self.hit() {
                    continue;
                }
                let mut m = Mix(self.rng_word);
                let (arm, c) = cands[m.below(cands.len())].clone();
                let (u, how) = c.use_stmt(&mut m);
                if self.control {
                    let e = match &mut b.stmts[i] {
                        Stmt::Let(_, _, e) | Stmt::Expr(e) => e,
                    };
                    let src = match &mut e.k {
                        EK::If(_, t, _) => t,
                        EK::While(_, body) | EK::For(_, _, body) => body,
                        EK::Block(inner) => inner,
                        EK::Match(_, arms) => &mut arms[arm].body,
                        _ => unreachable!("after_cands"),
                    };
                    control_use(src, &c, u);
                    insert_reachable(b, i + 1, pos_marker(), &mut m);
                } else {
                    let at = insert_reachable(b, i + 1, u, &mut m);
                    self.scope_tags(&c, how);
                    self.tags.push(format!("scope-after:{}", if at == i + 1 { "next-statement" } else { "later-statement" }));
                }
                return;
            }
        }
        if self.kind == "redeclare-in-scope" {
            // duplicate a let in the same scope
            let lets: Vec<usize> = b.stmts.iter().enumerate().filter(|(_, s)| matches!(s, Stmt::Let(..))).map(|(i, _)| i).collect();
            for i in lets {
                if self.done {
                    return;
                }
                if self.hit() {
                    let s = b.stmts[i].clone();
                    b.stmts.insert(i + 1, s);
                    return;
                }
            }
        }
        if self.kind == "question-mark-outside-option-fn" && ret.is_some_and(|r| !matches!(r, Ty::Opt(_))) && self.hit() {
            let some = Expr::new(Ty::opt(Ty::Int(IntTy::I32)), EK::Ctor(Ctor::Some, vec![int_lit()]));
            let q = Expr::new(Ty::Int(IntTy::I32), EK::Try(Box::new(some)));
            b.stmts.insert(0, Stmt::Expr(q));
            return;
        }
        for s in b.stmts.iter_mut() {
            if self.done {
                return;
            }
            match s {
                Stmt::Let(_, Some(_), e) => self.expr(e, Pos::AnnotatedLet, ret),
                Stmt::Let(_, None, e) | Stmt::Expr(e) => self.expr(e, Pos::Other, ret),
            }
        }
        if let Some(t) = b.tail.as_mut() {
            // the tail of a nested block inherits "Other": only the function body's
            // tail is checked against the declared return type (handled by caller)
            self.expr(t, Pos::Other, ret);
        }
    }

    fn expr(&mut self, e: &mut Expr, pos: Pos, ret: Option<&Ty>) {
        if self.done {
            return;
        }
        // --- edits that replace the expression at a typed position ---
        let wanted = match pos {
            Pos::Cond => "mismatch-cond",
            Pos::Arg => "mismatch-arg",
            Pos::BinRight => "mismatch-operand",
            Pos::NamedField => "mismatch-field",
            Pos::LaterElem => "mismatch-element",
            Pos::AssignRhs => "mismatch-assigned",
            Pos::AnnotatedLet => "mismatch-let",
            Pos::Returned => "mismatch-return",
            Pos::Other => "",
        };
        if self.kind == wanted && !matches!(e.ty, Ty::Unit) && self.hit() {
            let expected = if pos == Pos::Cond { Ty::Bool } else { e.ty.clone() };
            let mut m = Mix(self.rng_word);
            let (wrong, name) = non_unifiable(&expected, &e.clone(), pos, &mut m);
            self.tags.push(format!("mismatch:{name}"));
            self.tags.push(format!("{}:{name}", self.kind));
            *e = wrong;
            return;
        }
        // --- edits keyed on the node itself ---
        let ety = e.ty.clone();
        match (&mut e.k, self.kind) {
            (EK::Call(f, args), "arg-count-extra") => {
                let _ = f;
                if self.hit() {
                    args.push(int_lit());
                    return;
                }
            }
            (EK::Call(_, args), "arg-count-missing") if !args.is_empty() => {
                if self.hit() {
                    args.pop();
                    return;
                }
            }
            (EK::Path(root, fields), "unknown-name") if fields.is_empty() && pos != Pos::Other => {
                if self.hit() {
                    *root = format!("zz_undefined_{}", self.rng_word % 1000);
                    return;
                }
            }
            (EK::RecLit(Some(_), fs), "field-missing") if !fs.is_empty() => {
                if self.hit() {
                    fs.pop();
                    return;
                }
            }
            (EK::RecLit(_, fs), "field-duplicate") if !fs.is_empty() => {
                if self.hit() {
                    let f = fs[0].clone();
                    fs.push(f);
                    return;
                }
            }
            (EK::RecLit(Some(_), fs), "field-unknown") if !fs.is_empty() => {
                if self.hit() {
                    fs[0].0 = "zz_nofield".into();
                    return;
                }
            }
            (EK::Match(_, arms), "match-nonexhaustive") => {
                // removing the only unguarded arm of a variant (when there is no `_`)
                let has_default = arms.iter().any(|a| a.variant.is_none());
                if !has_default {
                    let cand: Vec<usize> = (0..arms.len())
                        .filter(|&i| {
                            arms[i].guard.is_none()
                                && arms.iter().enumerate().all(|(j, b)| j == i || b.variant != arms[i].variant || b.guard.is_some())
                        })
                        .collect();
                    if !cand.is_empty() && self.hit() {
                        let i = cand[(self.rng_word as usize) % cand.len()];
                        arms.remove(i);
                        return;
                    }
                }
            }
            (EK::Match(scrut, arms), "match-retarget-keep-body" | "match-retarget-copy-arm") => {
                // Never with an unguarded `_` arm (it covers everything). Guarded arms
                // (of a variant or of `_`) never count towards exhaustiveness.
                let has_default = arms.iter().any(|a| a.variant.is_none() && a.guard.is_none());
                let variants = self.tp.enum_variants(&scrut.ty);
                if !has_default && let Some(vs) = variants {
                    let copy = self.kind == "match-retarget-copy-arm";
                    // arms that are the only unguarded arm of their variant
                    let sole: Vec<usize> = (0..arms.len())
                        .filter(|&i| {
                            arms[i].variant.is_some()
                                && arms[i].guard.is_none()
                                && arms.iter().enumerate().all(|(j, b)| j == i || b.variant != arms[i].variant || b.guard.is_some())
                        })
                        .collect();
                    // may the arm of variant x keep its body under the pattern of variant y?
                    let compatible = |x: usize, y: usize| x != y && (vs[x].1.is_empty() || vs[x].1 == vs[y].1);
                    let possible = |x: usize, y: usize| if copy { x != y && arms.iter().any(|a| a.variant == Some(y)) } else { compatible(x, y) };
                    let applicable = sole.iter().any(|&i| (0..vs.len()).any(|y| possible(arms[i].variant.unwrap(), y)));
                    if applicable && self.hit() {
                        let mut m = Mix(self.rng_word);
                        let kmax = sole.len().min(vs.len() - 1);
                        let k = if m.below(2) == 0 { 1 } else { 1 + m.below(kmax) };
                        // random order over the candidate arms
                        let mut order = sole.clone();
                        for i in (1..order.len()).rev() {
                            order.swap(i, m.below(i + 1));
                        }
                        let mut retargeted: Vec<usize> = Vec::new(); // variants that lose their arm
                        let mut targets: Vec<usize> = Vec::new(); // variants that get one more arm
                        let mut plan: Vec<(usize, usize)> = Vec::new(); // (arm, new variant)
                        for &ai in &order {
                            if plan.len() >= k {
                                break;
                            }
                            let x = arms[ai].variant.unwrap();
                            if targets.contains(&x) {
                                continue;
                            }
                            let ys: Vec<usize> = (0..vs.len()).filter(|&y| !retargeted.contains(&y) && possible(x, y)).collect();
                            if ys.is_empty() {
                                continue;
                            }
                            let y = ys[m.below(ys.len())];
                            retargeted.push(x);
                            targets.push(y);
                            plan.push((ai, y));
                        }
                        let guarded_variant = arms.iter().any(|a| a.variant.is_some() && a.guard.is_some());
                        let guarded_default = arms.iter().any(|a| a.variant.is_none());
                        let mut new_arms: Vec<(usize, Arm)> = Vec::new();
                        for (n, &(ai, y)) in plan.iter().enumerate() {
                            let x = arms[ai].variant.unwrap();
                            let (arm, mode) = if copy {
                                let from: Vec<usize> = (0..arms.len()).filter(|&j| arms[j].variant == Some(y)).collect();
                                let mut a = arms[from[m.below(from.len())]].clone();
                                let had_guard = a.guard.take().is_some();
                                let rename = m.below(2) == 0 && !a.binds.is_empty();
                                if rename {
                                    for (bi, b) in a.binds.clone().iter().enumerate() {
                                        let to = format!("zz_r{n}_{bi}");
                                        rename_block(&mut a.body, b, &to);
                                        a.binds[bi] = to;
                                    }
                                }
                                (a, if rename { "copy-renamed-binders" } else if had_guard { "copy-of-guarded-arm" } else { "copy" })
                            } else {
                                let mut a = arms[ai].clone();
                                a.variant = Some(y);
                                a.variant_name = vs[y].0.clone();
                                let same = !vs[x].1.is_empty();
                                if !same {
                                    a.binds = (0..vs[y].1.len()).map(|bi| format!("zz_w{n}_{bi}")).collect();
                                }
                                (a, if same { "same-payload" } else if vs[y].1.is_empty() { "payloadless-to-payloadless" } else { "payloadless-to-payload" })
                            };
                            if !self.control {
                                self.tags.push(format!("retarget:mode:{mode}"));
                            }
                            new_arms.push((ai, arm));
                        }
                        if !self.control {
                            self.tags.push(format!("retarget:arms:{}", plan.len()));
                            self.tags.push(format!(
                                "retarget:on:{}",
                                match &scrut.ty {
                                    Ty::Opt(_) => "option",
                                    Ty::Verdict(..) => "verdict",
                                    _ => "enum",
                                }
                            ));
                            self.tags.push(format!("retarget:guarded-variant-arms:{}", if guarded_variant { "present" } else { "absent" }));
                            self.tags.push(format!("retarget:guarded-default-arms:{}", if guarded_default { "present" } else { "absent" }));
                            self.tags.push(format!("retarget:variants:{}", vs.len().min(5)));
                        }
                        // mutant: the new arm replaces the arm; control: it is added in front of it
                        new_arms.sort_by(|a, b| b.0.cmp(&a.0));
                        for (ai, arm) in new_arms {
                            if self.control {
                                arms.insert(ai, arm);
                            } else {
                                arms[ai] = arm;
                            }
                        }
                        return;
                    }
                }
            }
            (EK::If(_, t, Some(el)), "scope-then-to-else" | "scope-else-to-then") => {
                // an else block that is exactly one `if` belongs to the else-if kinds
                let fwd = self.kind == "scope-then-to-else";
                let cands = if fwd { self.let_cands(t) } else { self.let_cands(el) };
                if !cands.is_empty() && !(fwd && is_link(el)) && self.hit() {
                    let mut m = Mix(self.rng_word);
                    let c = cands[m.below(cands.len())].clone();
                    let (u, how) = c.use_stmt(&mut m);
                    let (src, dst) = if fwd { (t, el) } else { (el, t) };
                    if self.control {
                        // the position marker first: it must not shift the declaration
                        insert_reachable(dst, 0, pos_marker(), &mut m);
                        control_use(src, &c, u);
                    } else {
                        insert_reachable(dst, 0, u, &mut m);
                        self.scope_tags(&c, how);
                    }
                    return;
                }
            }
            (EK::If(cond0, t, Some(el)), "scope-then-to-elseif-cond" | "scope-then-to-elseif-body") => {
                let cands = self.let_cands(t);
                if !cands.is_empty() && self.hit() {
                    let mut m = Mix(self.rng_word);
                    let c = cands[m.below(cands.len())].clone();
                    if !is_link(el) {
                        // no else-if chain here: make one. `if c {T} else {E}` becomes
                        // `if c {T} else if c1 {E} ... else {E}`, which is as well typed
                        // as before (the control program contains the same chain)
                        let n = 1 + m.below(3);
                        let orig = el.clone();
                        let mut cur = orig.clone();
                        for _ in 0..n {
                            let c1 = if m.below(2) == 0 { (**cond0).clone() } else { Expr::boolean(m.below(2) == 0) };
                            let ife = Expr::new(ety.clone(), EK::If(Box::new(c1), orig.clone(), Some(cur)));
                            cur = Block { stmts: vec![], tail: Some(Box::new(ife)) };
                        }
                        *el = cur;
                        if !self.control {
                            self.tags.push(format!("scope-elseif:chain:synthesised:{n}"));
                        }
                    } else if !self.control {
                        self.tags.push(format!("scope-elseif:chain:generated:{}", chain_len(el).min(3)));
                    }
                    let links = chain_len(el);
                    let j = m.below(links);
                    if self.kind == "scope-then-to-elseif-cond" {
                        let (u, how) = c.use_cond(&mut m);
                        if self.control {
                            control_use(t, &c, Stmt::Let("zz_ctl".into(), None, u));
                        } else {
                            let EK::If(cond, _, _) = &mut link_mut(el, j).k else { unreachable!("link") };
                            let old = std::mem::replace(&mut **cond, Expr::boolean(true));
                            **cond = conjoin(old, u, &mut m);
                            self.scope_tags(&c, how);
                            self.tags.push(format!("scope-elseif:link{}", j.min(3)));
                        }
                    } else {
                        let (u, how) = c.use_stmt(&mut m);
                        let EK::If(_, lt, lel) = &mut link_mut(el, j).k else { unreachable!("link") };
                        // the then block of the link, or the final else of the chain
                        let (dst, which) = match lel {
                            Some(e) if !is_link(e) && m.below(2) == 0 => (e, "final-else"),
                            _ => (lt, "then"),
                        };
                        if self.control {
                            insert_reachable(dst, 0, pos_marker(), &mut m);
                            control_use(t, &c, u);
                        } else {
                            insert_reachable(dst, 0, u, &mut m);
                            self.scope_tags(&c, how);
                            self.tags.push(format!("scope-elseif:link{}:{which}", j.min(3)));
                        }
                    }
                    return;
                }
            }
            (EK::Match(scrut, arms), "scope-arm-to-arm-guard" | "scope-arm-to-arm-body") if arms.len() >= 2 => {
                let srcs: Vec<usize> = (0..arms.len()).filter(|&i| !self.arm_cands(&arms[i], &scrut.ty).is_empty()).collect();
                if !srcs.is_empty() && self.hit() {
                    let mut m = Mix(self.rng_word);
                    let a = srcs[m.below(srcs.len())];
                    let cands = self.arm_cands(&arms[a], &scrut.ty);
                    let c = cands[m.below(cands.len())].clone();
                    let mut b = m.below(arms.len() - 1);
                    if b >= a {
                        b += 1;
                    }
                    let dir = if b < a { "earlier-arm" } else { "later-arm" };
                    if self.kind == "scope-arm-to-arm-body" {
                        let (u, how) = c.use_stmt(&mut m);
                        if self.control {
                            insert_reachable(&mut arms[b].body, 0, pos_marker(), &mut m);
                            control_use(&mut arms[a].body, &c, u);
                        } else {
                            insert_reachable(&mut arms[b].body, 0, u, &mut m);
                            self.scope_tags(&c, how);
                            self.tags.push(format!("scope-arm:{dir}"));
                        }
                    } else {
                        let (u, how) = c.use_cond(&mut m);
                        let existing = arms[b].guard.is_some();
                        if self.control {
                            control_use(&mut arms[a].body, &c, Stmt::Let("zz_ctl".into(), None, u));
                            if !existing {
                                let mut extra = arms[b].clone();
                                extra.guard = Some(Expr::boolean(true));
                                arms.insert(b, extra);
                            }
                        } else {
                            if existing {
                                let old = arms[b].guard.take().unwrap();
                                arms[b].guard = Some(conjoin(old, u, &mut m));
                            } else {
                                // a guarded copy of the arm in front of it: the arm itself
                                // stays, so the match is as exhaustive as before
                                let mut extra = arms[b].clone();
                                extra.guard = Some(u);
                                arms.insert(b, extra);
                            }
                            self.scope_tags(&c, how);
                            self.tags.push(format!("scope-arm:{dir}"));
                            self.tags.push(format!("scope-arm:guard:{}", if existing { "existing" } else { "added-guarded-copy" }));
                            if arms[b].variant.is_none() {
                                self.tags.push("scope-arm:guard:of-default".into());
                            }
                        }
                    }
                    return;
                }
            }
            (EK::Match(_, arms), "match-arm-after-default") => {
                if let Some(d) = arms.iter().position(|a| a.variant.is_none() && a.guard.is_none())
                    && self.hit()
                {
                    let extra = arms[d].clone();
                    arms.push(extra);
                    return;
                }
            }
            (EK::Path(_, fields), "negate-unsigned")
                if fields.is_empty() && matches!(&e.ty, Ty::Int(t) if !t.signed()) && pos != Pos::Other =>
            {
                if self.hit() {
                    let inner = e.clone();
                    *e = Expr::new(inner.ty.clone(), EK::Un(UnOp::Neg, Box::new(inner)));
                    return;
                }
            }
            (_, "negate-literal-unsigned-later")
                if matches!(&e.ty, Ty::Int(t) if !t.signed()) && !matches!(pos, Pos::Other | Pos::Cond) =>
            {
                let me = self.n;
                if self.hit() {
                    let ty = e.ty.clone();
                    let lit = |v: i128| Expr::new(ty.clone(), EK::Lit(Lit::Int { v, suffix: false, hex: false, under: false }));
                    let neg = |v: i128| Expr::new(ty.clone(), EK::Un(UnOp::Neg, Box::new(lit(v))));
                    let bin = |op: BinOp, a: Expr, b: Expr| Expr::new(ty.clone(), EK::Bin(op, Box::new(a), Box::new(b)));
                    let form = me % 4;
                    let new = match form {
                        0 => Expr::new(ty.clone(), EK::Paren(Box::new(bin(BinOp::Add, neg(5), lit(3))))),
                        1 => Expr::new(ty.clone(), EK::Paren(Box::new(bin(BinOp::Mul, neg(6), lit(2))))),
                        2 => Expr::new(
                            ty.clone(),
                            EK::Paren(Box::new(Expr::new(
                                ty.clone(),
                                EK::If(
                                    Box::new(Expr::boolean(true)),
                                    Block { stmts: vec![], tail: Some(Box::new(neg(4))) },
                                    Some(Block { stmts: vec![], tail: Some(Box::new(lit(2))) }),
                                ),
                            ))),
                        ),
                        _ => Expr::new(
                            ty.clone(),
                            EK::Block(Block {
                                stmts: vec![
                                    Stmt::Let("zz_n".into(), None, neg(7)),
                                    Stmt::Let("zz_m".into(), None, bin(BinOp::Add, Expr::var("zz_n", ty.clone()), lit(1))),
                                ],
                                tail: Some(Box::new(Expr::var("zz_m", ty.clone()))),
                            }),
                        ),
                    };
                    self.tags.push(format!("negate-later:{}", ["neg+lit", "neg*lit", "if-neg-else-lit", "let-neg-then-add"][form]));
                    *e = new;
                    return;
                }
            }
            (_, "arith-on-bool") if e.ty == Ty::Bool && pos == Pos::Cond => {
                if self.hit() {
                    let inner = e.clone();
                    *e = Expr::new(Ty::Bool, EK::Bin(BinOp::Add, Box::new(Expr::new(Ty::Bool, EK::Paren(Box::new(inner)))), Box::new(bool_lit())));
                    return;
                }
            }
            (_, "order-on-char") if e.ty == Ty::Bool && pos == Pos::Cond => {
                if self.hit() {
                    let c = |ch| Expr::new(Ty::Char, EK::Lit(Lit::Char(ch)));
                    *e = Expr::new(Ty::Bool, EK::Bin(BinOp::Lt, Box::new(c('a')), Box::new(c('b'))));
                    return;
                }
            }
            (EK::Bin(op, _, _), "rem-on-float") if e.ty.is_float() && op.is_arith() => {
                if self.hit() {
                    *op = BinOp::Mod;
                    return;
                }
            }
            _ => {}
        }
        // --- recurse ---
        match &mut e.k {
            EK::Lit(_) | EK::Path(..) => {}
            EK::Field(a, _) | EK::Un(_, a) | EK::Try(a) | EK::Paren(a) => self.expr(a, Pos::Other, ret),
            EK::Bin(op, a, b) => {
                self.expr(a, Pos::Other, ret);
                // String + and List + are legal; so is IpAddr /
                let plain = (op.is_arith() && a.ty.is_numeric()) || (op.is_cmp() && a.ty.is_numeric());
                self.expr(b, if plain { Pos::BinRight } else { Pos::Other }, ret);
            }
            EK::If(c, t, el) => {
                self.expr(c, Pos::Cond, ret);
                self.block(t, ret);
                if let Some(el) = el {
                    self.block(el, ret);
                }
            }
            EK::Match(s, arms) => {
                self.expr(s, Pos::Other, ret);
                for a in arms.iter_mut() {
                    if let Some(g) = a.guard.as_mut() {
                        self.expr(g, Pos::Cond, ret);
                    }
                    self.block(&mut a.body, ret);
                }
            }
            EK::Call(_, args) | EK::Host(_, args) => {
                for a in args.iter_mut() {
                    self.expr(a, Pos::Arg, ret);
                }
            }
            EK::Ctor(_, args) => {
                for a in args.iter_mut() {
                    self.expr(a, Pos::Other, ret);
                }
            }
            EK::ListLit(xs) => {
                for (i, a) in xs.iter_mut().enumerate() {
                    self.expr(a, if i == 0 { Pos::Other } else { Pos::LaterElem }, ret);
                }
            }
            EK::Method(r, _, args) => {
                self.expr(r, Pos::Other, ret);
                for a in args.iter_mut() {
                    self.expr(a, Pos::Other, ret);
                }
            }
            EK::RecLit(d, fs) => {
                // a field of a generic record may have a type parameter as type:
                // another value there only instantiates the parameter differently
                let named = d.is_some() && matches!(&e.ty, Ty::Named(_, a) if a.is_empty());
                for (_, a) in fs.iter_mut() {
                    self.expr(a, if named { Pos::NamedField } else { Pos::Other }, ret);
                }
            }
            EK::FStr(ps) => {
                for p in ps.iter_mut() {
                    if let FPart::Expr(a) = p {
                        self.expr(a, Pos::Other, ret);
                    }
                }
            }
            EK::Block(b) => self.block(b, ret),
            EK::Ret(RetKind::Return, Some(v)) => self.expr(v, Pos::Returned, ret),
            EK::Ret(_, v) => {
                if let Some(v) = v {
                    self.expr(v, Pos::Other, ret);
                }
            }
            EK::Assign(_, v) => self.expr(v, Pos::AssignRhs, ret),
            EK::CompAssign(_, _, v) => self.expr(v, Pos::BinRight, ret),
            EK::While(c, b) => {
                self.expr(c, Pos::Cond, ret);
                self.block(b, ret);
            }
            EK::For(_, it, b) => {
                self.expr(it, Pos::Other, ret);
                self.block(b, ret);
            }
        }
    }

    fn program(&mut self, p: &mut Program) {
        for f in p.fns.iter_mut() {
            if self.done {
                return;
            }
            if f.kind != FnKind::Fn {
                continue;
            }
            let ret = f.ret.clone();
            self.decls.clear();
            for (n, _) in &f.params {
                *self.decls.entry(n.clone()).or_insert(0) += 1;
            }
            {
                let decls = &mut self.decls;
                visit_block(&f.body, &mut |_| {}, &mut |n| *decls.entry(n.to_string()).or_insert(0) += 1);
            }
            // statements
            let mut body = std::mem::take(&mut f.body);
            let tail = body.tail.take();
            self.block(&mut body, Some(&ret));
            body.tail = tail;
            if let Some(t) = body.tail.as_mut()
                && !self.done
            {
                self.expr(t, if ret == Ty::Unit { Pos::Other } else { Pos::Returned }, Some(&ret));
            }
            f.body = body;
        }
    }
}

fn walker<'a>(prog: &Program, kind: &'a str, target: Option<usize>, word: u64, control: bool) -> Walker<'a> {
    let mut globals: HashSet<String> = prog.consts.iter().map(|c| c.name.clone()).collect();
    globals.extend(prog.fns.iter().map(|f| f.name.clone()));
    // the registered constants of the harness runtime are visible everywhere as well
    globals.extend(crate::host::host_consts().into_iter().map(|(n, _, _)| n.to_string()));
    Walker {
        target,
        n: 0,
        kind,
        done: false,
        fns: vec![],
        rng_word: word,
        tp: Program { types: prog.types.clone(), ..Default::default() },
        decls: HashMap::new(),
        globals,
        control,
        tags: Vec::new(),
    }
}

fn count_sites(prog: &Program, kind: &str) -> usize {
    let mut p = prog.clone();
    let mut w = walker(prog, kind, None, 0, false);
    w.program(&mut p);
    w.n
}

/// A mutant with the details of the edit and, for the edit kinds that have one, the
/// *control*: the program with the same material added where the typing rule allows
/// it (it must compile; if it does not, nothing can be concluded from the mutant).
pub struct Mutant {
    pub prog: Program,
    pub tags: Vec<String>,
    pub control: Option<Program>,
}

pub fn has_control(kind: &str) -> bool {
    kind.starts_with("scope-") || kind.starts_with("match-retarget-")
}

pub fn apply_full(prog: &Program, kind: &str, site: usize, word: u64) -> Option<Mutant> {
    if ITEM_EDITS.contains(&kind) {
        let mut tags = Vec::new();
        let p = item_edit_full(prog, kind, word, false, &mut tags)?;
        let control = if has_control(kind) { item_edit_full(prog, kind, word, true, &mut Vec::new()) } else { None };
        return Some(Mutant { prog: p, tags, control });
    }
    let mut p = prog.clone();
    let mut w = walker(prog, kind, Some(site), word, false);
    w.program(&mut p);
    if !w.done {
        return None;
    }
    let tags = std::mem::take(&mut w.tags);
    let control = if has_control(kind) {
        let mut c = prog.clone();
        let mut w = walker(prog, kind, Some(site), word, true);
        w.program(&mut c);
        if w.done { Some(c) } else { None }
    } else {
        None
    };
    Some(Mutant { prog: p, tags, control })
}

/// Number of distinct sites at which `kind` can be applied to `prog`.
pub fn sites(prog: &Program, kind: &str) -> usize {
    if ITEM_EDITS.contains(&kind) {
        if item_edit(prog, kind, 0).is_none() {
            0
        } else if matches!(kind, "const-cycle-through-function-group" | "recursive-type-through-generic") {
            3
        } else {
            1
        }
    } else {
        count_sites(prog, kind)
    }
}

/// Apply edit `kind` at site `site`. Returns None if not applicable.
pub fn apply(prog: &Program, kind: &str, site: usize, word: u64) -> Option<Program> {
    if ITEM_EDITS.contains(&kind) {
        return item_edit(prog, kind, word);
    }
    let mut p = prog.clone();
    let mut w = walker(prog, kind, Some(site), word, false);
    w.program(&mut p);
    if w.done { Some(p) } else { None }
}

fn item_edit(prog: &Program, kind: &str, word: u64) -> Option<Program> {
    item_edit_full(prog, kind, word, false, &mut Vec::new())
}

/// `fn zz_verdict(v: Verdict[A, R], d: A) -> A { match v { Accept(za) => .., Reject(zr) => .. } }`
/// with one arm retargeted to the other variant (control: the retargeted arm is added
/// in front of the arm instead of replacing it).
fn verdict_retarget(p: &mut Program, word: u64, control: bool, tags: &mut Vec<String>) {
    let mut m = Mix(word);
    let scalars = [Ty::Int(IntTy::I32), Ty::Int(IntTy::U8), Ty::Bool, Ty::Str, Ty::Int(IntTy::I64), Ty::Int(IntTy::U32)];
    let a_ty = scalars[m.below(scalars.len())].clone();
    let r_ty = if m.below(2) == 0 { a_ty.clone() } else { scalars[m.below(scalars.len())].clone() };
    let same = a_ty == r_ty;
    let vty = Ty::Verdict(Box::new(a_ty.clone()), Box::new(r_ty.clone()));
    let d = || Expr::var("zz_d", a_ty.clone());
    let tail = |e: Expr| Block { stmts: vec![], tail: Some(Box::new(e)) };
    let acc = Arm { variant: Some(0), variant_name: "Accept".into(), binds: vec!["zz_a".into()], guard: None, body: tail(Expr::var("zz_a", a_ty.clone())) };
    let rej = Arm {
        variant: Some(1),
        variant_name: "Reject".into(),
        binds: vec!["zz_r".into()],
        guard: None,
        body: tail(if same && m.below(2) == 0 { Expr::var("zz_r", a_ty.clone()) } else { d() }),
    };
    let mut arms = if m.below(2) == 0 { vec![acc, rej] } else { vec![rej, acc] };
    let lose = m.below(2); // position of the arm that is retargeted
    let keep = 1 - lose;
    let copy = !same || m.below(2) == 0;
    let mut extra = if copy {
        let mut a = arms[keep].clone();
        if m.below(2) == 0 {
            let from = a.binds[0].clone();
            rename_block(&mut a.body, &from, "zz_n");
            a.binds[0] = "zz_n".into();
            tags.push("retarget:mode:copy-renamed-binders".into());
        } else {
            tags.push("retarget:mode:copy".into());
        }
        a
    } else {
        let mut a = arms[lose].clone();
        a.variant = arms[keep].variant;
        a.variant_name = arms[keep].variant_name.clone();
        tags.push("retarget:mode:same-payload".into());
        a
    };
    extra.guard = None;
    let lost_name = arms[lose].variant_name.clone();
    if control {
        arms.insert(lose, extra);
    } else {
        arms[lose] = extra;
    }
    // optionally guarded arms (they never count towards exhaustiveness)
    let guard = || Expr::new(Ty::Bool, EK::Bin(BinOp::Eq, Box::new(d()), Box::new(d())));
    let guarded = m.below(3);
    if guarded >= 1 {
        let (vi, vn) = if lost_name == "Accept" { (0, "Accept") } else { (1, "Reject") };
        let at = m.below(arms.len() + 1);
        arms.insert(at, Arm { variant: Some(vi), variant_name: vn.into(), binds: vec!["zz_g".into()], guard: Some(guard()), body: tail(d()) });
        tags.push("retarget:guarded-variant-arms:present".into());
    } else {
        tags.push("retarget:guarded-variant-arms:absent".into());
    }
    if guarded == 2 {
        let at = m.below(arms.len() + 1);
        arms.insert(at, Arm { variant: None, variant_name: "_".into(), binds: vec![], guard: Some(guard()), body: tail(d()) });
        tags.push("retarget:guarded-default-arms:present".into());
    } else {
        tags.push("retarget:guarded-default-arms:absent".into());
    }
    tags.push("retarget:on:verdict".into());
    tags.push(format!("retarget:verdict:lost:{lost_name}"));
    tags.push("retarget:arms:1".into());
    let body = tail(Expr::new(a_ty.clone(), EK::Match(Box::new(Expr::var("zz_v", vty.clone())), arms)));
    p.fns.push(FnDecl { name: "zz_verdict".into(), kind: FnKind::Fn, params: vec![("zz_v".into(), vty), ("zz_d".into(), a_ty.clone())], ret: a_ty, body });
}

fn item_edit_full(prog: &Program, kind: &str, word: u64, control: bool, tags: &mut Vec<String>) -> Option<Program> {
    let mut p = prog.clone();
    let plain_fns: Vec<usize> = (0..p.fns.len()).filter(|&i| p.fns[i].kind == FnKind::Fn).collect();
    match kind {
        "accept-in-fn" => {
            let i = *plain_fns.get(word as usize % plain_fns.len().max(1))?;
            let e = Expr::new(Ty::Unit, EK::Ret(if word & 1 == 0 { RetKind::Accept } else { RetKind::Reject }, None));
            p.fns[i].body.stmts.insert(0, Stmt::Expr(Expr::new(Ty::Unit, EK::If(Box::new(Expr::boolean(false)), Block { stmts: vec![Stmt::Expr(e)], tail: None }, None))));
        }
        "return-in-const" => {
            let r = Expr::new(Ty::Int(IntTy::I32), EK::Ret(RetKind::Return, Some(Box::new(int_lit()))));
            p.consts.push(ConstDecl { name: "ZZ_RET".into(), ty: Ty::Int(IntTy::I32), init: r });
        }
        "assign-to-const" => {
            p.consts.push(ConstDecl { name: "ZZ_CONST".into(), ty: Ty::Int(IntTy::I32), init: int_lit() });
            let i = *plain_fns.first()?;
            let a = Expr::new(Ty::Unit, EK::Assign(Place { root: "ZZ_CONST".into(), fields: vec![] }, Box::new(int_lit())));
            p.fns[i].body.stmts.insert(0, Stmt::Expr(a));
        }
        "assign-to-function" => {
            let i = *plain_fns.first()?;
            let name = p.fns[i].name.clone();
            let a = Expr::new(Ty::Unit, EK::Assign(Place { root: name, fields: vec![] }, Box::new(int_lit())));
            p.fns[i].body.stmts.insert(0, Stmt::Expr(a));
        }
        "match-retarget-verdict" => verdict_retarget(&mut p, word, control, tags),
        "recursive-record-direct" => {
            let d = p.types.len();
            p.types.push(TypeDecl::Record { name: "ZzRec".into(), params: vec![], fields: vec![("x".into(), Ty::Named(d, vec![]))] });
        }
        "recursive-record-mutual" => {
            let d = p.types.len();
            p.types.push(TypeDecl::Record { name: "ZzRecA".into(), params: vec![], fields: vec![("x".into(), Ty::Named(d + 1, vec![]))] });
            p.types.push(TypeDecl::Enum { name: "ZzRecB".into(), params: vec![], variants: vec![("ZzV".into(), vec![Ty::Named(d, vec![])])] });
        }
        "recursive-record-through-option" => {
            let d = p.types.len();
            p.types.push(TypeDecl::Record {
                name: "ZzRecO".into(),
                params: vec![],
                fields: vec![("y".into(), Ty::Int(IntTy::U8)), ("x".into(), Ty::opt(Ty::Named(d, vec![])))],
            });
        }
        "const-depends-on-itself" => {
            let me = Expr::var("ZZ_SELF", Ty::Int(IntTy::I32));
            let init = Expr::new(Ty::Int(IntTy::I32), EK::Bin(BinOp::Add, Box::new(me), Box::new(int_lit())));
            p.consts.push(ConstDecl { name: "ZZ_SELF".into(), ty: Ty::Int(IntTy::I32), init });
        }
        "const-cycle-through-function" => {
            let fi = p.fns.len();
            p.fns.insert(
                0,
                FnDecl {
                    name: "zz_cyc".into(),
                    kind: FnKind::Fn,
                    params: vec![],
                    ret: Ty::Int(IntTy::I32),
                    body: Block { stmts: vec![], tail: Some(Box::new(Expr::var("ZZ_CYC", Ty::Int(IntTy::I32)))) },
                },
            );
            let _ = fi;
            // function indices shift by one
            shift_calls(&mut p, 1);
            let call = Expr::new(Ty::Int(IntTy::I32), EK::Call(0, vec![]));
            p.consts.push(ConstDecl { name: "ZZ_CYC".into(), ty: Ty::Int(IntTy::I32), init: call });
        }
        "const-cycle-through-function-group" => {
            let mut m = Mix(word ^ 0x51ed_270b_0f1e_2d3c);
            let n = 2 + m.below(3); // 2..=4 functions
            let sfx = format!("{}", (b'a' + m.below(26) as u8) as char);
            let i32t = Ty::Int(IntTy::I32);
            let base = p.fns.len();
            let kname = format!("ZZ_K{}", sfx.to_uppercase());
            let k2name = format!("ZZ_J{}", sfx.to_uppercase());
            let two_consts = m.below(3) == 0;
            // call graph: edges[i] = callees of function i (within the group)
            let mut edges: Vec<Vec<usize>> = (0..n).map(|_| Vec::new()).collect();
            for (i, e) in edges.iter_mut().enumerate() {
                for j in 0..n {
                    if m.below(5) < 2 && !(n == 1 && i == j) {
                        e.push(j);
                    }
                }
            }
            // a ring through all functions guarantees that everything is reachable from the entry
            if m.below(4) != 0 {
                for i in 0..n {
                    let j = (i + 1) % n;
                    if !edges[i].contains(&j) {
                        edges[i].push(j);
                    }
                }
            } else {
                // a chain 0 -> 1 -> .. -> n-1 (plus whatever random edges exist)
                for i in 0..n - 1 {
                    if !edges[i].contains(&(i + 1)) {
                        edges[i].push(i + 1);
                    }
                }
            }
            let entry = m.below(n);
            // functions reachable from the entry
            let mut reach = vec![false; n];
            let mut stack = vec![entry];
            while let Some(v) = stack.pop() {
                if !reach[v] {
                    reach[v] = true;
                    stack.extend(edges[v].iter().copied());
                }
            }
            let reachable: Vec<usize> = (0..n).filter(|&i| reach[i]).collect();
            let mentions = reachable[m.below(reachable.len())];
            tags.push(format!("const-cycle-group:fns:{n}"));
            tags.push(format!("const-cycle-group:mention-at-entry:{}", mentions == entry));
            tags.push(format!("const-cycle-group:two-constants:{two_consts}"));
            for (i, callees) in edges.iter().enumerate() {
                let mut terms: Vec<Expr> = Vec::new();
                let mut cs = callees.clone();
                // the order of the operands decides which edge a depth-first walk follows first
                for a in (1..cs.len()).rev() {
                    cs.swap(a, m.below(a + 1));
                }
                for &j in &cs {
                    terms.push(Expr::new(i32t.clone(), EK::Call(base + j, vec![])));
                }
                if i == mentions {
                    let at = m.below(terms.len() + 1);
                    terms.insert(at, Expr::var(if two_consts { &k2name } else { &kname }, i32t.clone()));
                }
                if terms.is_empty() || m.below(2) == 0 {
                    terms.push(int_lit());
                }
                let mut body = terms.remove(0);
                for t in terms {
                    body = Expr::new(i32t.clone(), EK::Bin(BinOp::Add, Box::new(body), Box::new(t)));
                }
                p.fns.push(FnDecl {
                    name: format!("zz_g{i}{sfx}"),
                    kind: FnKind::Fn,
                    params: vec![],
                    ret: i32t.clone(),
                    body: Block { stmts: vec![], tail: Some(Box::new(body)) },
                });
            }
            let call = Expr::new(i32t.clone(), EK::Call(base + entry, vec![]));
            let kbase = p.consts.len();
            p.consts.push(ConstDecl { name: kname.clone(), ty: i32t.clone(), init: call });
            if two_consts {
                // K = g(); J = K + 7; some g mentions J
                let init = Expr::new(i32t.clone(), EK::Bin(BinOp::Add, Box::new(Expr::var(&kname, i32t.clone())), Box::new(int_lit())));
                p.consts.push(ConstDecl { name: k2name, ty: i32t.clone(), init });
            }
            // old items in their default order, the new ones inserted at random places
            let mut order: Vec<(u8, usize)> = Vec::new();
            order.extend((0..p.types.len()).map(|i| (0u8, i)));
            order.extend((0..kbase).map(|i| (1u8, i)));
            order.extend((0..base).map(|i| (2u8, i)));
            let first_new_pos = p.types.len(); // never before a type declaration it does not need anyway
            let mut newi: Vec<(u8, usize)> = (kbase..p.consts.len()).map(|i| (1u8, i)).collect();
            newi.extend((base..p.fns.len()).map(|i| (2u8, i)));
            for a in (1..newi.len()).rev() {
                newi.swap(a, m.below(a + 1));
            }
            for it in newi {
                let at = first_new_pos + m.below(order.len() - first_new_pos + 1);
                order.insert(at, it);
            }
            p.item_order = order;
            return Some(p);
        }
        "recursive-type-through-generic" => {
            let mut m = Mix(word ^ 0x2c1b_3c6d_9f4a_7c15);
            let sfx = format!("{}", (b'A' + m.below(26) as u8) as char);
            let d = p.types.len();
            // the generic the cycle runs through
            let wrapper = m.below(4);
            let mut next = d;
            let mut user_generic = None;
            if wrapper >= 2 {
                // a new generic record / enum
                let decl = if wrapper == 2 {
                    TypeDecl::Record { name: format!("ZzBox{sfx}"), params: vec!["T".into()], fields: vec![("v".into(), Ty::Param(0))] }
                } else {
                    TypeDecl::Enum { name: format!("ZzMay{sfx}"), params: vec!["T".into()], variants: vec![("ZzHas".into(), vec![Ty::Param(0)]), ("ZzNot".into(), vec![])] }
                };
                p.types.push(decl);
                user_generic = Some(next);
                next += 1;
            }
            let wrap = |t: Ty| -> Ty {
                match wrapper {
                    0 => Ty::opt(t),
                    1 => Ty::list(t),
                    _ => Ty::Named(user_generic.unwrap(), vec![t]),
                }
            };
            tags.push(format!("recursive-generic:wrapper:{}", ["option", "list", "generic-record", "generic-enum"][wrapper]));
            let harmless = [Ty::Int(IntTy::U32), Ty::Bool, Ty::Str, Ty::Int(IntTy::U8), Ty::F64];
            let mutual = m.below(3) == 0;
            let a = next;
            let b = next + 1;
            // members of type A: harmless uses of the same generic around the recursive one
            let before = m.below(3);
            let after = m.below(3);
            tags.push(format!("recursive-generic:harmless-before:{before}"));
            tags.push(format!("recursive-generic:harmless-after:{after}"));
            tags.push(format!("recursive-generic:mutual:{mutual}"));
            let target = if mutual { b } else { a };
            let mut members: Vec<Ty> = Vec::new();
            for _ in 0..before {
                members.push(wrap(harmless[m.below(harmless.len())].clone()));
            }
            members.push(wrap(Ty::Named(target, vec![])));
            for _ in 0..after {
                members.push(wrap(harmless[m.below(harmless.len())].clone()));
            }
            let as_enum = m.below(2) == 0;
            tags.push(format!("recursive-generic:as:{}", if as_enum { "enum" } else { "record" }));
            let mk = |name: String, members: Vec<Ty>, as_enum: bool| -> TypeDecl {
                if as_enum {
                    TypeDecl::Enum {
                        name,
                        params: vec![],
                        variants: members.into_iter().enumerate().map(|(i, t)| (format!("ZzV{i}"), vec![t])).chain(std::iter::once(("ZzEnd".to_string(), vec![]))).collect(),
                    }
                } else {
                    TypeDecl::Record { name, params: vec![], fields: members.into_iter().enumerate().map(|(i, t)| (format!("zz_m{i}"), t)).collect() }
                }
            };
            p.types.push(mk(format!("ZzRg{sfx}"), members, as_enum));
            if mutual {
                let mut bm = Vec::new();
                if m.below(2) == 0 {
                    bm.push(wrap(harmless[m.below(harmless.len())].clone()));
                }
                // back to A, through the generic again or directly
                bm.push(if m.below(2) == 0 { wrap(Ty::Named(a, vec![])) } else { Ty::Named(a, vec![]) });
                p.types.push(mk(format!("ZzRh{sfx}"), bm, m.below(2) == 0));
            }
            // the type is also used (a parameter), as unused declarations may be checked less
            if m.below(2) == 0 {
                p.fns.push(FnDecl {
                    name: format!("zz_use{}", sfx.to_lowercase()),
                    kind: FnKind::Fn,
                    params: vec![("zz_p".into(), Ty::Named(a, vec![]))],
                    ret: Ty::Int(IntTy::I32),
                    body: Block { stmts: vec![], tail: Some(Box::new(int_lit())) },
                });
                tags.push("recursive-generic:used-as-parameter".into());
            }
        }
        _ => return None,
    }
    p.item_order.clear();
    Some(p)
}

fn shift_calls(p: &mut Program, by: usize) {
    fn ex(e: &mut Expr, by: usize) {
        if let EK::Call(j, _) = &mut e.k {
            *j += by;
        }
        match &mut e.k {
            EK::Lit(_) | EK::Path(..) => {}
            EK::Field(a, _) | EK::Un(_, a) | EK::Try(a) | EK::Paren(a) => ex(a, by),
            EK::Bin(_, a, b) => {
                ex(a, by);
                ex(b, by);
            }
            EK::If(c, t, el) => {
                ex(c, by);
                bl(t, by);
                if let Some(el) = el {
                    bl(el, by);
                }
            }
            EK::Match(s, arms) => {
                ex(s, by);
                for a in arms.iter_mut() {
                    if let Some(g) = a.guard.as_mut() {
                        ex(g, by);
                    }
                    bl(&mut a.body, by);
                }
            }
            EK::Call(_, args) | EK::Host(_, args) | EK::Ctor(_, args) | EK::ListLit(args) => {
                for a in args.iter_mut() {
                    ex(a, by);
                }
            }
            EK::Method(r, _, args) => {
                ex(r, by);
                for a in args.iter_mut() {
                    ex(a, by);
                }
            }
            EK::RecLit(_, fs) => {
                for (_, a) in fs.iter_mut() {
                    ex(a, by);
                }
            }
            EK::FStr(ps) => {
                for p in ps.iter_mut() {
                    if let FPart::Expr(a) = p {
                        ex(a, by);
                    }
                }
            }
            EK::Block(b) => bl(b, by),
            EK::Ret(_, v) => {
                if let Some(v) = v {
                    ex(v, by);
                }
            }
            EK::Assign(_, v) | EK::CompAssign(_, _, v) => ex(v, by),
            EK::While(c, b) => {
                ex(c, by);
                bl(b, by);
            }
            EK::For(_, it, b) => {
                ex(it, by);
                bl(b, by);
            }
        }
    }
    fn bl(b: &mut Block, by: usize) {
        for s in b.stmts.iter_mut() {
            match s {
                Stmt::Let(_, _, e) | Stmt::Expr(e) => ex(e, by),
            }
        }
        if let Some(t) = b.tail.as_mut() {
            ex(t, by);
        }
    }
    for (i, f) in p.fns.iter_mut().enumerate() {
        if i == 0 {
            continue;
        }
        bl(&mut f.body, by);
    }
    for c in p.consts.iter_mut() {
        ex(&mut c.init, by);
    }
}

pub fn pick_edit(rng: &mut Rng) -> &'static str {
    let n = EDIT_KINDS.len() + ITEM_EDITS.len();
    let i = rng.usize(n);
    if i < EDIT_KINDS.len() { EDIT_KINDS[i] } else { ITEM_EDITS[i - EDIT_KINDS.len()] }
}
