//! rotogen: random well-typed program generator.
//!
//! Programs are well-typed *by construction* under the documented rules. The
//! generator tracks for every position whether the surrounding context fixes the
//! expected type (`typed`), because roto's checker is bidirectional: an unsuffixed
//! literal, `None`, `[]` or a generic constructor is only emitted where the
//! context (or the default i32/f64 rule) determines its type.

use std::collections::BTreeSet;

use super::ast::*;
use crate::rng::Rng;
use crate::val::{INT_TYS, IntTy};

#[derive(Clone, Debug)]
pub struct Cfg {
    pub ints: Vec<IntTy>,
    pub floats: bool,
    pub chars: bool,
    pub strings: bool,
    pub options: bool,
    pub lists: bool,
    pub max_user_types: usize,
    pub generics: bool,
    pub anon_records: bool,
    pub trk: bool,
    pub trkz: bool,
    /// programs may read the registered constants of the harness runtime (`host::host_consts`)
    pub host_consts: bool,
    /// record fields and enum payloads may be of type `()` (zero-sized components)
    pub unit_fields: bool,
    /// each registered constant is visible with probability host_consts_in_3 / 3
    pub host_consts_in_3: u64,
    /// script constants may own drop-tracked values (only the differential families, whose
    /// ledger keeps what compilation created as a baseline, switch this on)
    pub trk_consts: bool,
    pub fns: (usize, usize),
    pub max_depth: u32,
    pub max_stmts: usize,
    /// percent chance that a leaf is a logged host input call
    pub effects: u64,
    pub consts: usize,
    pub filtermap_main: bool,
    /// `/` and `%` with arbitrary (possibly zero) divisors
    pub raw_div: bool,
    pub recursion: bool,
    pub loops: bool,
    pub early_return: bool,
    pub fstrings: bool,
    pub non_ascii_text: bool,
    /// restrict output statements (the aggregate profile emits every leaf)
    pub observe_all: bool,
    /// never call the unit-returning `out_*` host functions (the IR evaluator
    /// cannot call functions that return nothing)
    pub no_out: bool,
    /// known-finding patterns the random stream must not contain
    pub avoid: Avoid,
    /// profile name for coverage tags
    pub name: &'static str,
}

#[derive(Clone, Debug, Default)]
pub struct Avoid {
    /// tracked/heap temporaries in a `while` condition (finding C03/while-cond-temp)
    pub while_cond_temps: bool,
    /// tracked/heap temporaries in a match guard (finding C03/guard-temp)
    pub guard_temps: bool,
    /// diverging sub-expression inside a partially evaluated call/list/record
    pub diverge_in_partial: bool,
}

impl Cfg {
    pub fn scalar() -> Cfg {
        Cfg {
            ints: INT_TYS.to_vec(),
            floats: true,
            chars: true,
            strings: false,
            options: true,
            lists: false,
            max_user_types: 2,
            generics: false,
            anon_records: false,
            trk: false,
            trkz: false,
            host_consts: true,
            unit_fields: false,
            host_consts_in_3: 1,
            trk_consts: false,
            fns: (1, 5),
            max_depth: 5,
            max_stmts: 7,
            effects: 25,
            consts: 2,
            filtermap_main: false,
            raw_div: true,
            recursion: true,
            loops: true,
            early_return: true,
            fstrings: false,
            non_ascii_text: false,
            observe_all: false,
            no_out: false,
            avoid: Avoid::default(),
            name: "scalar",
        }
    }
    pub fn aggregate() -> Cfg {
        Cfg {
            strings: true,
            lists: true,
            max_user_types: 5,
            generics: true,
            anon_records: true,
            trk: true,
            trkz: true,
            host_consts: true,
            unit_fields: false,
            host_consts_in_3: 1,
            trk_consts: false,
            fns: (1, 4),
            max_depth: 4,
            effects: 15,
            consts: 1,
            raw_div: false,
            observe_all: true,
            fstrings: true,
            name: "aggregate",
            ..Cfg::scalar()
        }
    }
    pub fn ownership() -> Cfg {
        Cfg {
            ints: vec![IntTy::I64, IntTy::U8, IntTy::I32, IntTy::U64],
            floats: false,
            chars: false,
            strings: true,
            lists: true,
            max_user_types: 3,
            generics: true,
            anon_records: true,
            trk: true,
            trkz: true,
            host_consts: true,
            unit_fields: false,
            host_consts_in_3: 1,
            trk_consts: false,
            fns: (1, 4),
            max_depth: 4,
            effects: 30,
            consts: 1,
            raw_div: false,
            fstrings: true,
            name: "ownership",
            ..Cfg::scalar()
        }
    }
    pub fn effects() -> Cfg {
        Cfg {
            strings: true,
            lists: true,
            max_user_types: 3,
            generics: false,
            anon_records: true,
            trk: true,
            effects: 70,
            raw_div: false,
            fstrings: true,
            name: "effects",
            ..Cfg::scalar()
        }
    }
}

#[derive(Clone, Debug)]
struct VarInfo {
    name: String,
    ty: Ty,
    assignable: bool,
}

#[derive(Clone, Debug)]
struct FnSig {
    params: Vec<Ty>,
    ret: Ty,
    has_fuel: bool,
}

pub struct Gen {
    pub rng: Rng,
    pub cfg: Cfg,
    pub prog: Program,
    scopes: Vec<Vec<VarInfo>>,
    fresh: u32,
    sigs: Vec<FnSig>,
    cur_fn: usize,
    cur_ret: Ty,
    cur_kind: FnKind,
    in_const: bool,
    loop_depth: u32,
    pub tags: BTreeSet<String>,
    next_in: u32,
    next_tag: i64,
    /// number of input words the program may address
    pub n_inputs: u32,
    size_budget: i64,
    /// > 0: no diverging sub-expressions (`return`, `?`) may be generated
    no_div: u32,
}

const FIELD_NAMES: [&str; 8] = ["g0", "h1", "q2", "k3", "m4", "n5", "r6", "s7"];

impl Gen {
    pub fn new(rng: Rng, cfg: Cfg) -> Gen {
        Gen {
            rng,
            cfg,
            prog: Program::default(),
            scopes: Vec::new(),
            fresh: 0,
            sigs: Vec::new(),
            cur_fn: 0,
            cur_ret: Ty::Unit,
            cur_kind: FnKind::Fn,
            in_const: false,
            loop_depth: 0,
            tags: BTreeSet::new(),
            next_in: 0,
            next_tag: 1,
            n_inputs: 24,
            size_budget: 400,
            no_div: 0,
        }
    }

    fn tag(&mut self, s: String) {
        self.tags.insert(s);
    }

    fn fresh(&mut self, p: &str) -> String {
        self.fresh += 1;
        format!("{p}{}", self.fresh)
    }

    // ------------------------------------------------------------------
    // types
    // ------------------------------------------------------------------

    fn scalar_ty(&mut self) -> Ty {
        let mut opts: Vec<Ty> = self.cfg.ints.iter().map(|t| Ty::Int(*t)).collect();
        // default types are over-represented: most real scripts use them
        opts.push(Ty::Int(IntTy::I32));
        opts.push(Ty::Bool);
        opts.push(Ty::Bool);
        if self.cfg.floats {
            opts.push(Ty::F32);
            opts.push(Ty::F64);
            opts.push(Ty::F64);
        }
        if self.cfg.chars {
            opts.push(Ty::Char);
        }
        if self.cfg.strings {
            opts.push(Ty::Str);
            opts.push(Ty::Str);
        }
        if self.cfg.trk {
            opts.push(Ty::Trk);
            opts.push(Ty::Trk);
        }
        if self.cfg.trkz && self.rng.chance(1, 3) {
            opts.push(Ty::TrkZ);
        }
        opts[self.rng.usize(opts.len())].clone()
    }

    /// May a constant have this type? (see `program`)
    fn const_ok(&self, t: &Ty) -> bool {
        match t {
            Ty::Trk => self.cfg.trk && self.cfg.trk_consts,
            Ty::TrkZ | Ty::Trk1 | Ty::List(_) | Ty::Param(_) | Ty::Unit => false,
            Ty::Opt(a) => self.const_ok(a),
            Ty::Verdict(a, r) => self.const_ok(a) && self.const_ok(r),
            Ty::Anon(fs) => fs.iter().all(|(_, t)| self.const_ok(t)),
            Ty::Named(d, args) => {
                args.iter().all(|a| self.const_ok(a))
                    && match &self.prog.types[*d] {
                        TypeDecl::Record { fields, .. } => fields.iter().all(|(_, t)| self.const_ok(&t.subst(args))),
                        TypeDecl::Enum { variants, .. } => variants.iter().all(|(_, ts)| ts.iter().all(|t| self.const_ok(&t.subst(args)))),
                    }
            }
            _ => true,
        }
    }

    /// A random value type (no Unit, no type parameters).
    fn value_ty(&mut self, depth: u32) -> Ty {
        let r = self.rng.below(100);
        if depth == 0 || r < 55 {
            return self.scalar_ty();
        }
        if r < 67 && self.cfg.options {
            return Ty::opt(self.value_ty(depth - 1));
        }
        if r < 77 && self.cfg.lists {
            return Ty::list(self.value_ty(depth - 1));
        }
        if r < 93 && !self.prog.types.is_empty() {
            let d = self.rng.usize(self.prog.types.len());
            let n = self.prog.types[d].params().len();
            let args = (0..n).map(|_| self.value_ty(depth.saturating_sub(1).min(1))).collect();
            return Ty::Named(d, args);
        }
        if r < 97 && self.cfg.anon_records {
            let n = 1 + self.rng.usize(3);
            let mut names: Vec<&str> = FIELD_NAMES.to_vec();
            self.rng.shuffle(&mut names);
            let fs = (0..n).map(|i| (names[i].to_string(), self.value_ty(depth - 1))).collect();
            return Ty::Anon(fs);
        }
        self.scalar_ty()
    }

    fn gen_type_decls(&mut self) {
        let n = if self.cfg.max_user_types == 0 { 0 } else { self.rng.usize(self.cfg.max_user_types + 1) };
        // a "packed" record: 2-7 one-byte fields or three two-byte fields, i.e. a plain-data value of
        // 2, 3, 5, 6 or 7 bytes without padding. The next record declared embeds it next to a
        // one-byte field, so that copies of it are stored right before / after a live neighbour.
        let mut packed: Option<usize> = None;
        for i in 0..n {
            let bytes: Vec<Ty> = [IntTy::U8, IntTy::I8].iter().filter(|t| self.cfg.ints.contains(t)).map(|t| Ty::Int(*t)).chain([Ty::Bool]).collect();
            let words: Vec<Ty> = [IntTy::U16, IntTy::I16].iter().filter(|t| self.cfg.ints.contains(t)).map(|t| Ty::Int(*t)).collect();
            if packed.is_none() && n > 1 && i + 1 < n && self.rng.chance(1, 2) {
                let mut names: Vec<&str> = FIELD_NAMES.to_vec();
                self.rng.shuffle(&mut names);
                let fields: Vec<(String, Ty)> = if !words.is_empty() && self.rng.chance(1, 4) {
                    (0..3).map(|j| (names[j].to_string(), words[self.rng.usize(words.len())].clone())).collect()
                } else {
                    let nf = [2usize, 3, 3, 5, 6, 7][self.rng.usize(6)];
                    (0..nf).map(|j| (names[j].to_string(), bytes[self.rng.usize(bytes.len())].clone())).collect()
                };
                self.tag(format!("decl:packed-record:{}", fields.len()));
                self.prog.types.push(TypeDecl::Record { name: format!("Rec{i}"), params: vec![], fields });
                packed = Some(i);
                continue;
            }
            let nparams = if self.cfg.generics && self.rng.chance(1, 3) { 1 + self.rng.usize(2) } else { 0 };
            let params: Vec<String> = (0..nparams).map(|j| format!("T{j}")).collect();
            let mut used = vec![false; nparams];
            let mut field_ty = |g: &mut Gen, used: &mut Vec<bool>| -> Ty {
                if nparams > 0 && g.rng.chance(2, 5) {
                    let p = g.rng.usize(nparams);
                    used[p] = true;
                    let t = Ty::Param(p);
                    match g.rng.below(6) {
                        0 if g.cfg.options => Ty::opt(t),
                        1 if g.cfg.lists => Ty::list(t),
                        _ => t,
                    }
                } else if g.cfg.unit_fields && g.rng.chance(1, 10) {
                    g.tag("decl:unit-component".into());
                    Ty::Unit
                } else {
                    g.value_ty(2)
                }
            };
            if self.rng.bool() {
                let nf = 1 + self.rng.usize(5);
                let mut names: Vec<&str> = FIELD_NAMES.to_vec();
                self.rng.shuffle(&mut names);
                let mut fields: Vec<(String, Ty)> =
                    (0..nf).map(|j| (names[j].to_string(), field_ty(self, &mut used))).collect();
                for (p, u) in used.iter().enumerate() {
                    if !u {
                        fields.push((format!("z{p}"), Ty::Param(p)));
                    }
                }
                if let Some(pd) = packed
                    && self.rng.chance(2, 3)
                {
                    let pos = self.rng.usize(fields.len() + 1);
                    fields.insert(pos, ("pk".to_string(), Ty::Named(pd, vec![])));
                    let pos = self.rng.usize(fields.len() + 1);
                    fields.insert(pos, ("pb".to_string(), bytes[self.rng.usize(bytes.len())].clone()));
                    self.tag("decl:embeds-packed-record".into());
                }
                self.prog.types.push(TypeDecl::Record { name: format!("Rec{i}"), params, fields });
                self.tag("decl:record".into());
            } else {
                let nv = 1 + self.rng.usize(4);
                let mut variants: Vec<(String, Vec<Ty>)> = (0..nv)
                    .map(|j| {
                        let nf = self.rng.usize(4).saturating_sub(1).min(2) + if self.rng.chance(1, 4) { 1 } else { 0 };
                        let nf = if self.rng.chance(1, 3) { 0 } else { nf };
                        (format!("W{i}x{j}"), (0..nf).map(|_| field_ty(self, &mut used)).collect())
                    })
                    .collect();
                for (p, u) in used.iter().enumerate() {
                    if !u {
                        variants.push((format!("W{i}p{p}"), vec![Ty::Param(p)]));
                    }
                }
                self.prog.types.push(TypeDecl::Enum { name: format!("En{i}"), params, variants });
                self.tag("decl:enum".into());
            }
            if nparams > 0 {
                self.tag("decl:generic".into());
            }
        }
    }

    // ------------------------------------------------------------------
    // environment
    // ------------------------------------------------------------------

    fn push_scope(&mut self) {
        self.scopes.push(Vec::new());
    }
    fn pop_scope(&mut self) {
        self.scopes.pop();
    }
    fn declare(&mut self, name: &str, ty: Ty, assignable: bool) {
        self.scopes.last_mut().unwrap().push(VarInfo { name: name.to_string(), ty, assignable });
    }
    fn visible(&self) -> Vec<VarInfo> {
        // innermost declaration of each name wins
        let mut seen = BTreeSet::new();
        let mut out = Vec::new();
        for s in self.scopes.iter().rev() {
            for v in s.iter().rev() {
                if seen.insert(v.name.clone()) {
                    out.push(v.clone());
                }
            }
        }
        out
    }

    /// All readable paths (variable or variable.field...) of type `ty`.
    fn paths_of(&self, ty: &Ty) -> Vec<(String, Vec<String>)> {
        let mut out = Vec::new();
        for v in self.visible() {
            self.collect_paths(&v.name, &v.ty, &mut Vec::new(), ty, &mut out, 3);
        }
        out
    }

    fn collect_paths(
        &self,
        root: &str,
        cur: &Ty,
        fields: &mut Vec<String>,
        want: &Ty,
        out: &mut Vec<(String, Vec<String>)>,
        depth: u32,
    ) {
        if cur == want {
            out.push((root.to_string(), fields.clone()));
        }
        if depth == 0 {
            return;
        }
        if let Some(fs) = self.prog.record_fields(cur) {
            for (n, t) in fs {
                fields.push(n);
                self.collect_paths(root, &t, fields, want, out, depth - 1);
                fields.pop();
            }
        }
    }

    /// Assignable places of any type: (place, type)
    fn places(&self) -> Vec<(Place, Ty)> {
        let mut out = Vec::new();
        for v in self.visible() {
            if !v.assignable {
                continue;
            }
            self.collect_places(&v.name, &v.ty, &mut Vec::new(), &mut out, 2);
        }
        out
    }

    fn collect_places(&self, root: &str, cur: &Ty, fields: &mut Vec<String>, out: &mut Vec<(Place, Ty)>, depth: u32) {
        out.push((Place { root: root.to_string(), fields: fields.clone() }, cur.clone()));
        if depth == 0 {
            return;
        }
        if let Some(fs) = self.prog.record_fields(cur) {
            for (n, t) in fs {
                fields.push(n);
                self.collect_places(root, &t, fields, out, depth - 1);
                fields.pop();
            }
        }
    }

    // ------------------------------------------------------------------
    // literals
    // ------------------------------------------------------------------

    fn int_value(&mut self, t: IntTy) -> i128 {
        let max_lit = t.max_v().min(i64::MAX as i128);
        match self.rng.below(10) {
            0 => 0,
            1 => 1,
            2 => max_lit,
            3 if t.signed() => -1,
            4 if t.signed() => t.min_v() + 1,
            5 => max_lit - 1,
            6 => 2,
            7 => {
                let b = self.rng.below(t.bits() as u64 - 1) as u32;
                ((1i128 << b) + self.rng.range(-1, 1) as i128).clamp(t.min_v() + 1, max_lit)
            }
            _ => {
                let r = self.rng.next() as i128;
                let v = t.wrap(r);
                // small values are more useful than uniformly random ones
                let v = if self.rng.bool() { v % 100 } else { v };
                v.clamp(t.min_v() + 1, max_lit)
            }
        }
    }

    fn int_lit(&mut self, t: IntTy, typed: bool) -> Expr {
        let v = self.int_value(t);
        let is_default = t == IntTy::I32;
        let suffix = if typed || is_default { self.rng.chance(1, 3) } else { true };
        let hex = !suffix && v >= 0 && self.rng.chance(1, 8);
        let under = self.rng.chance(1, 8);
        self.tag(format!("lit:int:{}:{}", t.name(), if suffix { "suffix" } else { "bare" }));
        Expr::new(Ty::Int(t), EK::Lit(Lit::Int { v, suffix, hex, under }))
    }

    fn float_lit(&mut self, ty: &Ty, typed: bool) -> Expr {
        let is_default = *ty == Ty::F64;
        let suffix = if typed || is_default { self.rng.chance(1, 3) } else { true };
        let mant = self.rng.below(1000);
        let frac = self.rng.below(100);
        let mut text = match self.rng.below(7) {
            0 => format!("{mant}."),
            1 => format!("{mant}.{frac}"),
            2 => format!("{}e{}", mant % 10, self.rng.below(9)),
            3 => format!("{}.{}E-{}", mant % 10, frac, self.rng.below(9)),
            4 => "0.0".to_string(),
            5 => format!("{}.5", mant % 16),
            _ => format!("{}.25", mant),
        };
        // `10.f32` would lex as integer 10 followed by `.f32`
        if suffix && text.ends_with('.') {
            text.push('0');
        }
        if self.rng.chance(1, 4) {
            text = format!("-{text}");
        }
        self.tag(format!("lit:float:{}", if *ty == Ty::F32 { "f32" } else { "f64" }));
        Expr::new(ty.clone(), EK::Lit(Lit::Float { text, suffix }))
    }

    fn text(&mut self, max: usize) -> String {
        const ASCII: [&str; 14] = ["a", "b", "xy", " ", "0", "Z", "_", "-", ",", "{", "}", "\"", "\\", "\n"];
        const UNI: [&str; 6] = ["é", "ß", "東", "ж", "𝄞", "ñ"];
        let n = self.rng.usize(max + 1);
        let mut s = String::new();
        for _ in 0..n {
            if self.cfg.non_ascii_text && self.rng.chance(1, 4) {
                s.push_str(UNI[self.rng.usize(UNI.len())]);
            } else {
                s.push_str(ASCII[self.rng.usize(ASCII.len())]);
            }
        }
        s
    }

    fn literal(&mut self, ty: &Ty, typed: bool) -> Option<Expr> {
        Some(match ty {
            Ty::Unit => Expr::unit(),
            Ty::Bool => Expr::boolean(self.rng.bool()),
            Ty::Char => {
                const CS: [char; 12] = ['a', 'Z', '0', ' ', '\n', '\'', '"', '\\', 'é', '東', '\t', '\0'];
                let c = *self.rng.pick(&CS);
                Expr::new(Ty::Char, EK::Lit(Lit::Char(c)))
            }
            Ty::Int(t) => self.int_lit(*t, typed),
            Ty::F32 | Ty::F64 => self.float_lit(ty, typed),
            Ty::Str => {
                let s = self.text(5);
                Expr::new(Ty::Str, EK::Lit(Lit::Str(s)))
            }
            _ => return None,
        })
    }

    // ------------------------------------------------------------------
    // expressions
    // ------------------------------------------------------------------

    fn input_call(&mut self, ty: &Ty) -> Option<Expr> {
        if self.in_const {
            return None;
        }
        let name = match ty {
            // registered as capturing closures (host.rs)
            Ty::Int(IntTy::I64) if self.rng.chance(1, 3) => "in_cap_i64".into(),
            Ty::Int(IntTy::U32) if self.rng.chance(1, 3) => "in_cap_u32".into(),
            Ty::Int(t) => format!("in_{}", t.name()),
            Ty::F32 => "in_f32".into(),
            Ty::F64 => "in_f64".into(),
            Ty::Bool => "in_bool".into(),
            Ty::Char => "in_char".into(),
            Ty::Str => "in_str".into(),
            Ty::Opt(t) if **t == Ty::Int(IntTy::I32) => "in_opt_i32".into(),
            Ty::Opt(t) if **t == Ty::Trk && self.cfg.trk => "in_opt_trk".into(),
            Ty::Opt(t) if **t == Ty::Str && self.cfg.strings => "in_opt_str".into(),
            _ => return None,
        };
        let k = self.rng.below(self.n_inputs as u64) as i128;
        self.next_in += 1;
        let arg = Expr::new(Ty::Int(IntTy::U32), EK::Lit(Lit::Int { v: k, suffix: false, hex: false, under: false }));
        self.tag(format!("host:{name}"));
        Some(Expr::new(ty.clone(), EK::Host(name, vec![arg])))
    }

    fn mk_trk(&mut self) -> Expr {
        let tag = self.next_tag;
        self.next_tag += 1;
        let arg = Expr::new(Ty::Int(IntTy::I64), EK::Lit(Lit::Int { v: tag as i128, suffix: false, hex: false, under: false }));
        self.tag("host:mk".into());
        Expr::new(Ty::Trk, EK::Host("mk".into(), vec![arg]))
    }

    /// Does evaluating this type's values create heap/tracked temporaries?
    fn is_heapy(&self, ty: &Ty) -> bool {
        match ty {
            Ty::Str | Ty::List(_) | Ty::Trk | Ty::TrkZ | Ty::Trk1 => true,
            Ty::Opt(t) => self.is_heapy(t),
            Ty::Verdict(a, r) => self.is_heapy(a) || self.is_heapy(r),
            Ty::Anon(fs) => fs.iter().any(|(_, t)| self.is_heapy(t)),
            Ty::Named(d, args) => match &self.prog.types[*d] {
                TypeDecl::Record { fields, .. } => fields.iter().any(|(_, t)| self.is_heapy(&t.subst(args))),
                TypeDecl::Enum { variants, .. } => {
                    variants.iter().any(|(_, ts)| ts.iter().any(|t| self.is_heapy(&t.subst(args))))
                }
            },
            _ => false,
        }
    }

    fn expr_is_heapy(&self, e: &Expr) -> bool {
        let mut heapy = false;
        visit(e, &mut |x| {
            if self.is_heapy(&x.ty) || matches!(x.k, EK::FStr(_)) {
                heapy = true;
            }
        });
        heapy
    }

    fn leaf(&mut self, ty: &Ty, typed: bool) -> Expr {
        // 1. a visible path of that type
        let paths = self.paths_of(ty);
        let n_eff = self.cfg.effects;
        if !paths.is_empty() && self.rng.chance(55, 100) {
            let (root, fields) = paths[self.rng.usize(paths.len())].clone();
            self.tag("leaf:path".into());
            if !fields.is_empty() {
                self.tag("leaf:field-path".into());
            }
            return Expr::new(ty.clone(), EK::Path(root, fields));
        }
        if self.rng.chance(n_eff, 100)
            && let Some(e) = self.input_call(ty)
        {
            return e;
        }
        if let Some(e) = self.literal(ty, typed) {
            return e;
        }
        self.construct(ty, 0, typed)
    }

    /// Build a value of `ty` from constructors (always possible).
    fn construct(&mut self, ty: &Ty, depth: u32, typed: bool) -> Expr {
        let d = depth.saturating_sub(1);
        match ty {
            Ty::Unit | Ty::Bool | Ty::Char | Ty::Int(_) | Ty::F32 | Ty::F64 | Ty::Str => {
                if depth > 0 { self.expr(ty, d, typed) } else { self.leaf_scalar(ty, typed) }
            }
            Ty::Trk => self.mk_trk(),
            Ty::TrkZ => {
                self.tag("host:mkz".into());
                Expr::new(Ty::TrkZ, EK::Host("mkz".into(), vec![]))
            }
            Ty::Trk1 => {
                let a = self.int_lit(IntTy::U8, true);
                Expr::new(Ty::Trk1, EK::Host("mk1".into(), vec![a]))
            }
            Ty::Opt(t) => {
                if typed && self.rng.chance(1, 3) {
                    self.tag("ctor:None".into());
                    Expr::new(ty.clone(), EK::Ctor(Ctor::None, vec![]))
                } else if !typed && !self.self_typed_possible(t) {
                    self.via_block(ty, depth)
                } else {
                    let a = self.sub(t, d, typed);
                    self.tag("ctor:Some".into());
                    Expr::new(ty.clone(), EK::Ctor(Ctor::Some, vec![a]))
                }
            }
            Ty::List(t) => {
                let n = if typed { self.rng.usize(4) } else { 1 + self.rng.usize(3) };
                if !typed && !self.self_typed_possible(t) {
                    return self.via_block(ty, depth);
                }
                let mut xs = Vec::new();
                for i in 0..n {
                    xs.push(self.sub(t, d, typed || i > 0));
                }
                self.tag(format!("ctor:list:{n}"));
                Expr::new(ty.clone(), EK::ListLit(xs))
            }
            Ty::Anon(fs) => {
                let mut fields: Vec<(String, Expr)> = Vec::new();
                let mut order: Vec<usize> = (0..fs.len()).collect();
                self.rng.shuffle(&mut order);
                for i in order {
                    let (n, t) = &fs[i];
                    let v = self.sub(t, d, typed);
                    fields.push((n.clone(), v));
                }
                self.tag("ctor:anon-record".into());
                Expr::new(ty.clone(), EK::RecLit(None, fields))
            }
            Ty::Named(di, args) => {
                let generic = !args.is_empty();
                if generic && !typed {
                    return self.via_block(ty, depth);
                }
                match self.prog.types[*di].clone() {
                    TypeDecl::Record { fields, .. } => {
                        let mut out: Vec<(String, Expr)> = Vec::new();
                        let mut order: Vec<usize> = (0..fields.len()).collect();
                        self.rng.shuffle(&mut order);
                        for i in order {
                            let (n, t) = &fields[i];
                            let ft = t.subst(args);
                            let v = self.sub(&ft, d, true);
                            out.push((n.clone(), v));
                        }
                        // anonymous literal coerced to the named type only where the
                        // context fixes the type
                        let named = !typed || self.rng.chance(3, 4);
                        self.tag(format!("ctor:record:{}", if named { "named" } else { "coerced" }));
                        Expr::new(ty.clone(), EK::RecLit(if named { Some(*di) } else { None }, out))
                    }
                    TypeDecl::Enum { variants, .. } => {
                        let v = self.rng.usize(variants.len());
                        let mut a = Vec::new();
                        for t in &variants[v].1 {
                            let ft = t.subst(args);
                            a.push(self.sub(&ft, d, true));
                        }
                        self.tag("ctor:variant".into());
                        Expr::new(ty.clone(), EK::Ctor(Ctor::Variant(*di, args.clone(), v), a))
                    }
                }
            }
            Ty::Verdict(a, r) => {
                if self.rng.bool() {
                    let x = self.sub(a, d, true);
                    Expr::new(ty.clone(), EK::Ctor(Ctor::Accept, vec![x]))
                } else {
                    let x = self.sub(r, d, true);
                    Expr::new(ty.clone(), EK::Ctor(Ctor::Reject, vec![x]))
                }
            }
            Ty::Param(_) => unreachable!("type parameter outside declaration"),
        }
    }

    fn leaf_scalar(&mut self, ty: &Ty, typed: bool) -> Expr {
        let paths = self.paths_of(ty);
        if !paths.is_empty() && self.rng.chance(1, 2) {
            let (root, fields) = paths[self.rng.usize(paths.len())].clone();
            return Expr::new(ty.clone(), EK::Path(root, fields));
        }
        let eff = self.cfg.effects;
        if self.rng.chance(eff, 100)
            && let Some(e) = self.input_call(ty)
        {
            return e;
        }
        self.literal(ty, typed).expect("scalar literal")
    }

    /// `{ let t: T = <typed expr>; t }` — makes any expression self-typed.
    fn via_block(&mut self, ty: &Ty, depth: u32) -> Expr {
        let name = self.fresh("t");
        self.push_scope();
        let init = self.construct(ty, depth, true);
        self.pop_scope();
        self.tag("expr:typed-block".into());
        let b = Block {
            stmts: vec![Stmt::Let(name.clone(), Some(ty.clone()), init)],
            tail: Some(Box::new(Expr::var(&name, ty.clone()))),
        };
        Expr::new(ty.clone(), EK::Block(b))
    }

    /// Can a value of this type be written so that its type is determined
    /// bottom-up (without context)?
    fn self_typed_possible(&self, ty: &Ty) -> bool {
        match ty {
            Ty::Named(_, args) => args.is_empty(),
            Ty::Opt(t) | Ty::List(t) => self.self_typed_possible(t),
            Ty::Anon(fs) => fs.iter().all(|(_, t)| self.self_typed_possible(t)),
            _ => true,
        }
    }

    fn sub(&mut self, ty: &Ty, depth: u32, typed: bool) -> Expr {
        self.expr(ty, depth, typed)
    }

    /// Generate an expression of type `ty`.
    /// Receiver of a list search (`contains` / `index`) and its element type: a visible
    /// list when there is one, otherwise a literal whose element type is known without
    /// context (strings, tracked values, i32).
    fn search_receiver(&mut self, d: u32) -> (Expr, Ty) {
        let et = self.scalar_ty();
        let lt = Ty::list(et.clone());
        let paths = self.paths_of(&lt);
        if !paths.is_empty() && self.self_typed_possible(&et) {
            let (root, fields) = paths[self.rng.usize(paths.len())].clone();
            return (Expr::new(lt, EK::Path(root, fields)), et);
        }
        let et2 = match et {
            Ty::Str | Ty::Trk => et,
            _ => Ty::Int(IntTy::I32),
        };
        let l = self.expr(&Ty::list(et2.clone()), d.min(1), false);
        (l, et2)
    }

    pub fn expr(&mut self, ty: &Ty, depth: u32, typed: bool) -> Expr {
        self.size_budget -= 1;
        if depth == 0 || self.size_budget <= 0 {
            return match ty {
                Ty::Unit => Expr::unit(),
                Ty::Bool | Ty::Char | Ty::Int(_) | Ty::F32 | Ty::F64 | Ty::Str => self.leaf(ty, typed),
                _ => {
                    let paths = self.paths_of(ty);
                    if !paths.is_empty() && self.rng.chance(2, 3) {
                        let (root, fields) = paths[self.rng.usize(paths.len())].clone();
                        self.tag("leaf:path".into());
                        Expr::new(ty.clone(), EK::Path(root, fields))
                    } else if let Some(e) = self.input_call(ty).filter(|_| self.rng.bool()) {
                        e
                    } else {
                        self.construct(ty, 0, typed)
                    }
                }
            };
        }
        let d = depth - 1;

        // productions applicable to every type
        let mut prods: Vec<(&'static str, u32)> = vec![("leaf", 30), ("if", 8), ("block", 3), ("call", 10), ("paren", 1)];
        if self.scrutinee_available() {
            prods.push(("match", 8));
        }
        if self.cfg.early_return && !self.in_const && self.loop_depth == 0 && self.no_div == 0 {
            prods.push(("if-ret", 3));
        }
        if matches!(self.cur_ret, Ty::Opt(_)) && !self.in_const && self.cfg.options && self.no_div == 0 {
            prods.push(("try", 6));
        }
        if self.cfg.lists && !matches!(ty, Ty::Unit) {
            prods.push(("list-get", 3));
        }
        match ty {
            Ty::Unit => {}
            Ty::Bool => {
                prods.extend([("cmp", 18), ("eq", 12), ("logic", 12), ("not", 6)]);
                if self.cfg.lists {
                    prods.push(("list-bool", 4));
                }
            }
            Ty::Int(t) => {
                prods.push(("arith", 30));
                if t.signed() {
                    prods.push(("neg", 6));
                }
                if *t == IntTy::U64 && self.cfg.lists {
                    prods.push(("list-len", 4));
                }
                if *t == IntTy::I64 && self.cfg.trk {
                    prods.push(("trk-tag", 5));
                }
            }
            Ty::F32 | Ty::F64 => {
                prods.push(("arith", 25));
                prods.push(("neg", 6));
            }
            Ty::Str => {
                prods.push(("str-add", 10));
                if self.cfg.fstrings {
                    prods.push(("fstr", 12));
                }
            }
            Ty::Char => {}
            Ty::List(_) => {
                prods.push(("construct", 20));
                prods.push(("list-add", 6));
            }
            Ty::Trk => {
                prods.push(("construct", 15));
                prods.push(("trk-join", 6));
            }
            Ty::Opt(t) if **t == Ty::Int(IntTy::U64) && self.cfg.lists => {
                prods.push(("construct", 24));
                prods.push(("list-index", 8));
            }
            _ => {
                prods.push(("construct", 30));
            }
        }
        let ws: Vec<u32> = prods.iter().map(|p| p.1).collect();
        let which = prods[self.rng.weighted(&ws)].0;
        match which {
            "leaf" => {
                if matches!(ty, Ty::Unit | Ty::Bool | Ty::Char | Ty::Int(_) | Ty::F32 | Ty::F64 | Ty::Str) {
                    self.leaf(ty, typed)
                } else {
                    self.expr(ty, 0, typed)
                }
            }
            "paren" => {
                let a = self.expr(ty, d, typed);
                Expr::new(ty.clone(), EK::Paren(Box::new(a)))
            }
            "construct" => self.construct(ty, depth, typed),
            "if" => {
                let c = self.expr(&Ty::Bool, d, true);
                let t = self.value_block(ty, d, typed);
                let e = self.value_block(ty, d, typed);
                self.tag("expr:if-else".into());
                Expr::new(ty.clone(), EK::If(Box::new(c), t, Some(e)))
            }
            "if-ret" => {
                // `if c { return X } else { value }`: one diverging branch
                let c = self.expr(&Ty::Bool, d, true);
                let ret = self.ret_stmt(d);
                let t = Block { stmts: vec![], tail: Some(Box::new(ret)) };
                let e = self.value_block(ty, d, typed);
                self.tag("expr:if-diverging-branch".into());
                if self.rng.bool() {
                    Expr::new(ty.clone(), EK::If(Box::new(c), t, Some(e)))
                } else {
                    Expr::new(ty.clone(), EK::If(Box::new(c), e, Some(t)))
                }
            }
            "block" => {
                let b = self.value_block(ty, d, typed);
                self.tag("expr:block".into());
                Expr::new(ty.clone(), EK::Block(b))
            }
            "match" => self.match_expr(ty, d, typed),
            "call" => self.call_expr(ty, d, typed),
            "try" => {
                let ot = Ty::opt(ty.clone());
                if !typed && !self.self_typed_possible(ty) {
                    return self.expr(ty, 0, typed);
                }
                let a = self.expr(&ot, d, typed);
                // `None?`-style operands whose type only the context knows are avoided
                self.tag("expr:try".into());
                Expr::new(ty.clone(), EK::Try(Box::new(a)))
            }
            "list-get" => {
                // match list.get(i) { Some(x) => x, None => default }
                let lt = Ty::list(ty.clone());
                let paths = self.paths_of(&lt);
                if paths.is_empty() {
                    return self.expr(ty, d, typed);
                }
                let (root, fields) = paths[self.rng.usize(paths.len())].clone();
                let recv = Expr::new(lt, EK::Path(root, fields));
                let idx = self.expr(&Ty::Int(IntTy::U64), d.min(1), true);
                let get = Expr::new(Ty::opt(ty.clone()), EK::Method(Box::new(recv), "get".into(), vec![idx]));
                let b = self.fresh("e");
                let some_body = Block { stmts: vec![], tail: Some(Box::new(Expr::var(&b, ty.clone()))) };
                let none_body = self.value_block(ty, d.min(1), typed);
                self.tag("expr:list-get".into());
                let arms = vec![
                    Arm { variant: Some(0), variant_name: "Some".into(), binds: vec![b], guard: None, body: some_body },
                    Arm { variant: Some(1), variant_name: "None".into(), binds: vec![], guard: None, body: none_body },
                ];
                Expr::new(ty.clone(), EK::Match(Box::new(get), arms))
            }
            "cmp" => {
                let ot = self.numeric_ty();
                let op = *self.rng.pick(&CMPS);
                let (l, r) = self.operand_pair(&ot, d);
                self.tag(format!("bin:{}:{}", op.sym(), ty_tag(&ot)));
                Expr::new(Ty::Bool, EK::Bin(op, Box::new(l), Box::new(r)))
            }
            "eq" if self.rng.chance(1, 3) && self.near_copy_root().is_some() => {
                // a record compared with a copy of itself that differs in exactly one
                // (possibly deeply nested) leaf: the comparison has to look at that leaf
                let (root, rty) = self.near_copy_root().expect("checked");
                let op = if self.rng.bool() { BinOp::Eq } else { BinOp::Ne };
                let l = Expr::new(rty.clone(), EK::Path(root.clone(), vec![]));
                let mut depth_reached = 0;
                let r = self.near_copy(&root, &mut Vec::new(), &rty, &mut depth_reached);
                self.tag(format!("bin:{}:near-copy:depth{}", op.sym(), depth_reached));
                Expr::new(Ty::Bool, EK::Bin(op, Box::new(l), Box::new(r)))
            }
            "eq" => {
                let ot = if self.rng.chance(1, 2) { self.scalar_ty() } else { self.value_ty(2) };
                let op = if self.rng.bool() { BinOp::Eq } else { BinOp::Ne };
                let (l, r) = self.operand_pair(&ot, d);
                self.tag(format!("bin:{}:{}", op.sym(), ty_tag(&ot)));
                Expr::new(Ty::Bool, EK::Bin(op, Box::new(l), Box::new(r)))
            }
            "logic" => {
                let op = if self.rng.bool() { BinOp::And } else { BinOp::Or };
                let l = self.expr(&Ty::Bool, d, true);
                let r = self.expr(&Ty::Bool, d, true);
                self.tag(format!("bin:{}:bool", op.sym()));
                Expr::new(Ty::Bool, EK::Bin(op, Box::new(l), Box::new(r)))
            }
            "not" => {
                let a = self.expr(&Ty::Bool, d, true);
                self.tag("un:!:bool".into());
                Expr::new(Ty::Bool, EK::Un(UnOp::Not, Box::new(a)))
            }
            "neg" => {
                let a = if typed && self.rng.chance(1, 4) {
                    self.literal(ty, true).expect("numeric literal")
                } else {
                    self.expr(ty, d, false)
                };
                self.tag(format!("un:-:{}", ty_tag(ty)));
                Expr::new(ty.clone(), EK::Un(UnOp::Neg, Box::new(a)))
            }
            "arith" => {
                let ops: &[BinOp] = if ty.is_float() { &ARITH[..4] } else { &ARITH };
                let op = *self.rng.pick(ops);
                // the left operand must have a numeric type at the moment it is
                // checked: it is self-typed, or (where the context fixes the type)
                // a bare literal
                let (l, mut r) = if typed && self.rng.chance(1, 4) {
                    (self.literal(ty, true).expect("numeric literal"), self.expr(ty, d, true))
                } else {
                    self.operand_pair(ty, d)
                };
                if matches!(op, BinOp::Div | BinOp::Mod) && ty.is_int() && !self.cfg.raw_div {
                    r = self.nonzero_divisor(ty, r);
                }
                self.tag(format!("bin:{}:{}", op.sym(), ty_tag(ty)));
                Expr::new(ty.clone(), EK::Bin(op, Box::new(l), Box::new(r)))
            }
            "str-add" => {
                // left operand must be known to be a String when it is checked
                let l = self.expr(&Ty::Str, d, false);
                let r = self.expr(&Ty::Str, d, true);
                self.tag("bin:+:String".into());
                Expr::new(Ty::Str, EK::Bin(BinOp::Add, Box::new(l), Box::new(r)))
            }
            "list-add" => {
                if !self.self_typed_possible(ty) {
                    return self.construct(ty, depth, typed);
                }
                let l = self.expr(ty, d, false);
                let r = self.expr(ty, d, true);
                self.tag("bin:+:List".into());
                Expr::new(ty.clone(), EK::Bin(BinOp::Add, Box::new(l), Box::new(r)))
            }
            "fstr" => self.fstring(d),
            "list-index" => {
                let recv = self.search_receiver(d);
                let a = self.expr(&recv.1, d.min(1), true);
                self.tag(format!("method:List.index:{}", ty_tag(&recv.1)));
                Expr::new(ty.clone(), EK::Method(Box::new(recv.0), "index".into(), vec![a]))
            }
            "list-bool" => {
                let recv = self.search_receiver(d);
                if self.rng.chance(1, 3) {
                    self.tag("method:List.is_empty".into());
                    Expr::new(Ty::Bool, EK::Method(Box::new(recv.0), "is_empty".into(), vec![]))
                } else {
                    let a = self.expr(&recv.1, d.min(1), true);
                    self.tag(format!("method:List.contains:{}", ty_tag(&recv.1)));
                    Expr::new(Ty::Bool, EK::Method(Box::new(recv.0), "contains".into(), vec![a]))
                }
            }
            "list-len" => {
                let mut cands = Vec::new();
                for v in self.visible() {
                    if let Ty::List(_) = v.ty {
                        cands.push(v);
                    }
                }
                if cands.is_empty() {
                    return self.leaf(ty, typed);
                }
                let v = cands[self.rng.usize(cands.len())].clone();
                self.tag("method:List.len".into());
                Expr::new(ty.clone(), EK::Method(Box::new(Expr::var(&v.name, v.ty)), "len".into(), vec![]))
            }
            "trk-tag" => {
                let a = self.expr(&Ty::Trk, d, false);
                if self.rng.bool() {
                    self.tag("method:Trk.tag".into());
                    Expr::new(ty.clone(), EK::Method(Box::new(a), "tag".into(), vec![]))
                } else {
                    self.tag("host:trk_tag".into());
                    Expr::new(ty.clone(), EK::Host("trk_tag".into(), vec![a]))
                }
            }
            "trk-join" => {
                let a = self.expr(&Ty::Trk, d, false);
                let b = self.expr(&Ty::Trk, d, true);
                self.tag("method:Trk.join".into());
                Expr::new(Ty::Trk, EK::Method(Box::new(a), "join".into(), vec![b]))
            }
            _ => unreachable!(),
        }
    }

    fn numeric_ty(&mut self) -> Ty {
        let mut opts: Vec<Ty> = self.cfg.ints.iter().map(|t| Ty::Int(*t)).collect();
        if self.cfg.floats {
            opts.push(Ty::F32);
            opts.push(Ty::F64);
        }
        opts[self.rng.usize(opts.len())].clone()
    }

    /// Two operands of the same type for a context that does not fix it:
    /// the left one is generated self-typed, the right one may lean on it.
    /// A visible variable of a record type (for `near_copy`).
    fn near_copy_root(&self) -> Option<(String, Ty)> {
        let c: Vec<(String, Ty)> = self
            .visible()
            .into_iter()
            .filter(|v| self.prog.record_fields(&v.ty).is_some_and(|f| !f.is_empty()))
            .map(|v| (v.name.clone(), v.ty.clone()))
            .collect();
        if c.is_empty() {
            return None;
        }
        // deterministic choice that does not consume random numbers in the guard: the
        // most deeply nested record
        let mut best = 0;
        for i in 1..c.len() {
            if self.rec_depth(&c[i].1, 4) > self.rec_depth(&c[best].1, 4) {
                best = i;
            }
        }
        Some(c[best].clone())
    }

    fn rec_depth(&self, ty: &Ty, fuel: u32) -> u32 {
        if fuel == 0 {
            return 0;
        }
        match self.prog.record_fields(ty) {
            Some(fs) if !fs.is_empty() => 1 + fs.iter().map(|(_, t)| self.rec_depth(t, fuel - 1)).max().unwrap_or(0),
            _ => 0,
        }
    }

    /// A literal that copies `root.fields` field by field except for one leaf, which
    /// gets a fresh value.
    fn near_copy(&mut self, root: &str, fields: &mut Vec<String>, ty: &Ty, depth: &mut u32) -> Expr {
        let Some(fs) = self.prog.record_fields(ty).filter(|f| !f.is_empty()) else {
            return self.expr(ty, 1, true);
        };
        *depth += 1;
        // prefer fields that are records themselves and fields that are not the first one
        let ws: Vec<u32> = fs
            .iter()
            .enumerate()
            .map(|(i, (_, t))| if self.rec_depth(t, 4) > 0 { 6 } else { 1 } + if i > 0 { 1 } else { 0 })
            .collect();
        let j = self.rng.weighted(&ws);
        let mut out = Vec::new();
        for (i, (n, ft)) in fs.iter().enumerate() {
            fields.push(n.clone());
            let v = if i == j { self.near_copy(root, fields, ft, depth) } else { Expr::new(ft.clone(), EK::Path(root.to_string(), fields.clone())) };
            fields.pop();
            out.push((n.clone(), v));
        }
        let named = match ty {
            Ty::Named(d, args) if args.is_empty() => Some(*d),
            _ => None,
        };
        Expr::new(ty.clone(), EK::RecLit(named, out))
    }

    fn operand_pair(&mut self, ty: &Ty, d: u32) -> (Expr, Expr) {
        let l = if self.self_typed_possible(ty) { self.expr(ty, d, false) } else { self.via_block(ty, d) };
        let r = self.expr(ty, d, true);
        (l, r)
    }

    fn nonzero_divisor(&mut self, ty: &Ty, r: Expr) -> Expr {
        // Keep division well-defined without branching: use a positive literal
        // divisor (never 0 and never -1).
        let Ty::Int(t) = ty else { return r };
        let _ = r;
        let v = 1 + self.rng.below(9) as i128 + if self.rng.chance(1, 4) { 90 } else { 0 };
        let v = v.min(t.max_v());
        Expr::new(ty.clone(), EK::Lit(Lit::Int { v, suffix: true, hex: false, under: false }))
    }

    fn fstring(&mut self, d: u32) -> Expr {
        let n = 1 + self.rng.usize(3);
        let mut parts = Vec::new();
        for _ in 0..n {
            if self.rng.bool() {
                let t = self.text(3);
                if !t.is_empty() {
                    parts.push(FPart::Text(t));
                }
            }
            let mut opts: Vec<Ty> = vec![Ty::Int(IntTy::I32), Ty::Bool];
            opts.extend(self.cfg.ints.iter().map(|t| Ty::Int(*t)));
            if self.cfg.strings {
                opts.push(Ty::Str);
            }
            if self.cfg.chars {
                opts.push(Ty::Char);
            }
            if self.cfg.trk {
                opts.push(Ty::Trk);
            }
            let t = opts[self.rng.usize(opts.len())].clone();
            let e = self.expr(&t, d.min(2), false);
            // string literals (and nested quotes) inside `{}` are not emitted
            if contains_quote(&e) {
                continue;
            }
            self.tag(format!("fstr:part:{}", ty_tag(&t)));
            parts.push(FPart::Expr(e));
        }
        if self.rng.bool() {
            let t = self.text(3);
            if !t.is_empty() {
                parts.push(FPart::Text(t));
            }
        }
        Expr::new(Ty::Str, EK::FStr(parts))
    }

    fn scrutinee_available(&self) -> bool {
        self.visible().iter().any(|v| self.prog.enum_variants(&v.ty).is_some()) || self.cfg.options
    }

    fn match_expr(&mut self, ty: &Ty, d: u32, typed: bool) -> Expr {
        // scrutinee: prefer a visible enum-typed path, else an Option expression
        let mut cands: Vec<(String, Vec<String>, Ty)> = Vec::new();
        for v in self.visible() {
            let mut stack = vec![(Vec::<String>::new(), v.ty.clone())];
            while let Some((fields, t)) = stack.pop() {
                if self.prog.enum_variants(&t).is_some() {
                    cands.push((v.name.clone(), fields.clone(), t.clone()));
                }
                if fields.len() < 2
                    && let Some(fs) = self.prog.record_fields(&t)
                {
                    for (n, ft) in fs {
                        let mut f2 = fields.clone();
                        f2.push(n);
                        stack.push((f2, ft));
                    }
                }
            }
        }
        let scrut = if !cands.is_empty() && self.rng.chance(3, 4) {
            let (root, fields, t) = cands[self.rng.usize(cands.len())].clone();
            Expr::new(t, EK::Path(root, fields))
        } else if self.cfg.options {
            let inner = self.scalar_ty();
            let ot = Ty::opt(inner);
            let e = self.expr(&ot, d, false);
            if e.ty != ot {
                return self.expr(ty, d, typed);
            }
            e
        } else {
            return self.expr(ty, d, typed);
        };
        let variants = self.prog.enum_variants(&scrut.ty).unwrap();
        let mut arms = Vec::new();
        let mut order: Vec<usize> = (0..variants.len()).collect();
        self.rng.shuffle(&mut order);
        let use_default = variants.len() > 1 && self.rng.chance(1, 3);
        let cut = if use_default { 1 + self.rng.usize(variants.len() - 1) } else { variants.len() };
        for (pos, &vi) in order.iter().enumerate() {
            if pos >= cut {
                break;
            }
            let (vn, fts) = &variants[vi];
            // optionally a guarded arm for this variant first
            let guarded = self.rng.chance(1, 4);
            let rounds = if guarded { 2 } else { 1 };
            for round in 0..rounds {
                let binds: Vec<String> = fts.iter().map(|_| self.fresh("b")).collect();
                self.push_scope();
                for (b, t) in binds.iter().zip(fts.iter()) {
                    self.declare(b, t.clone(), true);
                }
                let guard = if guarded && round == 0 {
                    let g = self.guard_expr(d);
                    self.tag("match:guard".into());
                    Some(g)
                } else {
                    None
                };
                let body = self.value_block_inner(ty, d, typed);
                self.pop_scope();
                arms.push(Arm { variant: Some(vi), variant_name: vn.clone(), binds, guard, body });
            }
        }
        // guarded `_` arms anywhere among the variant arms (the match stays exhaustive:
        // every variant has an unguarded arm or the final `_` follows)
        if self.rng.chance(1, 4) {
            for _ in 0..1 + self.rng.usize(2) {
                self.push_scope();
                let g = self.guard_expr(d);
                let body = self.value_block_inner(ty, d, typed);
                self.pop_scope();
                let at = self.rng.usize(arms.len() + 1);
                arms.insert(at, Arm { variant: None, variant_name: "_".into(), binds: vec![], guard: Some(g), body });
                self.tag(format!("match:guarded-default:{}", if use_default { "before-default" } else { "all-variants-named" }));
            }
        }
        if use_default {
            self.push_scope();
            let body = self.value_block_inner(ty, d, typed);
            self.pop_scope();
            arms.push(Arm { variant: None, variant_name: "_".into(), binds: vec![], guard: None, body });
            self.tag("match:default".into());
        }
        self.tag(format!("expr:match:{}", match &scrut.ty {
            Ty::Opt(_) => "option",
            Ty::Verdict(..) => "verdict",
            _ => "enum",
        }));
        Expr::new(ty.clone(), EK::Match(Box::new(scrut), arms))
    }

    fn guard_expr(&mut self, d: u32) -> Expr {
        let avoid = self.cfg.avoid.guard_temps;
        if avoid {
            self.no_div += 1;
        }
        let mut res = None;
        for _ in 0..8 {
            let g = self.expr(&Ty::Bool, d.min(2), true);
            if avoid && self.expr_is_heapy(&g) {
                continue;
            }
            res = Some(g);
            break;
        }
        if avoid {
            self.no_div -= 1;
        }
        res.unwrap_or_else(|| Expr::boolean(self.rng.bool()))
    }

    fn call_expr(&mut self, ty: &Ty, d: u32, typed: bool) -> Expr {
        if self.in_const {
            return self.expr(ty, 0, typed);
        }
        // script functions with the wanted return type
        let cands: Vec<usize> = (0..self.sigs.len())
            .filter(|&j| j != self.sigs.len() - 1 && self.sigs[j].ret == *ty)
            .filter(|&j| j < self.cur_fn || (self.cfg.recursion && self.sigs[self.cur_fn].has_fuel))
            .collect();
        if cands.is_empty() {
            return self.expr(ty, d, typed);
        }
        let j = cands[self.rng.usize(cands.len())];
        let sig = self.sigs[j].clone();
        let recursive = j >= self.cur_fn;
        let caller_has_fuel = self.cur_fn < self.sigs.len() && self.sigs[self.cur_fn].has_fuel;
        let mut args = Vec::new();
        for (i, pt) in sig.params.iter().enumerate() {
            if i == 0 && sig.has_fuel {
                let fuel = if recursive {
                    // fuel - 1 (guarded below)
                    Expr::new(
                        Ty::Int(IntTy::U32),
                        EK::Bin(
                            BinOp::Sub,
                            Box::new(Expr::var("fuel", Ty::Int(IntTy::U32))),
                            Box::new(Expr::int(IntTy::U32, 1)),
                        ),
                    )
                } else if caller_has_fuel {
                    Expr::var("fuel", Ty::Int(IntTy::U32))
                } else {
                    let v = self.rng.below(4) as i128;
                    Expr::new(Ty::Int(IntTy::U32), EK::Lit(Lit::Int { v, suffix: false, hex: false, under: false }))
                };
                args.push(fuel);
            } else {
                args.push(self.expr(pt, d.min(2), true));
            }
        }
        let call = Expr::new(ty.clone(), EK::Call(j, args));
        self.tag(if recursive { "call:recursive".into() } else { "call:script".into() });
        if recursive {
            let cond = Expr::new(
                Ty::Bool,
                EK::Bin(
                    BinOp::Gt,
                    Box::new(Expr::var("fuel", Ty::Int(IntTy::U32))),
                    Box::new(Expr::int(IntTy::U32, 0)),
                ),
            );
            let t = Block { stmts: vec![], tail: Some(Box::new(call)) };
            let e = self.value_block(ty, 0, typed);
            Expr::new(ty.clone(), EK::If(Box::new(cond), t, Some(e)))
        } else {
            call
        }
    }

    // ------------------------------------------------------------------
    // blocks and statements
    // ------------------------------------------------------------------

    fn value_block(&mut self, ty: &Ty, d: u32, typed: bool) -> Block {
        self.push_scope();
        let b = self.value_block_inner(ty, d, typed);
        self.pop_scope();
        b
    }

    fn value_block_inner(&mut self, ty: &Ty, d: u32, typed: bool) -> Block {
        let n = if d == 0 { 0 } else { self.rng.usize(3) };
        let mut stmts = Vec::new();
        for _ in 0..n {
            self.stmt(d, &mut stmts);
        }
        if *ty == Ty::Unit && self.rng.bool() {
            return Block { stmts, tail: None };
        }
        let tail = self.expr(ty, d, typed);
        Block { stmts, tail: Some(Box::new(tail)) }
    }

    fn ret_stmt(&mut self, d: u32) -> Expr {
        let ret = self.cur_ret.clone();
        match self.cur_kind {
            FnKind::Fn => {
                self.tag("stmt:return".into());
                if ret == Ty::Unit {
                    Expr::new(Ty::Unit, EK::Ret(RetKind::Return, None))
                } else {
                    let v = self.expr(&ret, d.min(2), true);
                    Expr::new(Ty::Unit, EK::Ret(RetKind::Return, Some(Box::new(v))))
                }
            }
            FnKind::FilterMap | FnKind::Test => {
                let Ty::Verdict(a, r) = ret else { unreachable!() };
                let (k, t) = if self.rng.bool() { (RetKind::Accept, *a) } else { (RetKind::Reject, *r) };
                self.tag(format!("stmt:{}", if k == RetKind::Accept { "accept" } else { "reject" }));
                if t == Ty::Unit {
                    let p = self.unit_payload(d);
                    Expr::new(Ty::Unit, EK::Ret(k, p))
                } else {
                    // the payload types of a filtermap are inferred from its accept /
                    // reject expressions: they must determine their type themselves
                    let v = self.expr(&t, d.min(2), false);
                    Expr::new(Ty::Unit, EK::Ret(k, Some(Box::new(v))))
                }
            }
        }
    }

    /// The payload of `accept` / `reject` on a side of type `()`: nothing, or a call of a
    /// unit-returning logging host function (`accept out_i64(x)`): the call must happen.
    fn unit_payload(&mut self, d: u32) -> Option<Box<Expr>> {
        if self.cfg.no_out || self.rng.bool() {
            self.tag("verdict:unit-side:bare".into());
            return None;
        }
        self.no_div += 1;
        let v = self.expr(&Ty::Int(IntTy::I64), d.min(2), true);
        self.no_div -= 1;
        self.tag("verdict:unit-side:unit-call-payload".into());
        Some(Box::new(Expr::new(Ty::Unit, EK::Host("out_i64".into(), vec![v]))))
    }

    /// `accept e` / `reject e` with a self-typed payload
    fn verdict_stmt(&mut self, kind: RetKind, d: u32) -> Expr {
        let Ty::Verdict(a, r) = self.cur_ret.clone() else { unreachable!() };
        let t = if kind == RetKind::Accept { *a } else { *r };
        if t == Ty::Unit {
            self.tag(format!("stmt:{}", if kind == RetKind::Accept { "accept" } else { "reject" }));
            let p = self.unit_payload(d);
            return Expr::new(Ty::Unit, EK::Ret(kind, p));
        }
        self.no_div += 1;
        let v = self.expr(&t, d.min(2), false);
        self.no_div -= 1;
        self.tag(format!("stmt:{}", if kind == RetKind::Accept { "accept" } else { "reject" }));
        Expr::new(Ty::Unit, EK::Ret(kind, Some(Box::new(v))))
    }

    /// Statements that make the value of `e` observable: one `out_*` per leaf.
    pub fn observe(&mut self, e: Expr, depth: u32, out: &mut Vec<Stmt>) {
        if self.cfg.no_out {
            return;
        }
        let ty = e.ty.clone();
        let host = |name: &str, a: Expr| Stmt::Expr(Expr::new(Ty::Unit, EK::Host(name.into(), vec![a])));
        match &ty {
            Ty::Unit => {}
            Ty::Bool => out.push(host("out_bool", e)),
            Ty::Char => out.push(host("out_char", e)),
            Ty::Int(t) => out.push(host(&format!("out_{}", t.name()), e)),
            Ty::F32 => out.push(host("out_f32", e)),
            Ty::F64 => out.push(host("out_f64", e)),
            Ty::Str => out.push(host("out_str", e)),
            Ty::Trk => out.push(host("out_trk", e)),
            Ty::TrkZ => out.push(host("out_trkz", e)),
            Ty::Trk1 => out.push(host("out_trk1", e)),
            Ty::Param(_) => {}
            Ty::Anon(_) | Ty::Named(..) | Ty::Opt(_) | Ty::Verdict(..) | Ty::List(_) if depth == 0 => {}
            Ty::List(t) => {
                // length, then every element
                let (root, pre): (Expr, Option<Stmt>) = match &e.k {
                    EK::Path(..) => (e.clone(), None),
                    _ => {
                        let n = self.fresh("o");
                        (Expr::var(&n, ty.clone()), Some(Stmt::Let(n, Some(ty.clone()), e.clone())))
                    }
                };
                if let Some(p) = pre {
                    out.push(p);
                }
                out.push(host(
                    "out_u64",
                    Expr::new(Ty::Int(IntTy::U64), EK::Method(Box::new(root.clone()), "len".into(), vec![])),
                ));
                let x = self.fresh("x");
                let mut body = Vec::new();
                self.observe(Expr::var(&x, (**t).clone()), depth - 1, &mut body);
                if !body.is_empty() {
                    out.push(Stmt::Expr(Expr::new(
                        Ty::Unit,
                        EK::For(x, Box::new(root), Block { stmts: body, tail: None }),
                    )));
                }
            }
            Ty::Anon(_) | Ty::Named(..) | Ty::Opt(_) | Ty::Verdict(..) => {
                if let Some(fs) = self.prog.record_fields(&ty) {
                    // bind once so that the value is evaluated once
                    let (base, pre) = match &e.k {
                        EK::Path(r, f) => ((r.clone(), f.clone()), None),
                        _ => {
                            let n = self.fresh("o");
                            ((n.clone(), vec![]), Some(Stmt::Let(n, Some(ty.clone()), e.clone())))
                        }
                    };
                    if let Some(p) = pre {
                        out.push(p);
                    }
                    for (n, t) in fs {
                        let mut f = base.1.clone();
                        f.push(n);
                        self.observe(Expr::new(t, EK::Path(base.0.clone(), f)), depth - 1, out);
                    }
                } else if let Some(vs) = self.prog.enum_variants(&ty) {
                    let mut arms = Vec::new();
                    for (vi, (vn, fts)) in vs.iter().enumerate() {
                        let binds: Vec<String> = fts.iter().map(|_| self.fresh("b")).collect();
                        let mut body = vec![host(
                            "out_u8",
                            Expr::new(
                                Ty::Int(IntTy::U8),
                                EK::Lit(Lit::Int { v: vi as i128, suffix: false, hex: false, under: false }),
                            ),
                        )];
                        for (b, t) in binds.iter().zip(fts) {
                            self.observe(Expr::var(b, t.clone()), depth - 1, &mut body);
                        }
                        arms.push(Arm {
                            variant: Some(vi),
                            variant_name: vn.clone(),
                            binds,
                            guard: None,
                            body: Block { stmts: body, tail: None },
                        });
                    }
                    out.push(Stmt::Expr(Expr::new(Ty::Unit, EK::Match(Box::new(e), arms))));
                }
            }
        }
    }

    fn let_stmt(&mut self, d: u32, out: &mut Vec<Stmt>) {
        // now and then the type of something that is already visible (a parameter, a local), and
        // mostly that very value as the initialiser: a copy under a type annotation of its own
        let vis: Vec<VarInfo> = self.visible().into_iter().filter(|v| !matches!(v.ty, Ty::Unit | Ty::Param(_) | Ty::TrkZ) && v.name != "fuel" && !v.name.starts_with("cnt")).collect();
        let copy_of = if !vis.is_empty() && self.rng.chance(1, 6) { Some(vis[self.rng.usize(vis.len())].clone()) } else { None };
        let ty = match &copy_of {
            Some(v) => v.ty.clone(),
            None => self.value_ty(2),
        };
        let annotate = self.rng.chance(1, 2) || !self.self_typed_possible(&ty) || (copy_of.is_some() && self.rng.chance(2, 3));
        let init = match &copy_of {
            Some(v) if self.rng.chance(3, 4) => {
                self.tag("stmt:let:copy-of-visible".into());
                Expr::var(&v.name, v.ty.clone())
            }
            _ => self.expr(&ty, d, annotate),
        };
        // occasionally shadow a name from an outer scope
        let outer: Vec<String> = if self.scopes.len() > 1 {
            self.scopes[..self.scopes.len() - 1]
                .iter()
                .flat_map(|s| s.iter().map(|v| v.name.clone()))
                .filter(|n| n != "fuel" && !n.starts_with("cnt"))
                .collect()
        } else {
            vec![]
        };
        let cur: BTreeSet<String> = self.scopes.last().unwrap().iter().map(|v| v.name.clone()).collect();
        let name = if !outer.is_empty() && self.rng.chance(1, 10) {
            let n = outer[self.rng.usize(outer.len())].clone();
            if cur.contains(&n) { self.fresh("v") } else {
                self.tag("stmt:let-shadow".into());
                n
            }
        } else {
            self.fresh("v")
        };
        self.tag(format!("stmt:let:{}", if annotate { "annotated" } else { "inferred" }));
        out.push(Stmt::Let(name.clone(), if annotate { Some(ty.clone()) } else { None }, init));
        self.declare(&name, ty.clone(), true);
        // the copy is looked at right away (all of its leaves)
        if copy_of.is_some() && self.rng.chance(2, 3) {
            let depth = if self.cfg.observe_all { 3 } else { 2 };
            self.observe(Expr::var(&name, ty), depth, out);
        }
    }

    fn assign_stmt(&mut self, d: u32, out: &mut Vec<Stmt>) -> bool {
        let places: Vec<(Place, Ty)> = self
            .places()
            .into_iter()
            .filter(|(p, _)| p.root != "fuel" && !p.root.starts_with("cnt"))
            .collect();
        if places.is_empty() {
            return false;
        }
        let (p, ty) = places[self.rng.usize(places.len())].clone();
        if ty.is_numeric() && self.rng.chance(2, 5) {
            let ops: &[BinOp] = if ty.is_float() { &ARITH[..4] } else { &ARITH };
            let op = *self.rng.pick(ops);
            let mut v = self.expr(&ty, d, true);
            if matches!(op, BinOp::Div | BinOp::Mod) && ty.is_int() && !self.cfg.raw_div {
                v = self.nonzero_divisor(&ty, v);
            }
            self.tag(format!("stmt:compound:{}=:{}", op.sym(), ty_tag(&ty)));
            out.push(Stmt::Expr(Expr::new(Ty::Unit, EK::CompAssign(p, op, Box::new(v)))));
        } else {
            let v = self.expr(&ty, d, true);
            self.tag(format!("stmt:assign:{}", if p.fields.is_empty() { "var" } else { "field" }));
            out.push(Stmt::Expr(Expr::new(Ty::Unit, EK::Assign(p, Box::new(v)))));
        }
        true
    }

    fn out_stmt(&mut self, d: u32, out: &mut Vec<Stmt>) {
        let vis = self.visible();
        if !vis.is_empty() && self.rng.chance(3, 5) {
            let v = vis[self.rng.usize(vis.len())].clone();
            let depth = if self.cfg.observe_all { 3 } else { 2 };
            self.observe(Expr::var(&v.name, v.ty), depth, out);
        } else {
            let t = self.scalar_ty();
            let e = self.expr(&t, d, true);
            self.observe(e, 1, out);
        }
        self.tag("stmt:out".into());
    }

    fn while_stmt(&mut self, d: u32, out: &mut Vec<Stmt>) {
        // let cntN = 0; while cntN < K && <cond> { cntN = cntN + 1; body }
        let cnt = self.fresh("cnt");
        let k = self.rng.below(4) as i128;
        let heap_cmp = !self.cfg.avoid.while_cond_temps && (self.cfg.strings || self.cfg.lists || self.cfg.trk) && self.rng.chance(1, 6);
        // (a tracked value is made from an i64)
        let trk_cmp = heap_cmp && self.cfg.trk && self.rng.chance(1, 2);
        let t = if trk_cmp { Ty::Int(IntTy::I64) } else { Ty::Int(IntTy::I32) };
        out.push(Stmt::Let(
            cnt.clone(),
            None,
            Expr::new(t.clone(), EK::Lit(Lit::Int { v: 0, suffix: false, hex: false, under: false })),
        ));
        self.declare(&cnt, t.clone(), false);
        let bound = Expr::new(
            Ty::Bool,
            EK::Bin(
                BinOp::Lt,
                Box::new(Expr::var(&cnt, t.clone())),
                Box::new(Expr::new(t.clone(), EK::Lit(Lit::Int { v: k, suffix: false, hex: false, under: false }))),
            ),
        );
        let cond = if heap_cmp {
            // the whole condition is ONE comparison of values that own heap storage and depend
            // on the counter: `f"{cnt}" != "K"` runs K times, `f"{cnt}" == "0"` runs once
            let lit = |v: i128| Expr::new(t.clone(), EK::Lit(Lit::Int { v, suffix: false, hex: false, under: false }));
            let txt = |v: i128| Expr::new(Ty::Str, EK::Lit(Lit::Str(v.to_string())));
            let var = Expr::var(&cnt, t.clone());
            let fcnt = Expr::new(Ty::Str, EK::FStr(vec![FPart::Expr(var.clone())]));
            let (op, target) = if self.rng.chance(3, 4) { (BinOp::Ne, k) } else { (BinOp::Eq, 0) };
            let mut forms: Vec<(Expr, Expr)> = Vec::new();
            if trk_cmp {
                self.tag("host:mk".into());
                let mk = |a: Expr| Expr::new(Ty::Trk, EK::Host("mk".into(), vec![a]));
                forms.push((mk(var.clone()), mk(lit(target))));
            } else if self.cfg.strings {
                forms.push((fcnt.clone(), txt(target)));
                if self.cfg.options {
                    let o = Ty::opt(Ty::Str);
                    forms.push((Expr::new(o.clone(), EK::Ctor(Ctor::Some, vec![fcnt.clone()])), Expr::new(o, EK::Ctor(Ctor::Some, vec![txt(target)]))));
                }
                if self.cfg.lists {
                    let l = Ty::list(Ty::Str);
                    forms.push((Expr::new(l.clone(), EK::ListLit(vec![fcnt.clone()])), Expr::new(l, EK::ListLit(vec![txt(target)]))));
                }
            }
            if self.cfg.lists && !trk_cmp {
                let l = Ty::list(t.clone());
                forms.push((Expr::new(l.clone(), EK::ListLit(vec![var.clone()])), Expr::new(l, EK::ListLit(vec![lit(target)]))));
            }
            if forms.is_empty() {
                forms.push((var.clone(), lit(target)));
            }
            let (a, b) = forms[self.rng.usize(forms.len())].clone();
            let (a, b) = if self.rng.bool() { (a, b) } else { (b, a) };
            self.tag(format!("while:cond-is-one-heap-comparison:{}", if op == BinOp::Ne { "ne" } else { "eq" }));
            Expr::new(Ty::Bool, EK::Bin(op, Box::new(a), Box::new(b)))
        } else if self.rng.chance(2, 3) {
            let mut extra = None;
            let avoid = self.cfg.avoid.while_cond_temps;
            if avoid {
                self.no_div += 1;
            }
            for _ in 0..8 {
                let c = self.expr(&Ty::Bool, d.min(2), true);
                if avoid && self.expr_is_heapy(&c) {
                    continue;
                }
                extra = Some(c);
                break;
            }
            if avoid {
                self.no_div -= 1;
            }
            match extra {
                Some(c) => Expr::new(Ty::Bool, EK::Bin(BinOp::And, Box::new(bound), Box::new(c))),
                None => bound,
            }
        } else {
            bound
        };
        self.push_scope();
        self.loop_depth += 1;
        let mut body = vec![Stmt::Expr(Expr::new(
            Ty::Unit,
            EK::CompAssign(
                Place { root: cnt.clone(), fields: vec![] },
                BinOp::Add,
                Box::new(Expr::new(t.clone(), EK::Lit(Lit::Int { v: 1, suffix: false, hex: false, under: false }))),
            ),
        ))];
        let n = 1 + self.rng.usize(3);
        for _ in 0..n {
            self.stmt(d, &mut body);
        }
        self.loop_body_return(d, &mut body);
        self.loop_depth -= 1;
        self.pop_scope();
        self.tag("stmt:while".into());
        out.push(Stmt::Expr(Expr::new(Ty::Unit, EK::While(Box::new(cond), Block { stmts: body, tail: None }))));
    }

    /// Now and then a loop body ends in an unconditional return / accept / reject: the loop
    /// runs at most once, and what follows the loop runs exactly when the body was never
    /// entered.
    fn loop_body_return(&mut self, d: u32, body: &mut Vec<Stmt>) {
        if self.cfg.early_return && !self.in_const && self.no_div == 0 && self.rng.chance(1, 8) {
            let r = self.ret_stmt(d.min(1));
            body.push(Stmt::Expr(r));
            self.tag("stmt:loop-body-always-returns".into());
        }
    }

    fn for_stmt(&mut self, d: u32, out: &mut Vec<Stmt>) {
        let et = self.value_ty(1);
        let lt = Ty::list(et.clone());
        let paths = self.paths_of(&lt);
        let (iter, over_var) = if !paths.is_empty() && self.rng.chance(2, 3) {
            let (root, fields) = paths[self.rng.usize(paths.len())].clone();
            (Expr::new(lt.clone(), EK::Path(root, fields)), true)
        } else if self.self_typed_possible(&et) {
            (self.construct(&lt, d.min(2), false), false)
        } else {
            return;
        };
        let x = self.fresh("x");
        self.push_scope();
        self.declare(&x, et.clone(), true);
        self.loop_depth += 1;
        let mut body = Vec::new();
        // mutation of the iterated list from inside the loop, bounded by a counter
        if over_var && self.rng.chance(1, 3) {
            if let EK::Path(root, fields) = &iter.k {
                let recv = Expr::new(lt.clone(), EK::Path(root.clone(), fields.clone()));
                let len = Expr::new(Ty::Int(IntTy::U64), EK::Method(Box::new(recv.clone()), "len".into(), vec![]));
                let cond = Expr::new(
                    Ty::Bool,
                    EK::Bin(BinOp::Lt, Box::new(len), Box::new(Expr::int(IntTy::U64, 6))),
                );
                let v = self.expr(&et, d.min(1), true);
                let push = Stmt::Expr(Expr::new(Ty::Unit, EK::Method(Box::new(recv), "push".into(), vec![v])));
                body.push(Stmt::Expr(Expr::new(
                    Ty::Unit,
                    EK::If(Box::new(cond), Block { stmts: vec![push], tail: None }, None),
                )));
                self.tag("stmt:for-push-inside".into());
            }
        }
        let n = 1 + self.rng.usize(2);
        for _ in 0..n {
            self.stmt(d, &mut body);
        }
        self.observe(Expr::var(&x, et), 1, &mut body);
        self.loop_body_return(d, &mut body);
        self.loop_depth -= 1;
        self.pop_scope();
        self.tag("stmt:for".into());
        out.push(Stmt::Expr(Expr::new(Ty::Unit, EK::For(x, Box::new(iter), Block { stmts: body, tail: None }))));
    }

    fn list_mut_stmt(&mut self, d: u32, out: &mut Vec<Stmt>) -> bool {
        let mut cands = Vec::new();
        for v in self.visible() {
            let mut stack = vec![(Vec::<String>::new(), v.ty.clone())];
            while let Some((fields, t)) = stack.pop() {
                if let Ty::List(et) = &t {
                    cands.push((v.name.clone(), fields.clone(), (**et).clone()));
                }
                if fields.len() < 2
                    && let Some(fs) = self.prog.record_fields(&t)
                {
                    for (n, ft) in fs {
                        let mut f2 = fields.clone();
                        f2.push(n);
                        stack.push((f2, ft));
                    }
                }
            }
        }
        if cands.is_empty() {
            return false;
        }
        let (root, fields, et) = cands[self.rng.usize(cands.len())].clone();
        let recv = Expr::new(Ty::list(et.clone()), EK::Path(root, fields));
        if self.rng.chance(2, 3) {
            let v = self.expr(&et, d.min(2), true);
            self.tag("method:List.push".into());
            out.push(Stmt::Expr(Expr::new(Ty::Unit, EK::Method(Box::new(recv), "push".into(), vec![v]))));
        } else {
            let i = self.expr(&Ty::Int(IntTy::U64), 0, true);
            let j = self.expr(&Ty::Int(IntTy::U64), 0, true);
            self.tag("method:List.swap".into());
            out.push(Stmt::Expr(Expr::new(Ty::Unit, EK::Method(Box::new(recv), "swap".into(), vec![i, j]))));
        }
        true
    }

    /// One statement; if it contains a known-defect pattern that the profile
    /// avoids, it is regenerated without diverging sub-expressions.
    pub fn stmt(&mut self, d: u32, out: &mut Vec<Stmt>) {
        if !self.cfg.avoid.diverge_in_partial || self.no_div > 0 {
            return self.stmt_inner(d, out);
        }
        let mark_out = out.len();
        let mark_scope = self.scopes.last().map(|s| s.len()).unwrap_or(0);
        self.stmt_inner(d, out);
        let bad = out[mark_out..].iter().any(|s| match s {
            Stmt::Let(_, _, e) | Stmt::Expr(e) => self.has_partial_diverge(e),
        });
        if bad {
            out.truncate(mark_out);
            if let Some(s) = self.scopes.last_mut() {
                s.truncate(mark_scope);
            }
            self.no_div += 1;
            self.stmt_inner(d, out);
            self.no_div -= 1;
        }
    }

    pub fn has_partial_diverge(&self, e: &Expr) -> bool {
        let mut bad = false;
        visit(e, &mut |x| bad |= node_partial_diverge(&self.prog, x));
        bad
    }

    fn stmt_inner(&mut self, d: u32, out: &mut Vec<Stmt>) {
        self.size_budget -= 2;
        let d = d.saturating_sub(1);
        let deep = d > 0 && self.size_budget > 0;
        let mut prods: Vec<(&'static str, u32)> = vec![("let", 30), ("assign", 18), ("out", 16), ("expr", 6)];
        if deep {
            prods.push(("if", 10));
            prods.push(("block", 3));
            if self.scrutinee_available() {
                prods.push(("match", 8));
            }
            if self.cfg.loops && self.loop_depth < 2 {
                prods.push(("while", 6));
                if self.cfg.lists {
                    prods.push(("for", 6));
                }
            }
            if self.cfg.early_return && !self.in_const {
                prods.push(("if-return", 5));
            }
        }
        if self.cfg.lists {
            prods.push(("list-mut", 8));
        }
        let ws: Vec<u32> = prods.iter().map(|p| p.1).collect();
        match prods[self.rng.weighted(&ws)].0 {
            "let" => self.let_stmt(d, out),
            "assign" => {
                if !self.assign_stmt(d, out) {
                    self.let_stmt(d, out);
                }
            }
            "out" => self.out_stmt(d, out),
            "expr" => {
                // expression statement whose value is discarded
                let t = self.value_ty(1);
                if self.self_typed_possible(&t) {
                    let e = self.expr(&t, d, false);
                    self.tag("stmt:discard".into());
                    out.push(Stmt::Expr(e));
                }
            }
            "if" => {
                let c = self.expr(&Ty::Bool, d, true);
                let t = self.value_block(&Ty::Unit, d, true);
                let e = if self.rng.bool() { Some(self.value_block(&Ty::Unit, d, true)) } else { None };
                self.tag(format!("stmt:if:{}", if e.is_some() { "else" } else { "no-else" }));
                out.push(Stmt::Expr(Expr::new(Ty::Unit, EK::If(Box::new(c), t, e))));
            }
            "if-return" => {
                let c = self.expr(&Ty::Bool, d, true);
                self.push_scope();
                let mut stmts = Vec::new();
                if self.rng.bool() {
                    self.stmt(d, &mut stmts);
                }
                let r = self.ret_stmt(d);
                self.pop_scope();
                // `c && return v;` / `c || return v;`: the early exit as the right operand of a
                // short-circuit operator (it runs only if the left operand does not decide)
                if stmts.is_empty() && self.rng.chance(1, 4) {
                    let op = if self.rng.bool() { BinOp::And } else { BinOp::Or };
                    let mut r = r;
                    r.ty = Ty::Bool;
                    self.tag("stmt:early-return".into());
                    self.tag(format!("stmt:short-circuit-return:{}", op.sym()));
                    out.push(Stmt::Expr(Expr::new(Ty::Bool, EK::Bin(op, Box::new(c), Box::new(r)))));
                    return;
                }
                let b = if self.rng.bool() {
                    stmts.push(Stmt::Expr(r));
                    Block { stmts, tail: None }
                } else {
                    Block { stmts, tail: Some(Box::new(r)) }
                };
                self.tag("stmt:early-return".into());
                if self.loop_depth > 0 {
                    self.tag("stmt:return-in-loop".into());
                }
                out.push(Stmt::Expr(Expr::new(Ty::Unit, EK::If(Box::new(c), b, None))));
            }
            "block" => {
                let b = self.value_block(&Ty::Unit, d, true);
                self.tag("stmt:block".into());
                out.push(Stmt::Expr(Expr::new(Ty::Unit, EK::Block(b))));
            }
            "match" => {
                let m = self.match_expr(&Ty::Unit, d, true);
                out.push(Stmt::Expr(m));
            }
            "while" => self.while_stmt(d, out),
            "for" => self.for_stmt(d, out),
            "list-mut" => {
                if !self.list_mut_stmt(d, out) {
                    self.let_stmt(d, out);
                }
            }
            _ => unreachable!(),
        }
    }

    // ------------------------------------------------------------------
    // whole program
    // ------------------------------------------------------------------

    pub fn main_ret_types(&self) -> Vec<Ty> {
        let mut v: Vec<Ty> = vec![Ty::Unit, Ty::Bool];
        v.extend(self.cfg.ints.iter().map(|t| Ty::Int(*t)));
        if self.cfg.floats {
            v.push(Ty::F32);
            v.push(Ty::F64);
        }
        if self.cfg.chars {
            v.push(Ty::Char);
        }
        if self.cfg.strings {
            v.push(Ty::Str);
        }
        if self.cfg.options {
            v.push(Ty::opt(Ty::Int(IntTy::I64)));
            v.push(Ty::opt(Ty::Int(IntTy::I64)));
            if self.cfg.trk {
                v.push(Ty::opt(Ty::Trk));
            }
        }
        if self.cfg.trk {
            v.push(Ty::Trk);
        }
        v
    }

    pub fn program(mut self) -> (Program, BTreeSet<String>) {
        self.gen_type_decls();

        // constants (independent of each other here; C14 has its own generator)
        let nc = if self.cfg.consts == 0 { 0 } else { self.rng.usize(self.cfg.consts + 1) };
        let mut const_infos = Vec::new();
        for i in 0..nc {
            let mut ty = match self.rng.below(4) {
                0 if self.cfg.strings => Ty::Str,
                1 if self.cfg.floats => Ty::F64,
                2 => Ty::Bool,
                _ => Ty::Int(*self.rng.pick(&self.cfg.ints.clone())),
            };
            // aggregate constants (records, enums, options, nested): their fields are read
            // through paths `K_0.a.b` like those of any other visible name. Drop-tracked host
            // values only where the family's ledger keeps a baseline (cfg.trk_consts: they
            // are created at compile time, outside the per-call accounting), and no lists (a list constant is shared, mutable state across calls).
            if (self.cfg.options || !self.prog.types.is_empty()) && self.rng.chance(1, 2) {
                for _ in 0..6 {
                    let t = self.value_ty(2);
                    if self.const_ok(&t) && !matches!(t, Ty::Anon(_)) {
                        if !matches!(t, Ty::Int(_) | Ty::Bool | Ty::F32 | Ty::F64 | Ty::Char | Ty::Str) {
                            self.tag("decl:const-aggregate".into());
                        }
                        ty = t;
                        break;
                    }
                }
            }
            self.in_const = true;
            self.push_scope();
            let saved = self.cfg.effects;
            self.cfg.effects = 0;
            let init = self.expr(&ty, 2, true);
            self.cfg.effects = saved;
            self.pop_scope();
            self.in_const = false;
            let name = format!("K_{i}");
            self.prog.consts.push(ConstDecl { name: name.clone(), ty: ty.clone(), init });
            const_infos.push((name, ty));
            self.tag("decl:const".into());
        }

        // registered constants of the harness runtime: visible like script constants (a random
        // subset, so that they do not crowd out the program's own names)
        if self.cfg.host_consts {
            for (n, t, _) in crate::host::host_consts() {
                let ok = match &t {
                    Ty::Str => self.cfg.strings,
                    Ty::F64 | Ty::F32 => self.cfg.floats,
                    Ty::Char => self.cfg.chars,
                    Ty::Opt(a) => self.cfg.options && (**a != Ty::Str || self.cfg.strings),
                    Ty::Verdict(..) => self.cfg.options && self.cfg.strings,
                    Ty::Int(i) => self.cfg.ints.contains(i),
                    _ => true,
                };
                if ok && self.rng.chance(self.cfg.host_consts_in_3, 3) {
                    const_infos.push((n.to_string(), t));
                    self.tag("decl:registered-constant-visible".into());
                }
            }
        }

        // signatures
        let nf = self.cfg.fns.0 + self.rng.usize(self.cfg.fns.1 - self.cfg.fns.0 + 1);
        for i in 0..nf {
            let is_main = i == nf - 1;
            if is_main {
                if self.cfg.filtermap_main && self.rng.chance(1, 3) {
                    // payload types of the two sides: i64 or () (a side without payload)
                    let t = Ty::Int(IntTy::I64);
                    let (a, r) = match self.rng.below(6) {
                        0 => (Ty::Unit, Ty::Unit),
                        1 => (t.clone(), Ty::Unit),
                        2 => (Ty::Unit, t.clone()),
                        _ => (t.clone(), t),
                    };
                    self.sigs.push(FnSig { params: vec![], ret: Ty::Verdict(Box::new(a), Box::new(r)), has_fuel: false });
                } else {
                    let rets = self.main_ret_types();
                    let ret = rets[self.rng.usize(rets.len())].clone();
                    self.sigs.push(FnSig { params: vec![], ret, has_fuel: false });
                }
            } else {
                let has_fuel = self.cfg.recursion;
                let mut params = Vec::new();
                if has_fuel {
                    params.push(Ty::Int(IntTy::U32));
                }
                let np = self.rng.usize(4);
                for _ in 0..np {
                    params.push(self.value_ty(2));
                }
                let ret = if self.rng.chance(1, 6) { Ty::Unit } else { self.value_ty(2) };
                self.sigs.push(FnSig { params, ret, has_fuel });
            }
        }

        // bodies
        for i in 0..nf {
            let sig = self.sigs[i].clone();
            let is_main = i == nf - 1;
            self.cur_fn = i;
            self.cur_ret = sig.ret.clone();
            self.cur_kind = if matches!(sig.ret, Ty::Verdict(..)) && is_main { FnKind::FilterMap } else { FnKind::Fn };
            self.size_budget = if is_main { 260 } else { 140 };
            self.scopes.clear();
            self.push_scope();
            for (n, t) in &const_infos {
                self.declare(n, t.clone(), false);
            }
            self.push_scope();
            let mut params = Vec::new();
            for (pi, pt) in sig.params.iter().enumerate() {
                let name = if pi == 0 && sig.has_fuel { "fuel".to_string() } else { format!("p{pi}") };
                self.declare(&name, pt.clone(), !(pi == 0 && sig.has_fuel));
                params.push((name, pt.clone()));
            }
            let depth = self.cfg.max_depth;
            let ns = 1 + self.rng.usize(self.cfg.max_stmts);
            let mut stmts = Vec::new();
            // a parameter whose type is a written-out anonymous record is copied into a local
            // that spells the type again, and the copy is looked at field by field
            for (pn, pt) in params.clone() {
                if matches!(&pt, Ty::Anon(fs) if fs.len() >= 2) && self.rng.chance(2, 3) {
                    let c = self.fresh("v");
                    stmts.push(Stmt::Let(c.clone(), Some(pt.clone()), Expr::var(&pn, pt.clone())));
                    self.declare(&c, pt.clone(), true);
                    self.observe(Expr::var(&c, pt.clone()), 3, &mut stmts);
                    self.tag("stmt:let:copy-of-anon-record-parameter".into());
                }
            }
            for _ in 0..ns {
                self.stmt(depth, &mut stmts);
            }
            if is_main || self.rng.chance(1, 3) {
                // make the final state observable
                let vis = self.visible();
                for v in vis.iter().take(6) {
                    if v.name == "fuel" || v.name.starts_with("K_") {
                        continue;
                    }
                    let depth = if self.cfg.observe_all { 3 } else { 1 };
                    self.observe(Expr::var(&v.name, v.ty.clone()), depth, &mut stmts);
                }
            }
            let body = if self.cur_kind == FnKind::FilterMap {
                // both sides are used at least once, so that both payload types are
                // determined by the script: an early guarded verdict and a final one
                let first = if self.rng.bool() { RetKind::Accept } else { RetKind::Reject };
                let last = if first == RetKind::Accept { RetKind::Reject } else { RetKind::Accept };
                let early = self.verdict_stmt(first, depth.min(3));
                let c = self.expr(&Ty::Bool, 2, true);
                stmts.push(Stmt::Expr(Expr::new(
                    Ty::Unit,
                    EK::If(Box::new(c), Block { stmts: vec![], tail: Some(Box::new(early)) }, None),
                )));
                let r = self.verdict_stmt(last, depth.min(3));
                Block { stmts, tail: Some(Box::new(r)) }
            } else if sig.ret == Ty::Unit {
                Block { stmts, tail: None }
            } else {
                let mut tail = self.expr(&sig.ret, depth.min(3), true);
                if self.cfg.avoid.diverge_in_partial && self.has_partial_diverge(&tail) {
                    self.no_div += 1;
                    tail = self.expr(&sig.ret, depth.min(3), true);
                    self.no_div -= 1;
                }
                if self.rng.chance(1, 6) {
                    self.tag("stmt:return-tail".into());
                    stmts.push(Stmt::Expr(Expr::new(Ty::Unit, EK::Ret(RetKind::Return, Some(Box::new(tail))))));
                    Block { stmts, tail: None }
                } else {
                    Block { stmts, tail: Some(Box::new(tail)) }
                }
            };
            self.pop_scope();
            self.pop_scope();
            let name = if is_main { "main".to_string() } else { format!("fn{i}") };
            self.prog.fns.push(FnDecl { name, kind: self.cur_kind, params, ret: sig.ret.clone(), body });
        }

        // random order of top-level items
        let mut order: Vec<(u8, usize)> = Vec::new();
        order.extend((0..self.prog.types.len()).map(|i| (0u8, i)));
        order.extend((0..self.prog.consts.len()).map(|i| (1u8, i)));
        order.extend((0..self.prog.fns.len()).map(|i| (2u8, i)));
        self.rng.shuffle(&mut order);
        self.prog.item_order = order;
        (self.prog, self.tags)
    }
}

pub fn ty_tag(t: &Ty) -> String {
    match t {
        Ty::Unit => "unit".into(),
        Ty::Bool => "bool".into(),
        Ty::Char => "char".into(),
        Ty::Int(i) => i.name().into(),
        Ty::F32 => "f32".into(),
        Ty::F64 => "f64".into(),
        Ty::Str => "String".into(),
        Ty::Opt(_) => "Option".into(),
        Ty::List(_) => "List".into(),
        Ty::Named(..) => "named".into(),
        Ty::Anon(_) => "anon".into(),
        Ty::Verdict(..) => "Verdict".into(),
        Ty::Trk => "Trk".into(),
        Ty::TrkZ => "TrkZ".into(),
        Ty::Trk1 => "Trk1".into(),
        Ty::Param(_) => "param".into(),
    }
}

fn contains_quote(e: &Expr) -> bool {
    let mut q = false;
    visit(e, &mut |x| match &x.k {
        EK::Lit(Lit::Str(_)) | EK::FStr(_) => q = true,
        EK::Lit(Lit::Char(c)) if *c == '"' => q = true,
        _ => {}
    });
    q
}

/// Visit every sub-expression (including those in blocks).
pub fn visit(e: &Expr, f: &mut dyn FnMut(&Expr)) {
    f(e);
    let mut blk = |b: &Block, f: &mut dyn FnMut(&Expr)| visit_block(b, f);
    match &e.k {
        EK::Lit(_) | EK::Path(..) => {}
        EK::Field(a, _) | EK::Un(_, a) | EK::Try(a) | EK::Paren(a) => visit(a, f),
        EK::Bin(_, a, b) => {
            visit(a, f);
            visit(b, f);
        }
        EK::If(c, t, el) => {
            visit(c, f);
            blk(t, f);
            if let Some(el) = el {
                blk(el, f);
            }
        }
        EK::Match(s, arms) => {
            visit(s, f);
            for a in arms {
                if let Some(g) = &a.guard {
                    visit(g, f);
                }
                blk(&a.body, f);
            }
        }
        EK::Call(_, args) | EK::Host(_, args) | EK::Ctor(_, args) | EK::ListLit(args) => {
            for a in args {
                visit(a, f);
            }
        }
        EK::Method(r, _, args) => {
            visit(r, f);
            for a in args {
                visit(a, f);
            }
        }
        EK::RecLit(_, fs) => {
            for (_, a) in fs {
                visit(a, f);
            }
        }
        EK::FStr(ps) => {
            for p in ps {
                if let FPart::Expr(a) = p {
                    visit(a, f);
                }
            }
        }
        EK::Block(b) => blk(b, f),
        EK::Ret(_, v) => {
            if let Some(v) = v {
                visit(v, f);
            }
        }
        EK::Assign(_, v) | EK::CompAssign(_, _, v) => visit(v, f),
        EK::While(c, b) => {
            visit(c, f);
            blk(b, f);
        }
        EK::For(_, it, b) => {
            visit(it, f);
            blk(b, f);
        }
    }
}

pub fn visit_block(b: &Block, f: &mut dyn FnMut(&Expr)) {
    for s in &b.stmts {
        match s {
            Stmt::Let(_, _, e) | Stmt::Expr(e) => visit(e, f),
        }
    }
    if let Some(t) = &b.tail {
        visit(t, f);
    }
}

pub fn ty_is_heapy(prog: &Program, ty: &Ty) -> bool {
    match ty {
        Ty::Str | Ty::List(_) | Ty::Trk | Ty::TrkZ | Ty::Trk1 => true,
        Ty::Opt(t) => ty_is_heapy(prog, t),
        Ty::Verdict(a, r) => ty_is_heapy(prog, a) || ty_is_heapy(prog, r),
        Ty::Anon(fs) => fs.iter().any(|(_, t)| ty_is_heapy(prog, t)),
        Ty::Named(d, args) => match &prog.types[*d] {
            TypeDecl::Record { fields, .. } => fields.iter().any(|(_, t)| ty_is_heapy(prog, &t.subst(args))),
            TypeDecl::Enum { variants, .. } => {
                variants.iter().any(|(_, ts)| ts.iter().any(|t| ty_is_heapy(prog, &t.subst(args))))
            }
        },
        _ => false,
    }
}

pub fn expr_heapy(prog: &Program, e: &Expr) -> bool {
    let mut h = false;
    visit(e, &mut |x| h |= ty_is_heapy(prog, &x.ty) || matches!(x.k, EK::FStr(_)));
    h
}

pub fn diverges_inside(e: &Expr) -> bool {
    let mut d = false;
    visit(e, &mut |x| d |= matches!(x.k, EK::Ret(..) | EK::Try(_)));
    d
}

/// Pattern `diverge-in-partial-construct` at one node: a diverging
/// sub-expression inside a call / constructor / literal / operator that has
/// already evaluated (or is about to own) heap or tracked values.
pub fn node_partial_diverge(prog: &Program, e: &Expr) -> bool {
    match &e.k {
        EK::Call(_, args) | EK::Host(_, args) | EK::Ctor(_, args) | EK::ListLit(args) => {
            !args.is_empty() && args.iter().any(diverges_inside) && expr_heapy(prog, e)
        }
        EK::Method(r, _, args) => args.iter().any(diverges_inside) && (expr_heapy(prog, e) || expr_heapy(prog, r)),
        EK::RecLit(_, fs) => fs.iter().any(|(_, a)| diverges_inside(a)) && expr_heapy(prog, e),
        EK::Bin(_, a, b) => diverges_inside(b) && expr_heapy(prog, a),
        // (an f-string with a diverging part is NOT in the class: on the unchanged tree the text
        // accumulated so far is released on the early exit; a diverging sub-expression inside a
        // call / literal within a part is matched at that node)
        EK::Assign(_, v) | EK::CompAssign(_, _, v) => diverges_inside(v) && expr_heapy(prog, v),
        _ => false,
    }
}
