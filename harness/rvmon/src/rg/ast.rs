//! rotogen's own typed AST (independent of roto's AST). Every expression carries
//! its type, so programs are well-typed by construction.

use crate::val::IntTy;

#[derive(Clone, Debug, PartialEq)]
pub enum Ty {
    Unit,
    Bool,
    Char,
    Int(IntTy),
    F32,
    F64,
    Str,
    Opt(Box<Ty>),
    List(Box<Ty>),
    /// declared record or enum: (index into Program.types, type arguments)
    Named(usize, Vec<Ty>),
    /// anonymous record
    Anon(Vec<(String, Ty)>),
    Verdict(Box<Ty>, Box<Ty>),
    Trk,
    TrkZ,
    Trk1,
    /// type parameter (only inside declarations)
    Param(usize),
}

impl Ty {
    pub fn opt(t: Ty) -> Ty {
        Ty::Opt(Box::new(t))
    }
    pub fn list(t: Ty) -> Ty {
        Ty::List(Box::new(t))
    }
    pub fn is_int(&self) -> bool {
        matches!(self, Ty::Int(_))
    }
    pub fn is_float(&self) -> bool {
        matches!(self, Ty::F32 | Ty::F64)
    }
    pub fn is_numeric(&self) -> bool {
        self.is_int() || self.is_float()
    }
    pub fn is_default_numeric(&self) -> bool {
        matches!(self, Ty::Int(IntTy::I32) | Ty::F64)
    }
    /// Substitute type parameters.
    pub fn subst(&self, args: &[Ty]) -> Ty {
        match self {
            Ty::Param(i) => args[*i].clone(),
            Ty::Opt(t) => Ty::opt(t.subst(args)),
            Ty::List(t) => Ty::list(t.subst(args)),
            Ty::Named(d, a) => Ty::Named(*d, a.iter().map(|t| t.subst(args)).collect()),
            Ty::Anon(fs) => Ty::Anon(fs.iter().map(|(n, t)| (n.clone(), t.subst(args))).collect()),
            Ty::Verdict(a, r) => Ty::Verdict(Box::new(a.subst(args)), Box::new(r.subst(args))),
            t => t.clone(),
        }
    }
    /// Does a value of this type own a drop-tracked host value / heap data?
    pub fn has_tracked(&self, p: &Program) -> bool {
        match self {
            Ty::Trk | Ty::TrkZ | Ty::Trk1 => true,
            Ty::Opt(t) | Ty::List(t) => t.has_tracked(p),
            Ty::Verdict(a, r) => a.has_tracked(p) || r.has_tracked(p),
            Ty::Anon(fs) => fs.iter().any(|(_, t)| t.has_tracked(p)),
            Ty::Named(d, args) => match &p.types[*d] {
                TypeDecl::Record { fields, .. } => fields.iter().any(|(_, t)| t.subst(args).has_tracked(p)),
                TypeDecl::Enum { variants, .. } => {
                    variants.iter().any(|(_, ts)| ts.iter().any(|t| t.subst(args).has_tracked(p)))
                }
            },
            _ => false,
        }
    }
}

#[derive(Clone, Debug)]
pub enum TypeDecl {
    Record { name: String, params: Vec<String>, fields: Vec<(String, Ty)> },
    Enum { name: String, params: Vec<String>, variants: Vec<(String, Vec<Ty>)> },
}

impl TypeDecl {
    pub fn name(&self) -> &str {
        match self {
            TypeDecl::Record { name, .. } | TypeDecl::Enum { name, .. } => name,
        }
    }
    pub fn params(&self) -> &[String] {
        match self {
            TypeDecl::Record { params, .. } | TypeDecl::Enum { params, .. } => params,
        }
    }
}

#[derive(Clone, Copy, Debug, PartialEq, Eq, Hash)]
pub enum BinOp {
    Add,
    Sub,
    Mul,
    Div,
    Mod,
    Eq,
    Ne,
    Lt,
    Le,
    Gt,
    Ge,
    And,
    Or,
}

impl BinOp {
    pub fn sym(self) -> &'static str {
        match self {
            BinOp::Add => "+",
            BinOp::Sub => "-",
            BinOp::Mul => "*",
            BinOp::Div => "/",
            BinOp::Mod => "%",
            BinOp::Eq => "==",
            BinOp::Ne => "!=",
            BinOp::Lt => "<",
            BinOp::Le => "<=",
            BinOp::Gt => ">",
            BinOp::Ge => ">=",
            BinOp::And => "&&",
            BinOp::Or => "||",
        }
    }
    /// precedence level: higher binds tighter
    pub fn prec(self) -> u8 {
        match self {
            BinOp::Or | BinOp::And => 1,
            BinOp::Eq | BinOp::Ne | BinOp::Lt | BinOp::Le | BinOp::Gt | BinOp::Ge => 2,
            BinOp::Add | BinOp::Sub => 3,
            BinOp::Mul | BinOp::Div | BinOp::Mod => 4,
        }
    }
    pub fn is_arith(self) -> bool {
        matches!(self, BinOp::Add | BinOp::Sub | BinOp::Mul | BinOp::Div | BinOp::Mod)
    }
    pub fn is_cmp(self) -> bool {
        matches!(self, BinOp::Lt | BinOp::Le | BinOp::Gt | BinOp::Ge)
    }
}

pub const ARITH: [BinOp; 5] = [BinOp::Add, BinOp::Sub, BinOp::Mul, BinOp::Div, BinOp::Mod];
pub const CMPS: [BinOp; 4] = [BinOp::Lt, BinOp::Le, BinOp::Gt, BinOp::Ge];

#[derive(Clone, Copy, Debug, PartialEq, Eq, Hash)]
pub enum UnOp {
    Neg,
    Not,
}

#[derive(Clone, Copy, Debug, PartialEq, Eq)]
pub enum RetKind {
    Return,
    Accept,
    Reject,
}

/// How a literal is spelled.
#[derive(Clone, Debug, PartialEq)]
pub enum Lit {
    Unit,
    Bool(bool),
    Char(char),
    /// value, spelled with suffix?, hex?, underscores?
    Int { v: i128, suffix: bool, hex: bool, under: bool },
    /// f32/f64 literal: value stored as f64 text-exact spelling
    Float { text: String, suffix: bool },
    Str(String),
}

#[derive(Clone, Debug)]
pub enum Ctor {
    Some,
    None,
    /// user enum (decl idx, type args, variant idx)
    Variant(usize, Vec<Ty>, usize),
    Accept,
    Reject,
}

#[derive(Clone, Debug)]
pub struct Place {
    pub root: String,
    pub fields: Vec<String>,
}

#[derive(Clone, Debug)]
pub enum FPart {
    Text(String),
    Expr(Expr),
}

#[derive(Clone, Debug)]
pub struct Arm {
    /// None = `_`
    pub variant: Option<usize>,
    pub variant_name: String,
    pub binds: Vec<String>,
    pub guard: Option<Expr>,
    pub body: Block,
}

#[derive(Clone, Debug)]
pub struct Expr {
    pub ty: Ty,
    pub k: EK,
}

#[derive(Clone, Debug)]
pub enum EK {
    Lit(Lit),
    /// local, parameter or constant; optionally followed by field names (`a.b.c`)
    Path(String, Vec<String>),
    /// `(expr).field`
    Field(Box<Expr>, String),
    Un(UnOp, Box<Expr>),
    Bin(BinOp, Box<Expr>, Box<Expr>),
    If(Box<Expr>, Block, Option<Block>),
    Match(Box<Expr>, Vec<Arm>),
    /// call of script function (index into Program.fns)
    Call(usize, Vec<Expr>),
    /// call of a host function by name
    Host(String, Vec<Expr>),
    /// method call on a receiver: built-in or host method
    Method(Box<Expr>, String, Vec<Expr>),
    /// record literal; Some(decl) = `Name { .. }`, None = anonymous `{ .. }`
    RecLit(Option<usize>, Vec<(String, Expr)>),
    Ctor(Ctor, Vec<Expr>),
    ListLit(Vec<Expr>),
    FStr(Vec<FPart>),
    Block(Block),
    Ret(RetKind, Option<Box<Expr>>),
    Try(Box<Expr>),
    Assign(Place, Box<Expr>),
    CompAssign(Place, BinOp, Box<Expr>),
    While(Box<Expr>, Block),
    For(String, Box<Expr>, Block),
    /// redundant parentheses (semantically transparent)
    Paren(Box<Expr>),
}

impl Expr {
    pub fn new(ty: Ty, k: EK) -> Expr {
        Expr { ty, k }
    }
    pub fn unit() -> Expr {
        Expr::new(Ty::Unit, EK::Lit(Lit::Unit))
    }
    pub fn var(name: &str, ty: Ty) -> Expr {
        Expr::new(ty, EK::Path(name.to_string(), vec![]))
    }
    pub fn boolean(b: bool) -> Expr {
        Expr::new(Ty::Bool, EK::Lit(Lit::Bool(b)))
    }
    pub fn int(t: IntTy, v: i128) -> Expr {
        Expr::new(Ty::Int(t), EK::Lit(Lit::Int { v, suffix: true, hex: false, under: false }))
    }
}

#[derive(Clone, Debug)]
pub enum Stmt {
    Let(String, Option<Ty>, Expr),
    Expr(Expr),
}

#[derive(Clone, Debug, Default)]
pub struct Block {
    pub stmts: Vec<Stmt>,
    pub tail: Option<Box<Expr>>,
}

#[derive(Clone, Copy, Debug, PartialEq, Eq)]
pub enum FnKind {
    Fn,
    FilterMap,
    Test,
}

#[derive(Clone, Debug)]
pub struct FnDecl {
    pub name: String,
    pub kind: FnKind,
    pub params: Vec<(String, Ty)>,
    pub ret: Ty,
    pub body: Block,
}

#[derive(Clone, Debug)]
pub struct ConstDecl {
    pub name: String,
    pub ty: Ty,
    pub init: Expr,
}

#[derive(Clone, Debug, Default)]
pub struct Program {
    pub types: Vec<TypeDecl>,
    pub consts: Vec<ConstDecl>,
    pub fns: Vec<FnDecl>,
    /// order in which top-level items are printed (kind, index); empty = default
    pub item_order: Vec<(u8, usize)>,
}

impl Program {
    pub fn type_name(&self, d: usize) -> &str {
        self.types[d].name()
    }
    pub fn record_fields(&self, ty: &Ty) -> Option<Vec<(String, Ty)>> {
        match ty {
            Ty::Anon(fs) => Some(fs.clone()),
            Ty::Named(d, args) => match &self.types[*d] {
                TypeDecl::Record { fields, .. } => {
                    Some(fields.iter().map(|(n, t)| (n.clone(), t.subst(args))).collect())
                }
                _ => None,
            },
            _ => None,
        }
    }
    pub fn enum_variants(&self, ty: &Ty) -> Option<Vec<(String, Vec<Ty>)>> {
        match ty {
            Ty::Opt(t) => Some(vec![("Some".into(), vec![(**t).clone()]), ("None".into(), vec![])]),
            Ty::Verdict(a, r) => Some(vec![
                ("Accept".into(), vec![(**a).clone()]),
                ("Reject".into(), vec![(**r).clone()]),
            ]),
            Ty::Named(d, args) => match &self.types[*d] {
                TypeDecl::Enum { variants, .. } => Some(
                    variants
                        .iter()
                        .map(|(n, ts)| (n.clone(), ts.iter().map(|t| t.subst(args)).collect()))
                        .collect(),
                ),
                _ => None,
            },
            _ => None,
        }
    }
}
