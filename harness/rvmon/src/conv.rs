//! Deterministic mapping from 64-bit "input words" to typed input values,
//! shared by host functions (`in_T(k)`) and the reference interpreter.

use crate::rng::Rng;
use crate::val::{IntTy, V};

pub const F64_SPECIAL: [f64; 24] = [
    0.0,
    -0.0,
    1.0,
    -1.0,
    0.5,
    -0.5,
    1.5,
    2.5,
    -2.5,
    0.1,
    3.0,
    1e300,
    -1e300,
    f64::MAX,
    f64::MIN,
    f64::MIN_POSITIVE,
    5e-324,
    f64::INFINITY,
    f64::NEG_INFINITY,
    f64::NAN,
    16777217.0,
    9007199254740993.0,
    1e-7,
    123456.789,
];

pub const F32_SPECIAL: [f32; 22] = [
    0.0,
    -0.0,
    1.0,
    -1.0,
    0.5,
    -0.5,
    1.5,
    2.5,
    -2.5,
    0.1,
    3.0,
    1e38,
    -1e38,
    f32::MAX,
    f32::MIN,
    f32::MIN_POSITIVE,
    1e-45,
    f32::INFINITY,
    f32::NEG_INFINITY,
    f32::NAN,
    16777216.0,
    1e-7,
];

pub const CHARS: [char; 16] = [
    'a', 'Z', '0', ' ', '\n', '\0', '"', '\'', '\\', 'é', 'ß', 'ж', '東', '𝄞', '\u{7f}', '\u{10ffff}',
];

pub const STRS: [&str; 16] = [
    "",
    "a",
    "abc",
    "hello world",
    "é",
    "Straße",
    "東京",
    "a\nb",
    "line1\nline2\n",
    " pad ",
    "𝄞𝄞",
    "x,y,z",
    "0123456789012345678901234567890123456789",
    "{}",
    "\t",
    "AbC",
];

pub fn int_of(t: IntTy, w: u64) -> i128 {
    t.wrap(w as i128)
}

pub fn f64_of(w: u64) -> f64 {
    match w >> 62 {
        0 => F64_SPECIAL[(w % F64_SPECIAL.len() as u64) as usize],
        1 => ((w & 0xffff) as i64 - 0x8000) as f64 / 8.0,
        _ => f64::from_bits(w.rotate_left(7)),
    }
}

pub fn f32_of(w: u64) -> f32 {
    match w >> 62 {
        0 => F32_SPECIAL[(w % F32_SPECIAL.len() as u64) as usize],
        1 => ((w & 0xffff) as i64 - 0x8000) as f32 / 8.0,
        _ => f32::from_bits((w >> 13) as u32),
    }
}

pub fn bool_of(w: u64) -> bool {
    w & 1 == 1
}

pub fn char_of(w: u64) -> char {
    if w >> 63 == 0 {
        CHARS[(w % CHARS.len() as u64) as usize]
    } else {
        char::from_u32((w % 0x11_0000) as u32).unwrap_or('?')
    }
}

pub fn str_of(w: u64) -> String {
    if w >> 63 == 0 {
        STRS[(w % STRS.len() as u64) as usize].to_string()
    } else {
        let n = (w >> 3) % 9;
        let mut s = String::new();
        let mut x = w;
        for _ in 0..n {
            x = x.wrapping_mul(6364136223846793005).wrapping_add(1442695040888963407);
            s.push(CHARS[((x >> 33) % 14) as usize]);
        }
        s
    }
}

/// Input words whose truncations hit the boundary values of every width.
pub const EDGE_WORDS: [u64; 28] = [
    0,
    1,
    2,
    3,
    0x7f,
    0x80,
    0x81,
    0xff,
    0x100,
    0x7fff,
    0x8000,
    0x8001,
    0xffff,
    0x1_0000,
    0x7fff_ffff,
    0x8000_0000,
    0x8000_0001,
    0xffff_ffff,
    0x1_0000_0000,
    0x7fff_ffff_ffff_ffff,
    0x8000_0000_0000_0000,
    0x8000_0000_0000_0001,
    0xffff_ffff_ffff_ffff,
    0xffff_ffff_ffff_fffe,
    0xffff_ffff_ffff_ff80,
    0xffff_ffff_ffff_8000,
    0xffff_ffff_8000_0000,
    10,
];

/// One input vector of `n` words: a mix of edge words and random words.
pub fn input_vector(rng: &mut Rng, n: usize, edge_bias: u64) -> Vec<u64> {
    (0..n)
        .map(|_| {
            if rng.chance(edge_bias, 100) {
                *rng.pick(&EDGE_WORDS)
            } else if rng.chance(1, 3) {
                rng.below(16)
            } else {
                rng.next()
            }
        })
        .collect()
}

pub fn word_at(words: &[u64], k: u32) -> u64 {
    if words.is_empty() {
        0
    } else {
        words[k as usize % words.len()]
    }
}

pub fn int_v(t: IntTy, w: u64) -> V {
    V::Int(t, int_of(t, w))
}
