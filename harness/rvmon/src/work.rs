//! Worker protocol: one JSON line before (`begin`) and after (`end`) every case,
//! so that the supervising driver can attribute a process death to a case.

use std::collections::BTreeMap;
use std::io::Write;

use crate::jsonw::J;
use crate::rng::Rng;

#[derive(Clone, Debug)]
pub struct Args {
    pub family: String,
    pub seed: u64,
    pub tier: String,
    pub shard_i: u64,
    pub shard_n: u64,
    pub from: u64,
    pub only: Option<u64>,
    pub cases: Option<u64>,
    pub opts: BTreeMap<String, String>,
}

impl Args {
    pub fn parse(argv: &[String]) -> Args {
        let mut a = Args {
            family: argv.get(1).cloned().unwrap_or_default(),
            seed: 1,
            tier: "quick".into(),
            shard_i: 0,
            shard_n: 1,
            from: 0,
            only: None,
            cases: None,
            opts: BTreeMap::new(),
        };
        let mut i = 2;
        while i < argv.len() {
            let k = argv[i].as_str();
            let v = argv.get(i + 1).cloned().unwrap_or_default();
            match k {
                "--seed" => a.seed = v.parse().unwrap_or(1),
                "--tier" => a.tier = v,
                "--shard" => {
                    let (x, y) = v.split_once('/').unwrap_or(("0", "1"));
                    a.shard_i = x.parse().unwrap_or(0);
                    a.shard_n = y.parse().unwrap_or(1);
                }
                "--from" => a.from = v.parse().unwrap_or(0),
                "--only" => a.only = v.parse().ok(),
                "--cases" => a.cases = v.parse().ok(),
                k if k.starts_with("--") => {
                    a.opts.insert(k[2..].to_string(), v);
                }
                _ => {}
            }
            i += 2;
        }
        a
    }
    pub fn thorough(&self) -> bool {
        self.tier == "thorough"
    }
    pub fn opt(&self, k: &str) -> Option<&str> {
        self.opts.get(k).map(|s| s.as_str())
    }
    pub fn flag(&self, k: &str) -> bool {
        matches!(self.opt(k), Some("1") | Some("true") | Some("yes"))
    }
}

#[derive(Clone, Debug)]
pub struct Viol {
    /// stable signature: identifies the failing call site / input class
    pub sig: String,
    pub msg: String,
    pub detail: J,
}

#[derive(Clone, Debug, Default)]
pub struct CaseOut {
    pub viols: Vec<Viol>,
    /// why the case could not be decided (not a violation)
    pub skipped: Option<String>,
    /// coverage tags observed by this case
    pub tags: Vec<String>,
    /// hash identifying the case content (for distinct counting)
    pub hash: u64,
    /// non-trivial by the family's rule
    pub nontrivial: bool,
    /// executions (program x input) performed
    pub evals: u64,
    /// monitor events observed (host calls, clone/drop events, ...)
    pub events: u64,
    /// a printable description of the case (kept by the driver for samples/replays)
    pub sample: Option<J>,
    /// free-form counters
    pub counters: Vec<(String, u64)>,
    /// always report the sample (small families)
    pub keep_sample: bool,
}

impl CaseOut {
    pub fn viol(&mut self, sig: impl Into<String>, msg: impl Into<String>, detail: J) {
        self.viols.push(Viol { sig: sig.into(), msg: msg.into(), detail });
    }
    pub fn count(&mut self, k: &str, n: u64) {
        if let Some(c) = self.counters.iter_mut().find(|(n2, _)| n2 == k) {
            c.1 += n;
        } else {
            self.counters.push((k.to_string(), n));
        }
    }
}

pub trait Family {
    fn n_cases(&self, args: &Args) -> u64;
    fn run(&mut self, k: u64, rng: &mut Rng, args: &Args) -> CaseOut;
    /// Describe case `k` without executing anything risky (used by the driver
    /// after a worker died in that case).
    fn describe(&mut self, _k: u64, _rng: &mut Rng, _args: &Args) -> Option<J> {
        None
    }
}

fn emit(j: &J) {
    let out = std::io::stdout();
    let mut l = out.lock();
    let _ = writeln!(l, "{}", j.to_string());
    let _ = l.flush();
}

pub fn run_family(fam: &mut dyn Family, args: &Args) {
    // panics inside a case are reported by the driver as "worker died" unless the
    // family catches them itself; make the message visible on stderr
    let total = args.cases.unwrap_or_else(|| fam.n_cases(args));
    emit(&J::obj().set("t", "hello").set("family", args.family.as_str()).set("cases", total).set(
        "balance",
        crate::alloc::ENABLED,
    ));
    let mut tagc: BTreeMap<String, u64> = BTreeMap::new();
    let mut k = args.from;
    let mut since_flush = 0;
    while k < total {
        let mine = match args.only {
            Some(o) => k == o,
            None => k % args.shard_n == args.shard_i,
        };
        if !mine {
            k += 1;
            continue;
        }
        let stream = format!("{}{}", args.family, args.opt("stream").unwrap_or(""));
        let mut rng = Rng::for_case(args.seed, &stream, k);
        if args.flag("describe") {
            let d = fam.describe(k, &mut rng, args);
            emit(&J::obj().set("t", "describe").set("k", k).set("case_data", d.unwrap_or(J::Null)));
            break;
        }
        emit(&J::obj().set("t", "begin").set("k", k));
        let out = fam.run(k, &mut rng, args);
        for t in &out.tags {
            *tagc.entry(t.clone()).or_insert(0) += 1;
        }
        let mut j = J::obj()
            .set("t", "end")
            .set("k", k)
            .set("h", format!("{:016x}", out.hash))
            .set("nt", out.nontrivial)
            .set("evals", out.evals)
            .set("events", out.events);
        if let Some(s) = &out.skipped {
            j.put("skipped", s.as_str());
        }
        if !out.viols.is_empty() {
            j.put(
                "viols",
                J::Arr(
                    out.viols
                        .iter()
                        .map(|v| J::obj().set("sig", v.sig.as_str()).set("msg", v.msg.as_str()).set("detail", v.detail.clone()))
                        .collect(),
                ),
            );
        }
        if !out.counters.is_empty() {
            j.put("ctr", J::Obj(out.counters.iter().map(|(k, v)| (k.clone(), J::Int(*v as i128))).collect()));
        }
        // samples: always for violations, otherwise for the first few cases of a shard
        if let Some(s) = out.sample
            && (!out.viols.is_empty() || out.keep_sample || args.only.is_some() || k < args.shard_n * 2)
        {
            j.put("sample", s);
        }
        emit(&j);
        since_flush += 1;
        if since_flush >= 200 {
            flush_tags(&mut tagc);
            since_flush = 0;
        }
        k += 1;
        if args.only.is_some() {
            break;
        }
    }
    flush_tags(&mut tagc);
    emit(&J::obj().set("t", "done"));
}

fn flush_tags(tagc: &mut BTreeMap<String, u64>) {
    if tagc.is_empty() {
        return;
    }
    let o = J::Obj(tagc.iter().map(|(k, v)| (k.clone(), J::Int(*v as i128))).collect());
    emit(&J::obj().set("t", "tags").set("tags", o));
    tagc.clear();
}

/// Run `f`, converting a Rust panic into Err(message @ location).
pub fn catch<R>(f: impl FnOnce() -> R) -> Result<R, String> {
    use std::panic::{AssertUnwindSafe, catch_unwind};
    use std::sync::Mutex;
    static LAST: Mutex<Option<String>> = Mutex::new(None);
    static HOOK: std::sync::Once = std::sync::Once::new();
    HOOK.call_once(|| {
        std::panic::set_hook(Box::new(|info| {
            let loc = info.location().map(|l| format!("{}:{}", l.file(), l.line())).unwrap_or_default();
            let msg = if let Some(s) = info.payload().downcast_ref::<&str>() {
                s.to_string()
            } else if let Some(s) = info.payload().downcast_ref::<String>() {
                s.clone()
            } else {
                "<non-string panic>".to_string()
            };
            *LAST.lock().unwrap_or_else(|e| e.into_inner()) = Some(format!("{loc}: {msg}"));
        }));
    });
    match catch_unwind(AssertUnwindSafe(f)) {
        Ok(r) => Ok(r),
        Err(_) => Err(LAST.lock().unwrap_or_else(|e| e.into_inner()).take().unwrap_or_else(|| "panic".into())),
    }
}

/// Normalise a panic message (`file:line: message`) into a stable signature
/// `panic@<file>::<message>`: the path is made relative to the repository, the line
/// number is dropped (it shifts with unrelated edits) and digits / quoted data in
/// the message are masked.
pub fn panic_sig(msg: &str) -> String {
    let (loc, rest) = msg.split_once(": ").unwrap_or((msg, ""));
    let file = loc.rsplit_once(':').map(|x| x.0).unwrap_or(loc);
    let file = file.trim_start_matches("/repo/");
    let file = if let Some(i) = file.find("/library/") { &file[i + 1..] } else { file };
    let first = rest.lines().next().unwrap_or("");
    let mut norm = String::new();
    let mut in_tick = false;
    for c in first.chars() {
        if c == '`' {
            in_tick = !in_tick;
            norm.push('`');
            continue;
        }
        if in_tick {
            continue;
        }
        if c.is_ascii_digit() {
            if !norm.ends_with('#') {
                norm.push('#');
            }
        } else if c == ' ' {
            norm.push('_');
        } else {
            norm.push(c);
        }
        if norm.len() > 70 {
            break;
        }
    }
    format!("panic@{file}::{norm}")
}

/// Panics that come from the sanitizer builds' address-space layout rather than from
/// roto: cranelift-jit cannot encode a 32-bit relocation between JIT memory and a host
/// function that is too far away. Cases that hit this are inconclusive.
pub fn is_env_artifact(msg: &str) -> bool {
    msg.contains("cranelift-jit") && msg.contains("compiled_blob.rs")
}

pub fn hash_str(s: &str) -> u64 {
    crate::rng::hash_str(s)
}
