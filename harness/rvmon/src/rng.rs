//! Self-contained PRNG (splitmix64 seeding + xoshiro256**). No external crates.

#[derive(Clone, Debug)]
pub struct Rng {
    s: [u64; 4],
}

pub fn splitmix(x: &mut u64) -> u64 {
    *x = x.wrapping_add(0x9E37_79B9_7F4A_7C15);
    let mut z = *x;
    z = (z ^ (z >> 30)).wrapping_mul(0xBF58_476D_1CE4_E5B9);
    z = (z ^ (z >> 27)).wrapping_mul(0x94D0_49BB_1331_11EB);
    z ^ (z >> 31)
}

pub fn hash_str(s: &str) -> u64 {
    let mut h: u64 = 0xcbf2_9ce4_8422_2325;
    for b in s.bytes() {
        h ^= b as u64;
        h = h.wrapping_mul(0x100_0000_01b3);
    }
    h
}

impl Rng {
    pub fn new(seed: u64) -> Self {
        let mut x = seed;
        let s = [
            splitmix(&mut x),
            splitmix(&mut x),
            splitmix(&mut x),
            splitmix(&mut x),
        ];
        Rng { s }
    }

    /// Independent stream for (seed, family, case): every case replays alone.
    pub fn for_case(seed: u64, family: &str, case: u64) -> Self {
        let mut x = seed ^ hash_str(family).rotate_left(17);
        let a = splitmix(&mut x);
        let mut y = a ^ case.wrapping_mul(0xD6E8_FEB8_6659_FD93);
        Rng::new(splitmix(&mut y))
    }

    pub fn next(&mut self) -> u64 {
        let r = self.s[1].wrapping_mul(5).rotate_left(7).wrapping_mul(9);
        let t = self.s[1] << 17;
        self.s[2] ^= self.s[0];
        self.s[3] ^= self.s[1];
        self.s[1] ^= self.s[2];
        self.s[0] ^= self.s[3];
        self.s[2] ^= t;
        self.s[3] = self.s[3].rotate_left(45);
        r
    }

    /// Uniform in 0..n (n > 0)
    pub fn below(&mut self, n: u64) -> u64 {
        debug_assert!(n > 0);
        ((self.next() as u128 * n as u128) >> 64) as u64
    }

    pub fn usize(&mut self, n: usize) -> usize {
        self.below(n as u64) as usize
    }

    /// Inclusive range
    pub fn range(&mut self, lo: i64, hi: i64) -> i64 {
        lo + self.below((hi - lo + 1) as u64) as i64
    }

    pub fn bool(&mut self) -> bool {
        self.next() & 1 == 1
    }

    /// True with probability num/den
    pub fn chance(&mut self, num: u64, den: u64) -> bool {
        self.below(den) < num
    }

    pub fn pick<'a, T>(&mut self, xs: &'a [T]) -> &'a T {
        &xs[self.usize(xs.len())]
    }

    pub fn weighted(&mut self, ws: &[u32]) -> usize {
        let total: u64 = ws.iter().map(|w| *w as u64).sum();
        let mut r = self.below(total.max(1));
        for (i, w) in ws.iter().enumerate() {
            if r < *w as u64 {
                return i;
            }
            r -= *w as u64;
        }
        ws.len() - 1
    }

    pub fn shuffle<T>(&mut self, xs: &mut [T]) {
        for i in (1..xs.len()).rev() {
            let j = self.usize(i + 1);
            xs.swap(i, j);
        }
    }
}
