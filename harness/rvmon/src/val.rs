//! The harness' own value universe: used by the reference interpreter, the host
//! event log and every oracle. Deliberately independent of roto's IR values.

use std::cell::RefCell;
use std::rc::Rc;

use crate::jsonw::J;

#[derive(Clone, Copy, Debug, PartialEq, Eq, Hash, PartialOrd, Ord)]
pub enum IntTy {
    U8,
    U16,
    U32,
    U64,
    I8,
    I16,
    I32,
    I64,
}

pub const INT_TYS: [IntTy; 8] = [
    IntTy::U8,
    IntTy::U16,
    IntTy::U32,
    IntTy::U64,
    IntTy::I8,
    IntTy::I16,
    IntTy::I32,
    IntTy::I64,
];

impl IntTy {
    pub fn bits(self) -> u32 {
        match self {
            IntTy::U8 | IntTy::I8 => 8,
            IntTy::U16 | IntTy::I16 => 16,
            IntTy::U32 | IntTy::I32 => 32,
            IntTy::U64 | IntTy::I64 => 64,
        }
    }
    pub fn signed(self) -> bool {
        matches!(self, IntTy::I8 | IntTy::I16 | IntTy::I32 | IntTy::I64)
    }
    pub fn min_v(self) -> i128 {
        if self.signed() {
            -(1i128 << (self.bits() - 1))
        } else {
            0
        }
    }
    pub fn max_v(self) -> i128 {
        if self.signed() {
            (1i128 << (self.bits() - 1)) - 1
        } else {
            (1i128 << self.bits()) - 1
        }
    }
    /// Wrap a mathematical integer into this type (two's complement).
    pub fn wrap(self, x: i128) -> i128 {
        let m = 1i128 << self.bits();
        let mut r = x.rem_euclid(m);
        if self.signed() && r >= m / 2 {
            r -= m;
        }
        r
    }
    pub fn name(self) -> &'static str {
        match self {
            IntTy::U8 => "u8",
            IntTy::U16 => "u16",
            IntTy::U32 => "u32",
            IntTy::U64 => "u64",
            IntTy::I8 => "i8",
            IntTy::I16 => "i16",
            IntTy::I32 => "i32",
            IntTy::I64 => "i64",
        }
    }
}

pub type ListRef = Rc<RefCell<Vec<V>>>;

#[derive(Clone, Debug)]
pub enum V {
    Unit,
    Bool(bool),
    Char(char),
    Int(IntTy, i128),
    F32(f32),
    F64(f64),
    Str(String),
    /// Option is kept separate from user enums because it crosses the boundary
    Opt(Option<Box<V>>),
    /// enum value: (variant index, variant name, payload)
    Enum(usize, String, Vec<V>),
    /// record value, fields in declaration order
    Rec(Vec<(String, V)>),
    /// shared list (reference semantics)
    List(ListRef),
    /// drop-tracked host value: only the tag is language-visible
    Trk(i64),
    TrkZ,
}

impl V {
    pub fn list(xs: Vec<V>) -> V {
        V::List(Rc::new(RefCell::new(xs)))
    }

    /// Deep copy (value semantics); lists keep sharing.
    pub fn copy(&self) -> V {
        self.clone()
    }

    /// Structural equality as the language defines `==`:
    /// floats by IEEE (NaN != NaN), lists element-wise.
    pub fn lang_eq(&self, o: &V) -> bool {
        use V::*;
        match (self, o) {
            (Unit, Unit) => true,
            (Bool(a), Bool(b)) => a == b,
            (Char(a), Char(b)) => a == b,
            (Int(_, a), Int(_, b)) => a == b,
            (F32(a), F32(b)) => a == b,
            (F64(a), F64(b)) => a == b,
            (Str(a), Str(b)) => a == b,
            (Opt(a), Opt(b)) => match (a, b) {
                (None, None) => true,
                (Some(a), Some(b)) => a.lang_eq(b),
                _ => false,
            },
            (Enum(i, _, a), Enum(j, _, b)) => {
                i == j && a.len() == b.len() && a.iter().zip(b).all(|(x, y)| x.lang_eq(y))
            }
            (Rec(a), Rec(b)) => {
                a.len() == b.len()
                    && a.iter().all(|(n, x)| {
                        b.iter().any(|(m, y)| n == m && x.lang_eq(y))
                    })
            }
            (List(a), List(b)) => {
                let a = a.borrow();
                let b = b.borrow();
                a.len() == b.len() && a.iter().zip(b.iter()).all(|(x, y)| x.lang_eq(y))
            }
            (Trk(a), Trk(b)) => a == b,
            (TrkZ, TrkZ) => true,
            _ => false,
        }
    }

    /// Observational equality used by oracles: like lang_eq but any NaN equals
    /// any NaN and floats otherwise compare bitwise (so -0.0 != 0.0).
    pub fn obs_eq(&self, o: &V) -> bool {
        use V::*;
        match (self, o) {
            (F32(a), F32(b)) => (a.is_nan() && b.is_nan()) || a.to_bits() == b.to_bits(),
            (F64(a), F64(b)) => (a.is_nan() && b.is_nan()) || a.to_bits() == b.to_bits(),
            (Opt(Some(a)), Opt(Some(b))) => a.obs_eq(b),
            (Enum(i, _, a), Enum(j, _, b)) => {
                i == j && a.len() == b.len() && a.iter().zip(b).all(|(x, y)| x.obs_eq(y))
            }
            (Rec(a), Rec(b)) => {
                a.len() == b.len()
                    && a.iter().all(|(n, x)| b.iter().any(|(m, y)| n == m && x.obs_eq(y)))
            }
            (List(a), List(b)) => {
                let a = a.borrow();
                let b = b.borrow();
                a.len() == b.len() && a.iter().zip(b.iter()).all(|(x, y)| x.obs_eq(y))
            }
            _ => self.lang_eq(o),
        }
    }

    /// Does this value contain a NaN anywhere (inside an aggregate)?
    pub fn contains_nan(&self) -> bool {
        use V::*;
        match self {
            F32(x) => x.is_nan(),
            F64(x) => x.is_nan(),
            Opt(Some(x)) => x.contains_nan(),
            Enum(_, _, xs) => xs.iter().any(|x| x.contains_nan()),
            Rec(fs) => fs.iter().any(|(_, x)| x.contains_nan()),
            List(xs) => xs.borrow().iter().any(|x| x.contains_nan()),
            _ => false,
        }
    }

    pub fn to_j(&self) -> J {
        use V::*;
        match self {
            Unit => J::Str("()".into()),
            Bool(b) => J::Bool(*b),
            Char(c) => J::Str(format!("'{}'", c.escape_default())),
            Int(t, x) => J::Str(format!("{x}{}", t.name())),
            F32(x) => J::Str(format!("{x:?}f32/{:#x}", x.to_bits())),
            F64(x) => J::Str(format!("{x:?}f64/{:#x}", x.to_bits())),
            Str(s) => J::Str(format!("{s:?}")),
            Opt(None) => J::Str("None".into()),
            Opt(Some(x)) => J::Arr(vec![J::Str("Some".into()), x.to_j()]),
            Enum(_, n, xs) => {
                let mut v = vec![J::Str(n.clone())];
                v.extend(xs.iter().map(|x| x.to_j()));
                J::Arr(v)
            }
            Rec(fs) => J::Obj(fs.iter().map(|(n, x)| (n.clone(), x.to_j())).collect()),
            List(xs) => J::Arr(xs.borrow().iter().map(|x| x.to_j()).collect()),
            Trk(t) => J::Str(format!("Trk#{t}")),
            TrkZ => J::Str("TrkZ".into()),
        }
    }

    /// Plain, human-readable rendering (also the format of corpus expectations).
    pub fn show(&self) -> String {
        use V::*;
        match self {
            Unit => "()".into(),
            Bool(b) => format!("{b}"),
            Char(c) => format!("{c:?}"),
            Int(t, x) => format!("{x}{}", t.name()),
            F32(x) => format!("{x:?}f32"),
            F64(x) => format!("{x:?}f64"),
            Str(s) => format!("{s:?}"),
            Opt(None) => "None".into(),
            Opt(Some(x)) => format!("Some({})", x.show()),
            Enum(_, n, xs) => {
                if xs.is_empty() {
                    n.clone()
                } else {
                    format!("{n}({})", xs.iter().map(|x| x.show()).collect::<Vec<_>>().join(", "))
                }
            }
            Rec(fs) => format!("{{{}}}", fs.iter().map(|(n, x)| format!("{n}: {}", x.show())).collect::<Vec<_>>().join(", ")),
            List(xs) => format!("[{}]", xs.borrow().iter().map(|x| x.show()).collect::<Vec<_>>().join(", ")),
            Trk(t) => format!("Trk#{t}"),
            TrkZ => "TrkZ".into(),
        }
    }

    /// Snapshot: lists are copied so that later mutation does not change a
    /// logged value.
    pub fn snapshot(&self) -> V {
        use V::*;
        match self {
            List(xs) => V::list(xs.borrow().iter().map(|x| x.snapshot()).collect()),
            Opt(Some(x)) => Opt(Some(Box::new(x.snapshot()))),
            Enum(i, n, xs) => Enum(*i, n.clone(), xs.iter().map(|x| x.snapshot()).collect()),
            Rec(fs) => Rec(fs.iter().map(|(n, x)| (n.clone(), x.snapshot())).collect()),
            x => x.clone(),
        }
    }
}

/// One host-call event.
#[derive(Clone, Debug)]
pub struct Ev {
    pub f: String,
    pub args: Vec<V>,
}

impl Ev {
    pub fn new(f: &str, args: Vec<V>) -> Ev {
        Ev { f: f.to_string(), args }
    }
    pub fn same(&self, o: &Ev) -> bool {
        self.f == o.f
            && self.args.len() == o.args.len()
            && self.args.iter().zip(&o.args).all(|(a, b)| a.obs_eq(b))
    }
    pub fn show(&self) -> String {
        let a: Vec<String> = self.args.iter().map(|a| a.show()).collect();
        format!("{}({})", self.f, a.join(", "))
    }
}

pub fn logs_equal(a: &[Ev], b: &[Ev]) -> Option<usize> {
    for i in 0..a.len().max(b.len()) {
        match (a.get(i), b.get(i)) {
            (Some(x), Some(y)) if x.same(y) => {}
            _ => return Some(i),
        }
    }
    None
}

pub fn show_log(a: &[Ev], around: usize) -> Vec<String> {
    let lo = around.saturating_sub(4);
    let hi = (around + 4).min(a.len());
    (lo..hi).map(|i| format!("[{i}] {}", a[i].show())).collect()
}
