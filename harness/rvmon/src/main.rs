#![allow(dead_code)]
mod alloc;
mod conv;
mod exec;
mod fam;
mod host;
mod jsonw;
mod rg;
mod rng;
mod val;
mod work;

fn main() {
    let argv: Vec<String> = std::env::args().collect();
    let args = work::Args::parse(&argv);
    let mut fam: Box<dyn work::Family> = match args.family.as_str() {
        "diff-scalar" => Box::new(fam::diff::Diff::new("scalar")),
        "diff-aggregate" => Box::new(fam::diff::Diff::new("aggregate")),
        "diff-ownership" => Box::new(fam::diff::Diff::new("ownership")),
        "diff-effects" => Box::new(fam::diff::Diff::new("effects")),
        "survive" => Box::new(fam::survive::Survive::new(&args)),
        "illtyped" => Box::new(fam::illtyped::IllTyped::new(&args)),
        "totality" => Box::new(fam::totality::Totality::new(&args)),
        "evalcmp" => Box::new(fam::evalcmp::EvalCmp::new(&args)),
        "constorder" => Box::new(fam::constorder::ConstOrder::new(&args)),
        "grammar" => Box::new(fam::grammar::Grammar::new(&args)),
        "lifetimes" => Box::new(fam::lifetimes::Lifetimes::new(&args)),
        "concurrent" => Box::new(fam::concurrent::Concurrent::new(&args)),
        "corpus" => Box::new(fam::corpus::Corpus::new(&args)),
        "sig-gate" => Box::new(fam::catalog::gate::Gate::new(&args)),
        "boundary" => Box::new(fam::catalog::boundary::Boundary::new(&args)),
        "builtins" => Box::new(fam::builtins::Builtins::new(&args)),
        "modules" => Box::new(fam::modules::Modules::new()),
        "tests-inproc" => Box::new(fam::testrunner::TestRunner::new("inproc", &args)),
        "tests-cli" => Box::new(fam::testrunner::TestRunner::new("cli", &args)),
        "list-api" => Box::new(fam::listmodel::ListApi::new(&args)),
        "list-script" => Box::new(fam::listmodel::ListScript::new(&args)),
        "list-sched" => Box::new(fam::listsched::ListSched::new(&args)),
        "registration" => Box::new(fam::registration::Registration::new()),
        f => {
            eprintln!("unknown family {f}");
            std::process::exit(2);
        }
    };
    work::run_family(fam.as_mut(), &args);
}
