#![allow(dead_code)]
mod alloc;
mod conv;
mod exec;
mod fam;
mod host;
mod jsonw;
mod rg;
mod rng;
mod val;
mod work;

fn main() {
    let argv: Vec<String> = std::env::args().collect();
    let args = work::Args::parse(&argv);
    let mut fam: Box<dyn work::Family> = match args.family.as_str() {
        "diff-scalar" => Box::new(fam::diff::Diff::new("scalar")),
        "diff-aggregate" => Box::new(fam::diff::Diff::new("aggregate")),
        "diff-ownership" => Box::new(fam::diff::Diff::new("ownership")),
        "diff-effects" => Box::new(fam::diff::Diff::new("effects")),
        "survive" => Box::new(fam::survive::Survive::new(&args)),
        "corpus" => Box::new(fam::corpus::Corpus::new(&args)),
        f => {
            eprintln!("unknown family {f}");
            std::process::exit(2);
        }
    };
    work::run_family(fam.as_mut(), &args);
}
