//! Allocation-balance monitor: a counting global allocator that tracks the set of
//! live blocks allocated on the current thread inside a monitored region.
//! Compiled out without the `balance` feature (sanitizer / valgrind builds).

#[cfg(feature = "balance")]
mod imp {
    use std::alloc::{GlobalAlloc, Layout, System};
    use std::cell::{Cell, RefCell};
    use std::collections::HashMap;

    thread_local! {
        static TRACK: Cell<bool> = const { Cell::new(false) };
        static EXEMPT: Cell<u32> = const { Cell::new(0) };
        static LIVE: RefCell<Option<HashMap<usize, usize>>> = const { RefCell::new(None) };
    }

    pub struct Counting;

    unsafe impl GlobalAlloc for Counting {
        unsafe fn alloc(&self, l: Layout) -> *mut u8 {
            let p = unsafe { System.alloc(l) };
            note_alloc(p, l.size());
            p
        }
        unsafe fn alloc_zeroed(&self, l: Layout) -> *mut u8 {
            let p = unsafe { System.alloc_zeroed(l) };
            note_alloc(p, l.size());
            p
        }
        unsafe fn dealloc(&self, p: *mut u8, l: Layout) {
            note_dealloc(p);
            unsafe { System.dealloc(p, l) }
        }
        unsafe fn realloc(&self, p: *mut u8, l: Layout, n: usize) -> *mut u8 {
            note_dealloc(p);
            let q = unsafe { System.realloc(p, l, n) };
            note_alloc(q, n);
            q
        }
    }

    fn active() -> bool {
        TRACK.try_with(|t| t.get()).unwrap_or(false) && EXEMPT.try_with(|e| e.get() == 0).unwrap_or(false)
    }

    fn note_alloc(p: *mut u8, size: usize) {
        if p.is_null() || !active() {
            return;
        }
        let _ = EXEMPT.try_with(|e| e.set(e.get() + 1));
        let _ = LIVE.try_with(|l| {
            if let Ok(mut l) = l.try_borrow_mut() {
                l.get_or_insert_with(HashMap::new).insert(p as usize, size);
            }
        });
        let _ = EXEMPT.try_with(|e| e.set(e.get() - 1));
    }

    fn note_dealloc(p: *mut u8) {
        // blocks are removed even outside the monitored region / in exempt code,
        // otherwise a block freed by the harness would look leaked
        if !TRACK.try_with(|t| t.get()).unwrap_or(false) {
            return;
        }
        let _ = EXEMPT.try_with(|e| e.set(e.get() + 1));
        let _ = LIVE.try_with(|l| {
            if let Ok(mut l) = l.try_borrow_mut()
                && let Some(m) = l.as_mut()
            {
                m.remove(&(p as usize));
            }
        });
        let _ = EXEMPT.try_with(|e| e.set(e.get() - 1));
    }

    pub fn begin() {
        EXEMPT.with(|e| e.set(e.get() + 1));
        LIVE.with(|l| *l.borrow_mut() = Some(HashMap::new()));
        EXEMPT.with(|e| e.set(e.get() - 1));
        TRACK.with(|t| t.set(true));
    }

    /// End the monitored region: (live blocks, live bytes) still allocated.
    pub fn end() -> (usize, usize) {
        TRACK.with(|t| t.set(false));
        LIVE.with(|l| {
            let m = l.borrow_mut().take().unwrap_or_default();
            (m.len(), m.values().sum())
        })
    }

    pub fn exempt<R>(f: impl FnOnce() -> R) -> R {
        EXEMPT.with(|e| e.set(e.get() + 1));
        let r = f();
        EXEMPT.with(|e| e.set(e.get() - 1));
        r
    }

    pub const ENABLED: bool = true;
}

#[cfg(not(feature = "balance"))]
mod imp {
    pub fn begin() {}
    pub fn end() -> (usize, usize) {
        (0, 0)
    }
    pub fn exempt<R>(f: impl FnOnce() -> R) -> R {
        f()
    }
    pub const ENABLED: bool = false;
}

pub use imp::*;

#[cfg(feature = "balance")]
#[global_allocator]
static GLOBAL: imp::Counting = imp::Counting;
