//! Minimal JSON value + writer (workers only emit JSON, they never parse it).

use std::fmt::Write;

#[derive(Clone, Debug)]
pub enum J {
    Null,
    Bool(bool),
    Int(i128),
    Num(f64),
    Str(String),
    Arr(Vec<J>),
    Obj(Vec<(String, J)>),
}

impl J {
    pub fn obj() -> J {
        J::Obj(Vec::new())
    }
    pub fn set(mut self, k: &str, v: impl Into<J>) -> J {
        if let J::Obj(o) = &mut self {
            o.push((k.to_string(), v.into()));
        }
        self
    }
    pub fn put(&mut self, k: &str, v: impl Into<J>) {
        if let J::Obj(o) = self {
            o.push((k.to_string(), v.into()));
        }
    }
    pub fn to_string(&self) -> String {
        let mut s = String::new();
        self.write(&mut s);
        s
    }
    pub fn write(&self, out: &mut String) {
        match self {
            J::Null => out.push_str("null"),
            J::Bool(b) => out.push_str(if *b { "true" } else { "false" }),
            J::Int(i) => {
                let _ = write!(out, "{i}");
            }
            J::Num(f) => {
                if f.is_finite() {
                    let _ = write!(out, "{f}");
                } else {
                    out.push_str("null");
                }
            }
            J::Str(s) => esc(s, out),
            J::Arr(a) => {
                out.push('[');
                for (i, x) in a.iter().enumerate() {
                    if i > 0 {
                        out.push(',');
                    }
                    x.write(out);
                }
                out.push(']');
            }
            J::Obj(o) => {
                out.push('{');
                for (i, (k, v)) in o.iter().enumerate() {
                    if i > 0 {
                        out.push(',');
                    }
                    esc(k, out);
                    out.push(':');
                    v.write(out);
                }
                out.push('}');
            }
        }
    }
}

fn esc(s: &str, out: &mut String) {
    out.push('"');
    for c in s.chars() {
        match c {
            '"' => out.push_str("\\\""),
            '\\' => out.push_str("\\\\"),
            '\n' => out.push_str("\\n"),
            '\r' => out.push_str("\\r"),
            '\t' => out.push_str("\\t"),
            c if (c as u32) < 0x20 => {
                let _ = write!(out, "\\u{:04x}", c as u32);
            }
            c => out.push(c),
        }
    }
    out.push('"');
}

impl From<bool> for J {
    fn from(x: bool) -> J {
        J::Bool(x)
    }
}
impl From<&str> for J {
    fn from(x: &str) -> J {
        J::Str(x.to_string())
    }
}
impl From<String> for J {
    fn from(x: String) -> J {
        J::Str(x)
    }
}
impl From<&String> for J {
    fn from(x: &String) -> J {
        J::Str(x.clone())
    }
}
impl From<f64> for J {
    fn from(x: f64) -> J {
        J::Num(x)
    }
}
macro_rules! ji {
    ($($t:ty),*) => {$(impl From<$t> for J { fn from(x: $t) -> J { J::Int(x as i128) } })*};
}
ji!(u8, u16, u32, u64, usize, i8, i16, i32, i64, isize, i128);
impl<T: Into<J>> From<Vec<T>> for J {
    fn from(x: Vec<T>) -> J {
        J::Arr(x.into_iter().map(Into::into).collect())
    }
}
impl<T: Into<J>> From<Option<T>> for J {
    fn from(x: Option<T>) -> J {
        match x {
            Some(x) => x.into(),
            None => J::Null,
        }
    }
}
