//! Harness runtime: logging host functions, input tables, drop-tracked types and
//! their ledger. Everything a generated script can observe or affect goes through here.

use std::cell::RefCell;
use std::collections::HashMap;
use std::sync::Mutex;
use std::sync::atomic::{AtomicI64, AtomicU64, Ordering};

use roto::{List, NoCtx, RotoString, Runtime, Val, library};

use crate::conv;
use crate::val::{Ev, IntTy, V};

thread_local! {
    static LOG: RefCell<Vec<Ev>> = const { RefCell::new(Vec::new()) };
    static INPUT: RefCell<Vec<u64>> = const { RefCell::new(Vec::new()) };
}

pub fn log_clear() {
    LOG.with(|l| l.borrow_mut().clear());
}
pub fn log_take() -> Vec<Ev> {
    LOG.with(|l| std::mem::take(&mut *l.borrow_mut()))
}
pub fn log_push_raw(f: &str, args: Vec<V>) {
    LOG.with(|l| l.borrow_mut().push(Ev::new(f, args)));
}
pub fn set_input(words: &[u64]) {
    INPUT.with(|i| *i.borrow_mut() = words.to_vec());
}
fn word(k: u32) -> u64 {
    INPUT.with(|i| conv::word_at(&i.borrow(), k))
}

// ---------------------------------------------------------------------------
// Drop-tracked types and the ledger
// ---------------------------------------------------------------------------

pub const CANARY_LIVE: u64 = 0x11fe_c0de_a11c_e5ed;
pub const CANARY_DEAD: u64 = 0xdead_dead_dead_dead;

#[derive(Clone, Debug)]
pub struct Alarm {
    pub kind: &'static str,
    pub id: u64,
    pub info: String,
}

#[derive(Default)]
pub struct Ledger {
    pub live: HashMap<u64, i64>,
    pub dropped: HashMap<u64, i64>,
    pub alarms: Vec<Alarm>,
    pub created: u64,
    pub cloned: u64,
    pub drops: u64,
    /// instances that were live when the monitored region began (`ledger_mark`): tracked
    /// values owned by script constants, created while the package was compiled
    pub baseline: std::collections::HashSet<u64>,
}

static LEDGER: Mutex<Option<Ledger>> = Mutex::new(None);
static NEXT_ID: AtomicU64 = AtomicU64::new(1);
/// live count of zero-sized tracked values
pub static Z_LIVE: AtomicI64 = AtomicI64::new(0);
pub static Z_CLONES: AtomicU64 = AtomicU64::new(0);
pub static Z_DROPS: AtomicU64 = AtomicU64::new(0);
/// live count of 1-byte tracked values
pub static B_LIVE: AtomicI64 = AtomicI64::new(0);
pub static B_BAD: AtomicU64 = AtomicU64::new(0);

fn with_ledger<R>(f: impl FnOnce(&mut Ledger) -> R) -> R {
    crate::alloc::exempt(|| {
        let mut g = LEDGER.lock().unwrap_or_else(|e| e.into_inner());
        f(g.get_or_insert_with(Ledger::default))
    })
}

/// Reset the ledger; returns nothing. Call before a monitored region.
pub fn ledger_reset() {
    with_ledger(|l| *l = Ledger::default());
    Z_LIVE.store(0, Ordering::SeqCst);
    Z_CLONES.store(0, Ordering::SeqCst);
    Z_DROPS.store(0, Ordering::SeqCst);
    B_LIVE.store(0, Ordering::SeqCst);
    B_BAD.store(0, Ordering::SeqCst);
}

/// Begin a monitored region *without* forgetting what is live: the instances that are live
/// now form the baseline of the region. `ledger_report` then lists as live only what the
/// region added, and raises an alarm for a baseline instance the region released.
pub fn ledger_mark() {
    with_ledger(|l| {
        l.baseline = l.live.keys().copied().collect();
        l.alarms.clear();
        l.created = 0;
        l.cloned = 0;
        l.drops = 0;
    });
    Z_LIVE.store(0, Ordering::SeqCst);
    Z_CLONES.store(0, Ordering::SeqCst);
    Z_DROPS.store(0, Ordering::SeqCst);
    B_LIVE.store(0, Ordering::SeqCst);
    B_BAD.store(0, Ordering::SeqCst);
}

#[derive(Clone, Debug, Default)]
pub struct LedgerReport {
    pub alarms: Vec<Alarm>,
    pub live: Vec<(u64, i64)>,
    pub created: u64,
    pub cloned: u64,
    pub drops: u64,
    pub z_live: i64,
    pub z_clones: u64,
    pub z_drops: u64,
    pub b_live: i64,
    pub b_bad: u64,
}

pub fn ledger_report() -> LedgerReport {
    with_ledger(|l| {
        let mut live: Vec<(u64, i64)> = l.live.iter().filter(|(a, _)| !l.baseline.contains(a)).map(|(a, b)| (*a, *b)).collect();
        live.sort();
        let mut alarms = l.alarms.clone();
        let mut gone: Vec<u64> = l.baseline.iter().filter(|id| !l.live.contains_key(id)).copied().collect();
        gone.sort();
        for id in gone {
            alarms.push(Alarm { kind: "constant-released-during-call", id, info: "was live before the call (owned by a script constant) and was dropped during it".to_string() });
        }
        LedgerReport {
            alarms,
            live,
            created: l.created,
            cloned: l.cloned,
            drops: l.drops,
            z_live: Z_LIVE.load(Ordering::SeqCst),
            z_clones: Z_CLONES.load(Ordering::SeqCst),
            z_drops: Z_DROPS.load(Ordering::SeqCst),
            b_live: B_LIVE.load(Ordering::SeqCst),
            b_bad: B_BAD.load(Ordering::SeqCst),
        }
    })
}

/// 24-byte drop-tracked value. Only `tag` is visible to the language.
#[derive(Debug)]
pub struct Trk {
    pub id: u64,
    pub tag: i64,
    pub canary: u64,
}

impl Trk {
    pub fn new(tag: i64) -> Trk {
        let id = NEXT_ID.fetch_add(1, Ordering::Relaxed);
        with_ledger(|l| {
            l.created += 1;
            l.live.insert(id, tag);
        });
        Trk { id, tag, canary: CANARY_LIVE }
    }
    /// Check that this instance is live; records an alarm otherwise.
    pub fn check(&self, what: &'static str) -> bool {
        let (id, tag, canary) = (self.id, self.tag, self.canary);
        with_ledger(|l| {
            if canary != CANARY_LIVE {
                let kind = if canary == CANARY_DEAD { "read-after-drop" } else { "read-of-garbage" };
                l.alarms.push(Alarm { kind, id, info: format!("{what}: canary {canary:#x} tag {tag}") });
                false
            } else if !l.live.contains_key(&id) {
                let kind = if l.dropped.contains_key(&id) { "read-after-drop" } else { "read-of-unknown" };
                l.alarms.push(Alarm { kind, id, info: format!("{what}: tag {tag}") });
                false
            } else {
                true
            }
        })
    }
}

impl Clone for Trk {
    fn clone(&self) -> Trk {
        self.check("clone");
        let id = NEXT_ID.fetch_add(1, Ordering::Relaxed);
        let tag = self.tag;
        with_ledger(|l| {
            l.cloned += 1;
            l.live.insert(id, tag);
        });
        Trk { id, tag, canary: CANARY_LIVE }
    }
}

impl Drop for Trk {
    fn drop(&mut self) {
        let (id, tag, canary) = (self.id, self.tag, self.canary);
        with_ledger(|l| {
            l.drops += 1;
            if canary != CANARY_LIVE {
                let kind = if canary == CANARY_DEAD { "double-drop" } else { "drop-of-garbage" };
                l.alarms.push(Alarm { kind, id, info: format!("canary {canary:#x} tag {tag}") });
            } else if l.live.remove(&id).is_some() {
                l.dropped.insert(id, tag);
            } else if l.dropped.contains_key(&id) {
                l.alarms.push(Alarm { kind: "double-drop", id, info: format!("tag {tag}") });
            } else {
                l.alarms.push(Alarm { kind: "drop-of-unknown", id, info: format!("tag {tag}") });
            }
        });
        self.canary = CANARY_DEAD;
    }
}

impl PartialEq for Trk {
    fn eq(&self, o: &Trk) -> bool {
        self.check("eq-lhs");
        o.check("eq-rhs");
        self.tag == o.tag
    }
}

/// Zero-sized tracked value: only the balance can be checked.
#[derive(Debug)]
pub struct TrkZ;
impl TrkZ {
    pub fn new() -> TrkZ {
        Z_LIVE.fetch_add(1, Ordering::SeqCst);
        TrkZ
    }
}
impl Clone for TrkZ {
    fn clone(&self) -> TrkZ {
        Z_LIVE.fetch_add(1, Ordering::SeqCst);
        Z_CLONES.fetch_add(1, Ordering::SeqCst);
        TrkZ
    }
}
impl Drop for TrkZ {
    fn drop(&mut self) {
        Z_LIVE.fetch_sub(1, Ordering::SeqCst);
        Z_DROPS.fetch_add(1, Ordering::SeqCst);
    }
}
impl PartialEq for TrkZ {
    fn eq(&self, _: &TrkZ) -> bool {
        true
    }
}

/// One-byte, align-1 tracked value. Valid payloads are 0..=99; a dropped one is 0xDD.
#[derive(Debug)]
pub struct Trk1(pub u8);
impl Trk1 {
    pub fn new(t: u8) -> Trk1 {
        B_LIVE.fetch_add(1, Ordering::SeqCst);
        Trk1(t % 100)
    }
    fn check(&self) {
        if self.0 >= 100 {
            B_BAD.fetch_add(1, Ordering::SeqCst);
        }
    }
}
impl Clone for Trk1 {
    fn clone(&self) -> Trk1 {
        self.check();
        B_LIVE.fetch_add(1, Ordering::SeqCst);
        Trk1(self.0)
    }
}
impl Drop for Trk1 {
    fn drop(&mut self) {
        self.check();
        B_LIVE.fetch_sub(1, Ordering::SeqCst);
        self.0 = 0xDD;
    }
}
impl PartialEq for Trk1 {
    fn eq(&self, o: &Trk1) -> bool {
        self.check();
        o.check();
        self.0 == o.0
    }
}

/// A zero-sized registered type with alignment 8: it occupies no bytes but still decides the
/// alignment (and with it the size and the payload offsets) of every enum and record around it.
#[repr(align(8))]
#[derive(Clone, Copy, Debug, PartialEq)]
pub struct Za8;

/// A small `Copy` registered type (4 bytes).
#[derive(Clone, Copy, Debug, PartialEq)]
pub struct Cp(pub u32);

// ---------------------------------------------------------------------------
// The harness runtime
// ---------------------------------------------------------------------------

/// Log one host-call event. Arguments are built inside the allocation-exempt
/// region so that the log never shows up in the allocation balance.
macro_rules! lp {
    ($f:expr, $args:expr) => {
        crate::alloc::exempt(|| log_push_raw($f, $args))
    };
}

fn vs(s: &RotoString) -> V {
    crate::alloc::exempt(|| V::Str(s.to_string()))
}

macro_rules! int_fns {
    ($lib:ident; $( $t:ident, $in:ident, $out:ident, $it:expr );* $(;)?) => {
        $(
            $lib.add(library! {
                fn $in(k: u32) -> $t {
                    let v = conv::int_of($it, word(k)) as $t;
                    lp!(stringify!($in), vec![V::Int(IntTy::U32, k as i128)]);
                    v
                }
                fn $out(x: $t) {
                    lp!(stringify!($out), vec![V::Int($it, x as i128)]);
                }
            });
        )*
    };
}

/// Build the runtime every generated script is compiled against.
pub fn runtime() -> Runtime<NoCtx> {
    let mut rt = Runtime::new();
    // integer input/output
    struct Acc(Vec<roto::Library>);
    let mut acc = Acc(Vec::new());
    impl Acc {
        fn add(&mut self, l: roto::Library) {
            self.0.push(l);
        }
    }
    int_fns!(acc;
        u8, in_u8, out_u8, IntTy::U8;
        u16, in_u16, out_u16, IntTy::U16;
        u32, in_u32, out_u32, IntTy::U32;
        u64, in_u64, out_u64, IntTy::U64;
        i8, in_i8, out_i8, IntTy::I8;
        i16, in_i16, out_i16, IntTy::I16;
        i32, in_i32, out_i32, IntTy::I32;
        i64, in_i64, out_i64, IntTy::I64;
    );
    acc.add(library! {
        fn in_f32(k: u32) -> f32 {
            lp!("in_f32", vec![V::Int(IntTy::U32, k as i128)]);
            conv::f32_of(word(k))
        }
        fn out_f32(x: f32) {
            lp!("out_f32", vec![V::F32(x)]);
        }
        fn in_f64(k: u32) -> f64 {
            lp!("in_f64", vec![V::Int(IntTy::U32, k as i128)]);
            conv::f64_of(word(k))
        }
        fn out_f64(x: f64) {
            lp!("out_f64", vec![V::F64(x)]);
        }
        fn in_bool(k: u32) -> bool {
            lp!("in_bool", vec![V::Int(IntTy::U32, k as i128)]);
            conv::bool_of(word(k))
        }
        fn out_bool(x: bool) {
            lp!("out_bool", vec![V::Bool(x)]);
        }
        fn in_char(k: u32) -> char {
            lp!("in_char", vec![V::Int(IntTy::U32, k as i128)]);
            conv::char_of(word(k))
        }
        fn out_char(x: char) {
            lp!("out_char", vec![V::Char(x)]);
        }
        fn in_str(k: u32) -> RotoString {
            lp!("in_str", vec![V::Int(IntTy::U32, k as i128)]);
            RotoString::from(conv::str_of(word(k)))
        }
        fn out_str(x: RotoString) {
            lp!("out_str", vec![vs(&x)]);
        }
        fn out_unit() {
            lp!("out_unit", vec![]);
        }

        /// registered constants (values mirrored in `host_consts`)
        const HC_U8: u8 = 200;
        const HC_I16: i16 = -12345;
        const HC_U32: u32 = 4_000_000_000;
        const HC_I64: i64 = -5_000_000_000;
        const HC_F64: f64 = 2.5;
        const HC_BOOL: bool = true;
        const HC_CHAR: char = 'é';
        const HC_STR: RotoString = RotoString::from("héllo");
        const HC_OPT: Option<u32> = Some(77);
        const HC_OPT_NONE: Option<i64> = None;
        const HC_OPT_STR: Option<RotoString> = Some(RotoString::from("opt"));
        const HC_VER: roto::Verdict<u32, RotoString> = roto::Verdict::Accept(7);
        const HC_VER_R: roto::Verdict<RotoString, i64> = roto::Verdict::Reject(-9);
        const HC_VER_S: roto::Verdict<u16, RotoString> = roto::Verdict::Reject(RotoString::from("why"));

        /// 24-byte drop-tracked type
        #[clone] type Trk = Val<Trk>;
        /// zero-sized drop-tracked type
        #[clone] type TrkZ = Val<TrkZ>;
        /// one-byte drop-tracked type
        #[clone] type Trk1 = Val<Trk1>;
        /// small copy type
        #[copy] type Cp = Val<Cp>;
        /// zero-sized, alignment 8
        #[copy] type Za8 = Val<Za8>;

        fn mk(tag: i64) -> Val<Trk> {
            lp!("mk", vec![V::Int(IntTy::I64, tag as i128)]);
            Val(Trk::new(tag))
        }
        fn out_trk(x: Val<Trk>) {
            x.check("out_trk");
            lp!("out_trk", vec![V::Trk(x.tag)]);
        }
        fn trk_tag(x: Val<Trk>) -> i64 {
            x.check("trk_tag");
            lp!("trk_tag", vec![V::Trk(x.tag)]);
            x.tag
        }
        fn mkz() -> Val<TrkZ> {
            lp!("mkz", vec![]);
            Val(TrkZ::new())
        }
        fn out_trkz(_x: Val<TrkZ>) {
            lp!("out_trkz", vec![V::TrkZ]);
        }
        fn mk1(tag: u8) -> Val<Trk1> {
            lp!("mk1", vec![V::Int(IntTy::U8, tag as i128)]);
            Val(Trk1::new(tag))
        }
        fn out_trk1(x: Val<Trk1>) {
            x.check();
            lp!("out_trk1", vec![V::Int(IntTy::U8, x.0.0 as i128)]);
        }
        fn mkcp(x: u32) -> Val<Cp> {
            Val(Cp(x))
        }
        fn out_cp(x: Val<Cp>) {
            lp!("out_cp", vec![V::Int(IntTy::U32, x.0.0 as i128)]);
        }

        impl Val<Trk> {
            fn tag(self) -> i64 {
                self.check("Trk.tag");
                lp!("Trk.tag", vec![V::Trk(self.tag)]);
                self.tag
            }
            fn join(self, other: Val<Trk>) -> Val<Trk> {
                self.check("Trk.join.self");
                other.check("Trk.join.other");
                lp!("Trk.join", vec![V::Trk(self.tag), V::Trk(other.tag)]);
                Val(Trk::new(self.tag.wrapping_mul(31).wrapping_add(other.tag)))
            }
            fn to_string(self) -> RotoString {
                self.check("Trk.to_string");
                // observable: the formatting of an f-string part is a host call like any other
                lp!("Trk.to_string", vec![V::Trk(self.tag)]);
                RotoString::from(format!("T{}", self.tag))
            }
        }

        fn in_opt_i32(k: u32) -> Option<i32> {
            lp!("in_opt_i32", vec![V::Int(IntTy::U32, k as i128)]);
            let w = word(k);
            if w & 1 == 1 { Some(conv::int_of(IntTy::I32, w >> 1) as i32) } else { None }
        }
        fn in_opt_trk(k: u32) -> Option<Val<Trk>> {
            lp!("in_opt_trk", vec![V::Int(IntTy::U32, k as i128)]);
            let w = word(k);
            if w & 1 == 1 { Some(Val(Trk::new((w >> 1) as i64 & 0xffff))) } else { None }
        }
        fn in_opt_str(k: u32) -> Option<RotoString> {
            lp!("in_opt_str", vec![V::Int(IntTy::U32, k as i128)]);
            let w = word(k);
            if w & 1 == 1 { Some(RotoString::from(conv::str_of(w >> 1))) } else { None }
        }
        /// how far the list is from being a permutation of 1..=n (0 = it is one): the snapshot
        /// is taken with `List::to_vec`, i.e. by the host while scripts on other threads use the list
        fn perm_defect(l: List<u64>, n: u64) -> u64 {
            let v = l.to_vec();
            let mut seen = vec![0u32; n as usize + 1];
            let mut bad = 0u64;
            for x in &v {
                if *x >= 1 && *x <= n {
                    seen[*x as usize] += 1;
                } else {
                    bad += 1;
                }
            }
            bad + seen[1..].iter().filter(|c| **c != 1).count() as u64 + (v.len() as u64 != n) as u64
        }
        fn out_list_i32(x: List<i32>) {
            let v: Vec<V> = x.to_vec().into_iter().map(|e| V::Int(IntTy::I32, e as i128)).collect();
            lp!("out_list_i32", vec![V::list(v)]);
        }
    });
    // Two input functions are registered as CAPTURING closures (three words captured by value),
    // so that every executor of a registered function - the compiled code's call shim and the IR
    // evaluator's wrapper - also has to find the state of a closure, not only call fn items.
    let salt: [u64; 3] = CAP_SALT;
    let mut caps = roto::Library::new();
    caps.add(
        roto::Function::new(
            "in_cap_i64",
            "input word k as i64, mixed with the closure's captured state",
            vec!["k"],
            move |k: u32| -> i64 {
                let v = (conv::int_of(IntTy::I64, word(k)) as i64) ^ ((salt[0] ^ salt[1].rotate_left(17) ^ salt[2].rotate_left(41)) as i64);
                lp!("in_cap_i64", vec![V::Int(IntTy::U32, k as i128)]);
                v
            },
            roto::location!(),
        )
        .expect("in_cap_i64 registers")
        .into(),
    );
    caps.add(
        roto::Function::new(
            "in_cap_u32",
            "input word k as u32, mixed with the closure's captured state",
            vec!["k"],
            move |k: u32| -> u32 {
                let v = (conv::int_of(IntTy::U32, word(k)) as u32) ^ ((salt[0] ^ salt[1].rotate_left(17) ^ salt[2].rotate_left(41)) as u32);
                lp!("in_cap_u32", vec![V::Int(IntTy::U32, k as i128)]);
                v
            },
            roto::location!(),
        )
        .expect("in_cap_u32 registers")
        .into(),
    );
    acc.add(caps);
    for l in acc.0 {
        rt.add(l).expect("harness library registers");
    }
    rt
}

/// State captured by the closures `in_cap_i64` / `in_cap_u32`.
pub const CAP_SALT: [u64; 3] = [0x0123_4567_89ab_cdef, 0xfeed_face_cafe_beef, 0x0f1e_2d3c_4b5a_6978];

/// What the captured state contributes to the value of `in_cap_*` (the reference interpreter
/// computes the same from the constant).
pub fn cap_mix() -> u64 {
    CAP_SALT[0] ^ CAP_SALT[1].rotate_left(17) ^ CAP_SALT[2].rotate_left(41)
}


/// The registered constants of the harness runtime with their values, for the generator
/// (which lets programs read them like any visible name) and the reference interpreter.
pub fn host_consts() -> Vec<(&'static str, crate::rg::ast::Ty, V)> {
    use crate::rg::ast::Ty;
    let ver = |a: Ty, r: Ty| Ty::Verdict(Box::new(a), Box::new(r));
    vec![
        ("HC_U8", Ty::Int(IntTy::U8), V::Int(IntTy::U8, 200)),
        ("HC_I16", Ty::Int(IntTy::I16), V::Int(IntTy::I16, -12345)),
        ("HC_U32", Ty::Int(IntTy::U32), V::Int(IntTy::U32, 4_000_000_000)),
        ("HC_I64", Ty::Int(IntTy::I64), V::Int(IntTy::I64, -5_000_000_000)),
        ("HC_F64", Ty::F64, V::F64(2.5)),
        ("HC_BOOL", Ty::Bool, V::Bool(true)),
        ("HC_CHAR", Ty::Char, V::Char('é')),
        ("HC_STR", Ty::Str, V::Str("héllo".into())),
        ("HC_OPT", Ty::opt(Ty::Int(IntTy::U32)), V::Opt(Some(Box::new(V::Int(IntTy::U32, 77))))),
        ("HC_OPT_NONE", Ty::opt(Ty::Int(IntTy::I64)), V::Opt(None)),
        ("HC_OPT_STR", Ty::opt(Ty::Str), V::Opt(Some(Box::new(V::Str("opt".into()))))),
        ("HC_VER", ver(Ty::Int(IntTy::U32), Ty::Str), V::Enum(0, "Accept".into(), vec![V::Int(IntTy::U32, 7)])),
        ("HC_VER_R", ver(Ty::Str, Ty::Int(IntTy::I64)), V::Enum(1, "Reject".into(), vec![V::Int(IntTy::I64, -9)])),
        ("HC_VER_S", ver(Ty::Int(IntTy::U16), Ty::Str), V::Enum(1, "Reject".into(), vec![V::Str("why".into())])),
    ]
}
