//! C07: ill-typed scripts never compile. Each case takes a well-typed generated
//! program, checks that it compiles, applies ONE type-breaking edit (ill-typed by
//! construction, see rg/mutate.rs) at every applicable site (up to a bound) and
//! requires a *type error* report for each mutant.

use roto::{FileTree, NoCtx, Runtime};

use crate::host;
use crate::jsonw::J;
use crate::rg::generate::{Cfg, Gen};
use crate::rg::mutate::{self, EDIT_KINDS, ITEM_EDITS};
use crate::rg::print;
use crate::rng::Rng;
use crate::work::{Args, CaseOut, Family, catch, hash_str, panic_sig};

pub struct IllTyped {
    rt: Runtime<NoCtx>,
}

impl IllTyped {
    pub fn new(_args: &Args) -> IllTyped {
        IllTyped { rt: host::runtime() }
    }
}

pub enum Verdict {
    Compiled,
    /// error kinds reported (from the hook), rendered text
    Rejected(Vec<&'static str>, String),
    Panicked(String),
}

pub fn compile_verdict(rt: &Runtime<NoCtx>, src: &str) -> Verdict {
    let r = catch(|| {
        let tree = FileTree::test_file("gen.roto", src, 0);
        match tree.compile(rt) {
            Ok(_) => Verdict::Compiled,
            Err(rep) => {
                let kinds = roto::verif::report_kinds(&rep);
                let mut s = String::new();
                let _ = rep.write(&mut s, false);
                Verdict::Rejected(kinds, s)
            }
        }
    });
    match r {
        Ok(v) => v,
        Err(p) => Verdict::Panicked(p),
    }
}

/// Parse and type check only (the control programs: whether they type check is all
/// that matters, and lowering and code generation are the expensive stages).
pub fn typecheck_verdict(rt: &Runtime<NoCtx>, src: &str) -> Verdict {
    let r = catch(|| {
        let tree = FileTree::test_file("gen.roto", src, 0);
        let checked = match tree.parse() {
            Ok(parsed) => parsed.typecheck(rt).map(|_| ()),
            Err(rep) => Err(rep),
        };
        match checked {
            Ok(()) => Verdict::Compiled,
            Err(rep) => {
                let kinds = roto::verif::report_kinds(&rep);
                let mut s = String::new();
                let _ = rep.write(&mut s, false);
                Verdict::Rejected(kinds, s)
            }
        }
    });
    match r {
        Ok(v) => v,
        Err(p) => Verdict::Panicked(p),
    }
}

pub fn gen_base(rng: &mut Rng) -> (crate::rg::ast::Program, Vec<String>) {
    let mut cfg = match rng.below(3) {
        0 => Cfg::scalar(),
        1 => Cfg::aggregate(),
        _ => Cfg::effects(),
    };
    // constants must not run script code that could trap during compilation
    cfg.raw_div = false;
    cfg.trkz = false;
    cfg.max_stmts = 5;
    let g = Gen::new(Rng::new(rng.next()), cfg);
    let (p, tags) = g.program();
    (p, tags.into_iter().collect())
}

impl Family for IllTyped {
    fn n_cases(&self, args: &Args) -> u64 {
        if args.thorough() { 20_000 } else { 1_500 }
    }

    fn run(&mut self, _k: u64, rng: &mut Rng, args: &Args) -> CaseOut {
        let mut out = CaseOut::default();
        let (prog, _) = gen_base(rng);
        let base_src = print::print_program(&prog, None);
        out.hash = hash_str(&base_src);
        // the base program must compile, otherwise nothing can be concluded
        match compile_verdict(&self.rt, &base_src) {
            Verdict::Compiled => {}
            Verdict::Rejected(_, s) => {
                out.skipped = Some(format!("base-rejected:{}", s.lines().next().unwrap_or("")));
                return out;
            }
            Verdict::Panicked(p) => {
                out.skipped = Some(format!("base-panicked:{p}"));
                return out;
            }
        }
        let per_kind: usize = if args.thorough() { 6 } else { 3 };
        let mut samples = Vec::new();
        let all: Vec<&str> = EDIT_KINDS.iter().chain(ITEM_EDITS.iter()).copied().collect();
        for kind in all {
            // `--edits <prefix>`: restrict the edit kinds (for looking at one class)
            if args.opt("edits").is_some_and(|o| !kind.starts_with(o)) {
                continue;
            }
            let n = mutate::sites(&prog, kind);
            if n == 0 {
                continue;
            }
            // every site when there are few, else a seeded sample of sites. The sibling
            // scope kinds are ten kinds of one rule: fewer sites of each per program.
            let per_kind = if kind.starts_with("scope-") { per_kind.div_ceil(3) } else if mutate::has_control(kind) { per_kind - per_kind / 3 } else { per_kind };
            let picks: Vec<usize> = if n <= per_kind { (0..n).collect() } else { (0..per_kind).map(|_| rng.usize(n)).collect() };
            for site in picks {
                let Some(mutant) = mutate::apply_full(&prog, kind, site, rng.next()) else { continue };
                let m = mutant.prog;
                let src = print::print_program(&m, None);
                // Edit kinds that move or add material (a use of a name, a match arm) come
                // with a control: the same material placed where the typing rule allows it.
                // The mutant is judged only if the control compiles, so that the one
                // difference between an accepted and a rejected program is the rule.
                // (every second time: the control costs as much as the mutant)
                let with_control = mutate::has_control(kind) && rng.bool();
                if !with_control {
                    // judged without its control
                } else if let Some(c) = &mutant.control {
                    let csrc = print::print_program(c, None);
                    out.evals += 1;
                    match typecheck_verdict(&self.rt, &csrc) {
                        Verdict::Compiled => out.tags.push(format!("control-typechecked:{kind}")),
                        Verdict::Rejected(_, text) => {
                            out.tags.push(format!("control-rejected:{kind}"));
                            out.count("control_rejected", 1);
                            if samples.len() < 2 {
                                samples.push(J::obj().set("edit", kind).set("control_rejected", text).set("control", csrc));
                            }
                            continue;
                        }
                        Verdict::Panicked(p) => {
                            out.tags.push(format!("control-panicked:{kind}:{}", panic_sig(&p)));
                            continue;
                        }
                    }
                } else if mutate::has_control(kind) {
                    continue;
                }
                out.evals += 1;
                out.events += 1;
                out.tags.push(format!("edit:{kind}"));
                out.tags.extend(mutant.tags.iter().cloned());
                match compile_verdict(&self.rt, &src) {
                    Verdict::Rejected(kinds, text) => {
                        if kinds.iter().all(|k| *k == "type") && !kinds.is_empty() {
                            out.nontrivial = true;
                            let first = text.lines().next().unwrap_or("").to_string();
                            out.tags.push(format!("error:{}", first.chars().take(60).collect::<String>()));
                        } else {
                            out.viol(
                                format!("wrong-error-kind:{}@{kind}", kinds.join("+")),
                                format!("mutant `{kind}` (site {site}) was rejected, but not with a type error:\n{text}"),
                                J::obj().set("mutant", src.as_str()).set("edit", kind),
                            );
                        }
                    }
                    Verdict::Compiled => {
                        out.viol(
                            format!("accepted-ill-typed@{kind}"),
                            format!("mutant `{kind}` (site {site}) is ill-typed by construction but compiled"),
                            J::obj().set("mutant", src.as_str()).set("edit", kind).set("base", base_src.as_str()),
                        );
                    }
                    Verdict::Panicked(p) => {
                        out.viol(
                            format!("compile-{}@{kind}", panic_sig(&p)),
                            format!("compiler panicked on mutant `{kind}`: {p}"),
                            J::obj().set("mutant", src.as_str()).set("edit", kind),
                        );
                    }
                }
                if samples.len() < 2 || args.opt("edits").is_some() {
                    samples.push(J::obj().set("edit", kind).set("site", site as u64).set("mutant", src));
                }
            }
        }
        out.sample = Some(J::obj().set("base", base_src).set("mutants", J::Arr(samples)));
        out
    }
}
