//! C13 — names resolve to the item the module rules designate.
//!
//! A case is one random module tree (depth <= 3, <= 7 modules). Every module declares a
//! random subset of the functions `f g h`, the constants `A B` and the types `T U` (same
//! names in every module on purpose); every item carries a unique i32 tag. On top of the
//! tree the generator places probe functions: a chain of scopes (function, 0..3 nested
//! blocks of several kinds) with locals, parameters and imports, ending in one reference.
//!
//! The oracle (`Orc`) is a resolver that knows only the documented rules:
//!   * a bare name / the first path segment: declarations of the innermost scope, then the
//!     imports of that scope, then outward (blocks -> function -> module -> `pkg`);
//!   * `pkg` starts an absolute path, leading `super`s walk up from the current module,
//!     both only at the start of a path;
//!   * every later segment is looked up among the *direct members* (declared items and
//!     submodules, not imports) of the module before it;
//!   * `import p.{a, b.{c}}` is the same as the separate imports; the order of imports is
//!     irrelevant; two imports of one name for different items are an error.
//! Whatever these rules do not order (a declaration and an import of one name in the same
//! scope, import cycles, ...) is classified `Amb` and never generated.
//!
//! The generator proposes, the oracle decides: every proposed reference is classified as
//! "evaluates to tag N" or "must be a compile error". Valid probes are compiled together
//! and called; every must-be-error probe is compiled alone in a copy of the tree. Both
//! delivery routes are used: `FileTree::file_spec` and a directory on disk with decoys
//! read by `FileTree::read`.

use std::collections::{BTreeMap, BTreeSet};
use std::path::{Path, PathBuf};

use roto::{FileSpec, FileTree, NoCtx, Package, Runtime, SourceFile};

use crate::jsonw::J;
use crate::rng::Rng;
use crate::work::{Args, CaseOut, Family, catch, hash_str, panic_sig};

const MOD_NAMES: [&str; 5] = ["a", "b", "c", "m", "n"];
const ITEM_NAMES: [&str; 7] = ["f", "g", "h", "A", "B", "T", "U"];
const LOCAL_NAMES: [&str; 5] = ["f", "g", "h", "A", "B"];

#[derive(Clone, Copy, PartialEq, Eq, Debug)]
enum Kind {
    Func,
    Const,
    Rec,
    Enum,
}

#[derive(Clone, Debug)]
struct Item {
    name: &'static str,
    kind: Kind,
    tag: i32,
}

#[derive(Clone, Debug)]
struct Mod {
    name: String,
    parent: Option<usize>,
    children: Vec<usize>,
    dir: bool,
    depth: usize,
    items: Vec<Item>,
    /// module-level imports
    imports: Vec<ImpTree>,
    /// order of the declarations in the file: (is_import, index)
    order: Vec<(bool, usize)>,
}

/// An import statement: `import a.b;` or `import a.{b, c.{d}};`
#[derive(Clone, Debug, PartialEq)]
enum ImpTree {
    Leaf(Vec<String>),
    List(Vec<String>, Vec<ImpTree>),
}

impl ImpTree {
    fn path_text(&self) -> String {
        match self {
            ImpTree::Leaf(p) => p.join("."),
            ImpTree::List(p, subs) => {
                let inner: Vec<String> = subs.iter().map(|s| s.path_text()).collect();
                if p.is_empty() { format!("{{{}}}", inner.join(", ")) } else { format!("{}.{{{}}}", p.join("."), inner.join(", ")) }
            }
        }
    }
    fn render(&self) -> String {
        format!("import {};", self.path_text())
    }
    fn flatten(&self) -> Vec<(Vec<String>, &'static str)> {
        fn go(t: &ImpTree, prefix: &[String], level: usize, out: &mut Vec<(Vec<String>, &'static str)>) {
            match t {
                ImpTree::Leaf(p) => {
                    let mut full = prefix.to_vec();
                    full.extend(p.iter().cloned());
                    out.push((full, if level == 0 { "single" } else if level == 1 { "list" } else { "nested" }));
                }
                ImpTree::List(p, subs) => {
                    let mut full = prefix.to_vec();
                    full.extend(p.iter().cloned());
                    for s in subs {
                        go(s, &full, level + 1, out);
                    }
                }
            }
        }
        let mut out = Vec::new();
        go(self, &[], 0, &mut out);
        out
    }
}

#[derive(Clone, Copy, PartialEq, Eq, Debug)]
enum SK {
    Module,
    Func,
    Block,
    Then,
    Else,
    While,
}

impl SK {
    fn label(self) -> &'static str {
        match self {
            SK::Module => "module",
            SK::Func => "function",
            SK::Block => "block",
            SK::Then => "then",
            SK::Else => "else",
            SK::While => "while",
        }
    }
}

#[derive(Clone, Debug)]
enum St {
    Imp(ImpTree),
    Let(String, i32),
    /// `let zN: i32 = { import ...; 0 };` — an import living in a side block
    Side(ImpTree, u32),
}

#[derive(Clone, Debug)]
struct Sc {
    kind: SK,
    module: usize,
    param: Option<(String, i32)>,
    stmts: Vec<St>,
    /// the import of the sibling branch (if/else scopes)
    other: Option<ImpTree>,
    id: u32,
    /// number of imports of an import ladder placed in this scope (0 = none)
    ladder: u8,
}

impl Sc {
    fn new(kind: SK, module: usize, id: u32) -> Sc {
        Sc { kind, module, param: None, stmts: Vec::new(), other: None, id, ladder: 0 }
    }
    fn locals(&self) -> Vec<(&str, i32, bool)> {
        let mut v = Vec::new();
        if let Some((n, x)) = &self.param {
            v.push((n.as_str(), *x, true));
        }
        for s in &self.stmts {
            if let St::Let(n, x) = s {
                v.push((n.as_str(), *x, false));
            }
        }
        v
    }
    fn flat(&self) -> Vec<(Vec<String>, &'static str)> {
        let mut v = Vec::new();
        for s in &self.stmts {
            if let St::Imp(t) = s {
                v.extend(t.flatten());
            }
        }
        v
    }
    fn n_import_stmts(&self) -> usize {
        self.stmts.iter().filter(|s| matches!(s, St::Imp(_))).count()
    }
}

struct Tree {
    mods: Vec<Mod>,
}

#[derive(Clone, Copy, PartialEq, Eq, Debug)]
enum Res {
    Mod(usize),
    Item(usize, usize),
    Local(i32),
}

#[derive(Clone, Debug, PartialEq)]
enum Why {
    NotFound(&'static str),
    NotMember(&'static str),
    TooManySuper,
    SuperNotLeading,
    PkgNotLeading,
    NotAModule,
    DupImport,
    BadImport(Box<Why>),
}

impl Why {
    fn label(&self) -> String {
        match self {
            Why::NotFound(d) => format!("not-found:{d}"),
            Why::NotMember(d) => format!("not-member:{d}"),
            Why::TooManySuper => "too-many-super".into(),
            Why::SuperNotLeading => "super-not-leading".into(),
            Why::PkgNotLeading => "pkg-not-leading".into(),
            Why::NotAModule => "not-a-module".into(),
            Why::DupImport => "dup-import".into(),
            Why::BadImport(w) => format!("bad-import/{}", w.label()),
        }
    }
}

/// How the first segment of a path was bound.
#[derive(Clone, Debug, Default)]
struct Trace {
    /// local | param | item | submodule | import | pkg | super
    binder: &'static str,
    /// index of the scope in the chain that holds the binding
    bscope: usize,
    /// single | list | nested (binder == import)
    imp_form: &'static str,
    /// rel | abs | super | chain (how the import's own path starts)
    imp_path: &'static str,
    /// the import's first segment is bound by another import of the same scope
    chain: bool,
    /// ... and that segment is also bound further out (to something else)
    alt_outside: bool,
    /// kind of the binding of the same name that is shadowed ("" if none)
    over: &'static str,
}

enum Out {
    Ok(Res, Trace),
    Err(Why),
    Amb,
}

impl Tree {
    fn mod_path(&self, m: usize) -> Vec<String> {
        let mut v = Vec::new();
        let mut c = m;
        while let Some(p) = self.mods[c].parent {
            v.push(self.mods[c].name.clone());
            c = p;
        }
        v.reverse();
        v
    }
    fn full_name(&self, m: usize) -> String {
        let mut v = vec!["pkg".to_string()];
        v.extend(self.mod_path(m));
        v.join(".")
    }
    fn rust_path(&self, m: usize, name: &str) -> String {
        let mut v = self.mod_path(m);
        v.push(name.to_string());
        v.join(".")
    }
    fn file_path(&self, m: usize) -> String {
        if m == 0 {
            return "pkg.roto".into();
        }
        let mut v = self.mod_path(m);
        if self.mods[m].dir {
            v.push("mod.roto".into());
            v.join("/")
        } else {
            format!("{}.roto", v.join("/"))
        }
    }
    fn ancestor(&self, m: usize, k: usize) -> Option<usize> {
        let mut c = m;
        for _ in 0..k {
            c = self.mods[c].parent?;
        }
        Some(c)
    }
    fn child(&self, m: usize, name: &str) -> Option<usize> {
        self.mods[m].children.iter().copied().find(|c| self.mods[*c].name == name)
    }
    /// direct members: declared items and submodules (never imports)
    fn member(&self, m: usize, name: &str) -> Option<Res> {
        if let Some(i) = self.mods[m].items.iter().position(|it| it.name == name) {
            return Some(Res::Item(m, i));
        }
        self.child(m, name).map(Res::Mod)
    }
    fn import_names(&self, m: usize) -> Vec<String> {
        self.mods[m].imports.iter().flat_map(|t| t.flatten()).map(|(p, _)| p.last().unwrap().clone()).collect()
    }
    fn module_scope(&self, m: usize) -> Sc {
        let mut s = Sc::new(SK::Module, m, 0);
        s.stmts = self.mods[m].imports.iter().cloned().map(St::Imp).collect();
        s
    }
    fn tag_owner(&self, tag: i32) -> Option<String> {
        for (mi, m) in self.mods.iter().enumerate() {
            for it in &m.items {
                if it.tag == tag {
                    return Some(format!("{}.{}", self.full_name(mi), it.name));
                }
            }
        }
        None
    }
}

// ---------------------------------------------------------------------------------------------
// the oracle

struct Orc<'a> {
    t: &'a Tree,
}

impl Orc<'_> {
    /// kind of the nearest binding of `name` from scope `from` outward, without resolving it
    fn peek(&self, chain: &[Sc], from: isize, name: &str) -> &'static str {
        let mut s = from;
        while s >= 0 {
            let sc = &chain[s as usize];
            if s == 0 {
                match self.t.member(sc.module, name) {
                    Some(Res::Mod(_)) => return "submodule",
                    Some(_) => return "item",
                    None => {}
                }
            } else if let Some(l) = sc.locals().iter().find(|l| l.0 == name) {
                return if l.2 { "param" } else { "local" };
            }
            if sc.flat().iter().any(|(p, _)| p.last().unwrap() == name) {
                return "import";
            }
            s -= 1;
        }
        if name == "pkg" { "pkg" } else { "" }
    }

    fn lookup_first(&self, chain: &[Sc], from: usize, name: &str, visiting: &mut Vec<(usize, String)>) -> Out {
        for s in (0..=from).rev() {
            let sc = &chain[s];
            let mut tr = Trace { bscope: s, ..Default::default() };
            let decl = if s == 0 {
                let r = self.t.member(sc.module, name);
                tr.binder = if matches!(r, Some(Res::Mod(_))) { "submodule" } else { "item" };
                r
            } else {
                let ls: Vec<_> = sc.locals().into_iter().filter(|l| l.0 == name).collect();
                if ls.len() > 1 {
                    return Out::Amb;
                }
                ls.first().map(|l| {
                    tr.binder = if l.2 { "param" } else { "local" };
                    Res::Local(l.1)
                })
            };
            let imps: Vec<_> = sc.flat().into_iter().filter(|(p, _)| p.last().unwrap() == name).collect();
            if let Some(r) = decl {
                // declarations of a scope come before that scope's imports
                tr.over = if imps.is_empty() { self.peek(chain, s as isize - 1, name) } else { "import-same-scope" };
                return Out::Ok(r, tr);
            }
            if imps.len() > 1 {
                return Out::Amb; // judged by check_scopes
            }
            if let Some((path, form)) = imps.into_iter().next() {
                let key = (s, name.to_string());
                if visiting.contains(&key) {
                    return Out::Amb; // import cycle
                }
                visiting.push(key);
                let r = self.resolve_path(chain, s, &path, visiting);
                visiting.pop();
                return match r {
                    Out::Ok(res, first) => {
                        tr.binder = "import";
                        tr.imp_form = form;
                        tr.chain = first.binder == "import" && first.bscope == s;
                        tr.imp_path = match first.binder {
                            "pkg" => "abs",
                            "super" => "super",
                            "import" => "chain",
                            _ => "rel",
                        };
                        if tr.chain {
                            tr.alt_outside = !self.peek(chain, s as isize - 1, &path[0]).is_empty();
                        }
                        tr.over = self.peek(chain, s as isize - 1, name);
                        Out::Ok(res, tr)
                    }
                    Out::Err(w) => Out::Err(Why::BadImport(Box::new(w))),
                    Out::Amb => Out::Amb,
                };
            }
        }
        if name == "pkg" {
            return Out::Ok(Res::Mod(0), Trace { binder: "pkg", ..Default::default() });
        }
        // diagnosis only
        let cur = chain[0].module;
        let mut anc = self.t.mods[cur].parent;
        while let Some(a) = anc {
            if self.t.member(a, name).is_some() {
                return Out::Err(Why::NotFound("ancestor-member"));
            }
            anc = self.t.mods[a].parent;
        }
        Out::Err(Why::NotFound("unbound"))
    }

    fn resolve_path(&self, chain: &[Sc], from: usize, segs: &[String], visiting: &mut Vec<(usize, String)>) -> Out {
        let cur = chain[0].module;
        let mut i = 0;
        let (mut res, trace);
        if segs[0] == "super" {
            let mut m = cur;
            while i < segs.len() && segs[i] == "super" {
                match self.t.mods[m].parent {
                    Some(p) => m = p,
                    None => return Out::Err(Why::TooManySuper),
                }
                i += 1;
            }
            res = Res::Mod(m);
            trace = Trace { binder: "super", ..Default::default() };
        } else {
            match self.lookup_first(chain, from, &segs[0], visiting) {
                Out::Ok(r, t) => {
                    res = r;
                    trace = t;
                }
                o => return o,
            }
            i = 1;
        }
        while i < segs.len() {
            let seg = segs[i].as_str();
            if seg == "super" {
                return Out::Err(Why::SuperNotLeading);
            }
            if seg == "pkg" {
                return Out::Err(Why::PkgNotLeading);
            }
            let Res::Mod(m) = res else { return Out::Err(Why::NotAModule) };
            match self.t.member(m, seg) {
                Some(r) => res = r,
                None => {
                    let d = if self.t.import_names(m).iter().any(|n| n == seg) {
                        "imported-there"
                    } else if (0..self.t.mods.len()).any(|o| self.t.member(o, seg).is_some()) {
                        "member-elsewhere"
                    } else {
                        "absent"
                    };
                    return Out::Err(Why::NotMember(d));
                }
            }
            i += 1;
        }
        Out::Ok(res, trace)
    }

    /// Check the imports of scope `s` of the chain (and of its side / sibling blocks).
    fn check_scope(&self, chain: &[Sc], s: usize) -> Result<Option<(Why, usize, &'static str)>, ()> {
        let sc = &chain[s];
        let mut err: Option<(Why, usize, &'static str)> = None;
        let flat = sc.flat();
        // declarations
        let mut names: BTreeSet<String> = BTreeSet::new();
        if s == 0 {
            for it in &self.t.mods[sc.module].items {
                names.insert(it.name.to_string());
            }
            for c in &self.t.mods[sc.module].children {
                names.insert(self.t.mods[*c].name.clone());
            }
        } else {
            for l in sc.locals() {
                if !names.insert(l.0.to_string()) {
                    return Err(());
                }
            }
        }
        let mut by_name: BTreeMap<String, Vec<Vec<String>>> = BTreeMap::new();
        for (p, _) in &flat {
            let n = p.last().unwrap().clone();
            by_name.entry(n).or_default().push(p.clone());
        }
        for (_, paths) in by_name {
            let mut results = Vec::new();
            for p in &paths {
                if p.len() == 1 && s == 0 {
                    return Err(());
                }
                match self.resolve_path_for_import(chain, s, p) {
                    Out::Ok(r, _) => results.push(r),
                    Out::Err(w) => {
                        err.get_or_insert((Why::BadImport(Box::new(w)), s, path_head(p)));
                    }
                    Out::Amb => return Err(()),
                }
            }
            if paths.len() > 1 && results.len() == paths.len() {
                if results.iter().all(|r| *r == results[0]) {
                    return Err(()); // the same item imported twice: not specified
                }
                err.get_or_insert((Why::DupImport, s, "any"));
            }
        }
        // side blocks (children of s) and the sibling branch (child of s-1)
        for st in &sc.stmts {
            if let St::Side(t, _) = st {
                let mut c2: Vec<Sc> = chain[..=s].to_vec();
                let mut n = Sc::new(SK::Block, sc.module, 0);
                n.stmts.push(St::Imp(t.clone()));
                c2.push(n);
                if let Some(e) = self.check_scope(&c2, s + 1)? {
                    err.get_or_insert(e);
                }
            }
        }
        if let Some(t) = &sc.other {
            let mut c2: Vec<Sc> = chain[..s].to_vec();
            let mut n = Sc::new(SK::Block, sc.module, 0);
            n.stmts.push(St::Imp(t.clone()));
            c2.push(n);
            if let Some(e) = self.check_scope(&c2, s)? {
                err.get_or_insert(e);
            }
        }
        Ok(err)
    }

    /// An import names the item by a path; a path that is a single name cannot be resolved
    /// through the import that it defines itself (cycle => Amb through `visiting`).
    fn resolve_path_for_import(&self, chain: &[Sc], s: usize, p: &[String]) -> Out {
        let mut visiting = vec![(s, p.last().unwrap().clone())];
        if p.len() == 1 {
            // `import a;` — `a` has to come from further out
            if s == 0 {
                return Out::Amb;
            }
            return self.resolve_path(chain, s - 1, p, &mut visiting);
        }
        self.resolve_path(chain, s, p, &mut visiting)
    }

    /// Ok(None): every import in every scope resolves; Ok(Some): the site must be rejected.
    fn check_chain(&self, chain: &[Sc]) -> Result<Option<(Why, usize, &'static str)>, ()> {
        let mut err = None;
        for s in 0..chain.len() {
            if let Some(e) = self.check_scope(chain, s)? {
                err.get_or_insert(e);
            }
        }
        Ok(err)
    }

    /// Does scope `s` hold an import whose first segment is bound by another import of the same
    /// scope and also further out? Then the documented (order-independent) rules pick the sibling
    /// import, while an implementation that processes imports in source order against the outer
    /// scopes may bind it differently.
    fn order_exposed_scope(&self, chain: &[Sc], s: usize) -> bool {
        if s == 0 {
            return false; // outside a module there is only `pkg`
        }
        let flat = chain[s].flat();
        flat.iter().any(|(p, _)| {
            let first = &p[0];
            p.len() > 1
                && first != "pkg"
                && first != "super"
                && !chain[s].locals().iter().any(|l| l.0 == first.as_str())
                && flat.iter().any(|(q, _)| q.last().unwrap() == first)
                && !self.peek(chain, s as isize - 1, first).is_empty()
        })
    }

    /// The innermost-first place ("function" | "block") of an order-exposed import in the chain,
    /// its side blocks or sibling branches.
    fn order_exposed(&self, chain: &[Sc]) -> Option<&'static str> {
        for s in 1..chain.len() {
            if self.order_exposed_scope(chain, s) {
                return Some(sig_place(chain[s].kind));
            }
            for st in &chain[s].stmts {
                if let St::Side(t, _) = st {
                    let mut c2: Vec<Sc> = chain[..=s].to_vec();
                    let mut n = Sc::new(SK::Block, chain[s].module, 0);
                    n.stmts.push(St::Imp(t.clone()));
                    c2.push(n);
                    if self.order_exposed_scope(&c2, s + 1) {
                        return Some("block");
                    }
                }
            }
            if let Some(t) = &chain[s].other {
                let mut c2: Vec<Sc> = chain[..s].to_vec();
                let mut n = Sc::new(SK::Block, chain[s].module, 0);
                n.stmts.push(St::Imp(t.clone()));
                c2.push(n);
                if self.order_exposed_scope(&c2, s) {
                    return Some("block");
                }
            }
        }
        None
    }

    fn resolve(&self, chain: &[Sc], segs: &[String]) -> Out {
        self.resolve_path(chain, chain.len() - 1, segs, &mut Vec::new())
    }
}

// ---------------------------------------------------------------------------------------------
// generator

struct Gen<'a> {
    t: &'a Tree,
    ids: u32,
    local_val: i32,
}

fn gen_tree(rng: &mut Rng) -> Tree {
    let n = 1 + rng.weighted(&[1, 2, 3, 4, 4, 4, 4]);
    let mut mods = vec![Mod {
        name: "pkg".into(),
        parent: None,
        children: vec![],
        dir: true,
        depth: 0,
        items: vec![],
        imports: vec![],
        order: vec![],
    }];
    let deep = rng.chance(1, 3);
    while mods.len() < n {
        let cands: Vec<usize> = (0..mods.len()).filter(|m| mods[*m].depth < 3 && mods[*m].children.len() < MOD_NAMES.len()).collect();
        let p = if deep { *cands.iter().max_by_key(|m| (mods[**m].depth, rng.below(8))).unwrap() } else { *rng.pick(&cands) };
        let free: Vec<&str> =
            MOD_NAMES.iter().copied().filter(|nm| !mods[p].children.iter().any(|c| mods[*c].name == *nm)).collect();
        let name = rng.pick(&free).to_string();
        let idx = mods.len();
        let depth = mods[p].depth + 1;
        mods.push(Mod { name, parent: Some(p), children: vec![], dir: false, depth, items: vec![], imports: vec![], order: vec![] });
        mods[p].children.push(idx);
        mods[p].dir = true;
    }
    for (mi, m) in mods.iter_mut().enumerate() {
        if m.children.is_empty() && mi != 0 {
            m.dir = rng.chance(1, 4);
        }
        for (j, nm) in ITEM_NAMES.iter().enumerate() {
            if rng.chance(3, 5) {
                let kind = match j {
                    0..=2 => Kind::Func,
                    3 | 4 => Kind::Const,
                    _ => {
                        if rng.bool() {
                            Kind::Rec
                        } else {
                            Kind::Enum
                        }
                    }
                };
                m.items.push(Item { name: nm, kind, tag: 1000 * (mi as i32 + 1) + j as i32 + 1 });
            }
        }
    }
    Tree { mods }
}

impl Gen<'_> {
    fn id(&mut self) -> u32 {
        self.ids += 1;
        self.ids
    }
    fn local(&mut self) -> i32 {
        self.local_val += 1;
        self.local_val
    }

    /// A path prefix that (probably) names a module, seen from the chain: (segments, module).
    fn gen_prefix(&self, chain: &[Sc], rng: &mut Rng, naughty: bool) -> Option<(Vec<String>, usize)> {
        let t = self.t;
        let cur = chain[0].module;
        let orc = Orc { t };
        let (mut segs, mut m): (Vec<String>, usize);
        match rng.weighted(&[4, 3, 3, 3]) {
            0 => {
                // relative: a submodule of the current module
                let c = *t.mods[cur].children.get(rng.usize(t.mods[cur].children.len().max(1)))?;
                segs = vec![t.mods[c].name.clone()];
                m = c;
            }
            1 => {
                // a module made visible by an import somewhere in the chain
                let mut names: Vec<String> = Vec::new();
                for sc in chain {
                    for (p, _) in sc.flat() {
                        names.push(p.last().unwrap().clone());
                    }
                }
                names.retain(|n| MOD_NAMES.contains(&n.as_str()));
                if names.is_empty() {
                    return None;
                }
                let n = rng.pick(&names).clone();
                match orc.resolve(chain, std::slice::from_ref(&n)) {
                    Out::Ok(Res::Mod(mm), _) => {
                        segs = vec![n];
                        m = mm;
                    }
                    _ => return None,
                }
            }
            2 => {
                segs = vec!["pkg".into()];
                m = 0;
            }
            _ => {
                let d = t.mods[cur].depth;
                let k = if naughty && rng.chance(1, 6) { d + 1 } else if d == 0 { return None } else { 1 + rng.usize(d) };
                segs = vec!["super".to_string(); k];
                m = t.ancestor(cur, k.min(d)).unwrap_or(0);
            }
        }
        let mut steps = 0;
        while steps < 3 && !t.mods[m].children.is_empty() && rng.chance(1, 2) {
            let c = *rng.pick(&t.mods[m].children);
            segs.push(t.mods[c].name.clone());
            m = c;
            steps += 1;
        }
        if naughty && rng.chance(1, 8) && segs.len() >= 2 {
            let at = 1 + rng.usize(segs.len() - 1);
            segs.insert(at, if rng.bool() { "pkg".into() } else { "super".into() });
        }
        Some((segs, m))
    }

    /// A name to follow a module prefix.
    fn gen_member(&self, m: usize, rng: &mut Rng, naughty: bool, want_modules: bool) -> String {
        let t = self.t;
        let mut pool: Vec<String> = t.mods[m].items.iter().map(|i| i.name.to_string()).collect();
        if want_modules {
            pool.extend(t.mods[m].children.iter().map(|c| t.mods[*c].name.clone()));
        }
        if naughty {
            let imps = t.import_names(m);
            if !imps.is_empty() && rng.chance(1, 2) {
                return rng.pick(&imps).clone();
            }
            if rng.chance(1, 2) {
                return rng.pick(&ITEM_NAMES).to_string();
            }
        }
        if pool.is_empty() || rng.chance(1, 12) {
            return rng.pick(&ITEM_NAMES).to_string();
        }
        rng.pick(&pool).clone()
    }

    fn gen_import(&self, chain: &[Sc], rng: &mut Rng, naughty: bool) -> Option<ImpTree> {
        let t = self.t;
        let s = chain.len() - 1;
        let (segs, m) = self.gen_prefix(chain, rng, naughty)?;
        let sc = &chain[s];
        // names another import of this scope binds are taken (a second import of the name is an
        // error); names the scope declares itself may be imported as well now and then: the
        // declaration comes first, the import is dead
        let mut taken: BTreeSet<String> = BTreeSet::new();
        for (p, _) in sc.flat() {
            taken.insert(p.last().unwrap().clone());
        }
        if !rng.chance(1, 4) {
            taken.extend(sc.locals().iter().map(|l| l.0.to_string()));
            if s == 0 {
                for it in &t.mods[sc.module].items {
                    taken.insert(it.name.to_string());
                }
                for c in &t.mods[sc.module].children {
                    taken.insert(t.mods[*c].name.clone());
                }
            }
        }
        let dup_ok = naughty && rng.chance(1, 3);
        // whole module
        let last = segs.last().unwrap().as_str();
        if last != "pkg" && last != "super" && rng.chance(1, 4) && (dup_ok || !taken.contains(last)) && (segs.len() > 1 || s > 0) {
            return Some(ImpTree::Leaf(segs));
        }
        let want = 1 + rng.weighted(&[5, 3, 2]);
        let mut subs: Vec<ImpTree> = Vec::new();
        let mut tries = 0;
        while subs.len() < want && tries < 8 {
            tries += 1;
            let name = self.gen_member(m, rng, naughty, true);
            if let Some(c) = t.child(m, &name)
                && rng.chance(1, 2)
            {
                // nested: c.{x, y} or c.x
                let mut inner = Vec::new();
                for _ in 0..1 + rng.usize(2) {
                    let n2 = self.gen_member(c, rng, naughty, true);
                    if (dup_ok || !taken.contains(&n2)) && !inner.contains(&ImpTree::Leaf(vec![n2.clone()])) {
                        taken.insert(n2.clone());
                        inner.push(ImpTree::Leaf(vec![n2]));
                    }
                }
                if inner.is_empty() {
                    continue;
                }
                if inner.len() == 1 && rng.bool() {
                    let ImpTree::Leaf(p) = &inner[0] else { unreachable!() };
                    subs.push(ImpTree::Leaf(vec![name.clone(), p[0].clone()]));
                } else {
                    subs.push(ImpTree::List(vec![name.clone()], inner));
                }
                continue;
            }
            if !dup_ok && taken.contains(&name) {
                continue;
            }
            taken.insert(name.clone());
            subs.push(ImpTree::Leaf(vec![name]));
        }
        if subs.is_empty() {
            return None;
        }
        if subs.len() == 1 && rng.chance(3, 4) {
            return Some(match subs.pop().unwrap() {
                ImpTree::Leaf(p) => {
                    let mut full = segs;
                    full.extend(p);
                    ImpTree::Leaf(full)
                }
                ImpTree::List(p, inner) => {
                    let mut full = segs;
                    full.extend(p);
                    ImpTree::List(full, inner)
                }
            });
        }
        Some(ImpTree::List(segs, subs))
    }

    /// Module-level imports of the base tree: all valid by the oracle.
    fn gen_module_imports(t: &mut Tree, rng: &mut Rng) {
        for m in 0..t.mods.len() {
            if !rng.chance(3, 5) {
                continue;
            }
            for _ in 0..1 + rng.usize(3) {
                let cand = {
                    let g = Gen { t, ids: 0, local_val: 0 };
                    let chain = vec![t.module_scope(m)];
                    g.gen_import(&chain, rng, false)
                };
                let Some(imp) = cand else { continue };
                t.mods[m].imports.push(imp);
                let ok = {
                    let orc = Orc { t };
                    // imports may create chains across the whole module: re-check everything
                    (0..t.mods.len()).all(|mm| matches!(orc.check_chain(&[t.module_scope(mm)]), Ok(None)))
                };
                if !ok {
                    t.mods[m].imports.pop();
                }
            }
        }
        for m in t.mods.iter_mut() {
            let mut order: Vec<(bool, usize)> = (0..m.items.len()).map(|i| (false, i)).collect();
            order.extend((0..m.imports.len()).map(|i| (true, i)));
            if rng.chance(2, 3) {
                rng.shuffle(&mut order);
            } else {
                order.sort_by_key(|o| !o.0); // imports first
            }
            m.order = order;
        }
    }

    /// See `gen_site`. Nothing is added unless the oracle accepts the scope with the ladder.
    fn gen_ladder(&self, chain: &mut [Sc], s: usize, rng: &mut Rng) {
        let t = self.t;
        // a path of modules root -> c1 (-> c2), starting anywhere in the tree
        let starts: Vec<usize> = (0..t.mods.len()).filter(|&m| !t.mods[m].children.is_empty()).collect();
        if starts.is_empty() {
            return;
        }
        let m0 = *rng.pick(&starts);
        let c1 = *rng.pick(&t.mods[m0].children);
        let c2 = if !t.mods[c1].children.is_empty() && rng.chance(3, 4) { Some(*rng.pick(&t.mods[c1].children)) } else { None };
        let last = c2.unwrap_or(c1);
        if t.mods[last].items.is_empty() {
            return;
        }
        let item = rng.pick(&t.mods[last].items).name.to_string();
        // absolute path of c1
        let mut abs = vec![t.mods[c1].name.clone()];
        let mut cur = m0;
        while let Some(p) = t.mods[cur].parent {
            abs.push(t.mods[cur].name.clone());
            cur = p;
        }
        abs.push("pkg".to_string());
        abs.reverse();
        let mut imps = vec![ImpTree::Leaf(abs)];
        if let Some(c2) = c2 {
            imps.push(ImpTree::Leaf(vec![t.mods[c1].name.clone(), t.mods[c2].name.clone()]));
        }
        imps.push(ImpTree::Leaf(vec![t.mods[last].name.clone(), item]));
        let before = chain[s].stmts.len();
        let n = imps.len();
        for i in imps {
            chain[s].stmts.push(St::Imp(i));
        }
        let orc = Orc { t };
        if matches!(orc.check_chain(chain), Ok(None)) {
            chain[s].ladder = n as u8;
        } else {
            chain[s].stmts.truncate(before);
        }
    }

    /// A chain of scopes for a probe in module `m`.
    fn gen_site(&mut self, m: usize, rng: &mut Rng, naughty: bool) -> Vec<Sc> {
        let depth = rng.weighted(&[3, 3, 3, 2]);
        let mut chain = vec![self.t.module_scope(m)];
        let naughty_at = if naughty { 1 + rng.usize(depth + 1) } else { usize::MAX };
        for d in 0..=depth {
            let kind = if d == 0 { SK::Func } else { *rng.pick(&[SK::Block, SK::Block, SK::Then, SK::Else, SK::While]) };
            let id = self.id();
            let mut sc = Sc::new(kind, m, id);
            if d == 0 && rng.chance(1, 4) {
                sc.param = Some((rng.pick(&LOCAL_NAMES).to_string(), self.local()));
            }
            chain.push(sc);
            let s = chain.len() - 1;
            if matches!(kind, SK::Then | SK::Else) && rng.chance(1, 2) {
                chain[s].other = self.gen_import(&chain[..s], rng, false).filter(|_| true);
                // the sibling's import is generated as if it lived in the parent; it is checked in its own scope
            }
            let n_st = rng.weighted(&[2, 4, 3, 2]);
            for j in 0..n_st {
                match rng.weighted(&[3, 6, 1]) {
                    0 => {
                        let n = rng.pick(&LOCAL_NAMES).to_string();
                        let clash = chain[s].locals().iter().any(|l| l.0 == n) || chain[s].flat().iter().any(|(p, _)| *p.last().unwrap() == n);
                        if !clash {
                            let v = self.local();
                            chain[s].stmts.push(St::Let(n, v));
                        }
                    }
                    1 => {
                        let bad = d + 1 == naughty_at && j == 0;
                        if let Some(imp) = self.gen_import(&chain, rng, bad) {
                            chain[s].stmts.push(St::Imp(imp));
                            let orc = Orc { t: self.t };
                            let verdict = orc.check_chain(&chain);
                            let keep = match verdict {
                                Err(()) => false,
                                Ok(None) => true,
                                Ok(Some(_)) => bad,
                            };
                            if !keep {
                                chain[s].stmts.pop();
                            }
                        }
                    }
                    _ => {
                        // side block with its own import
                        let mut c2 = chain.clone();
                        c2.push(Sc::new(SK::Block, m, 0));
                        if let Some(imp) = self.gen_import(&c2, rng, false) {
                            let id = self.id();
                            chain[s].stmts.push(St::Side(imp, id));
                            let orc = Orc { t: self.t };
                            if !matches!(orc.check_chain(&chain), Ok(None)) {
                                chain[s].stmts.pop();
                            }
                        }
                    }
                }
            }
            if chain[s].other.is_some() {
                let orc = Orc { t: self.t };
                if !matches!(orc.check_chain(&chain), Ok(None) ) && !naughty {
                    chain[s].other = None;
                }
            }
            // An import ladder: 2-3 imports of one scope in which each needs the name the
            // previous one binds (`import pkg.a; import a.b; import b.f;`). The statements are
            // shuffled below (and a reference through the last one is tried in all orders), so
            // the ladder is met top-down, bottom-up and mixed: imports are order independent.
            if d <= 1 && rng.chance(1, 5) {
                self.gen_ladder(&mut chain, s, rng);
            }
            rng.shuffle(&mut chain[s].stmts);
        }
        chain
    }

    /// A candidate reference: path segments (classified by the oracle afterwards).
    fn gen_ref(&self, chain: &[Sc], rng: &mut Rng, naughty: bool) -> Option<Vec<String>> {
        let t = self.t;
        if rng.chance(3, 10) {
            // bare name
            let mut pool: Vec<String> = Vec::new();
            for sc in &chain[1..] {
                for l in sc.locals() {
                    pool.push(l.0.to_string());
                }
            }
            for sc in chain {
                for (p, _) in sc.flat() {
                    let n = p.last().unwrap();
                    if !MOD_NAMES.contains(&n.as_str()) {
                        pool.push(n.clone());
                        pool.push(n.clone());
                    }
                }
            }
            for it in &t.mods[chain[0].module].items {
                pool.push(it.name.to_string());
            }
            if naughty {
                for sc in chain {
                    if let Some(o) = &sc.other {
                        pool.extend(o.flatten().into_iter().map(|(p, _)| p.last().unwrap().clone()));
                    }
                    for st in &sc.stmts {
                        if let St::Side(o, _) = st {
                            pool.extend(o.flatten().into_iter().map(|(p, _)| p.last().unwrap().clone()));
                        }
                    }
                }
                pool.extend(ITEM_NAMES.iter().map(|s| s.to_string()));
                pool.retain(|n| !MOD_NAMES.contains(&n.as_str()));
            }
            if pool.is_empty() {
                return None;
            }
            return Some(vec![rng.pick(&pool).clone()]);
        }
        let (mut segs, m) = self.gen_prefix(chain, rng, naughty)?;
        segs.push(self.gen_member(m, rng, naughty, false));
        Some(segs)
    }
}

// ---------------------------------------------------------------------------------------------
// probes and rendering

#[derive(Clone, Debug)]
enum Expect {
    Value(i32),
    Error(Why),
}

#[derive(Clone, Debug)]
struct Probe {
    name: String,
    module: usize,
    /// source text of the probe function ("" for module-level import probes)
    src: String,
    /// extra module-level import (error probes only)
    extra_import: Option<String>,
    reference: String,
    expect: Expect,
    arg: Option<i32>,
    form: String,
    situation: String,
    /// the chain holds an import exposed to import-order dependence: every mismatch of this probe
    /// is reported under this signature
    order_sig: Option<String>,
    tags: Vec<String>,
}

impl Probe {
    fn sig(&self, class: &str) -> String {
        match &self.order_sig {
            Some(s) => s.clone(),
            None => format!("{class}:{}@{}", self.form, self.situation),
        }
    }
}

fn path_head(p: &[String]) -> &'static str {
    match p[0].as_str() {
        "pkg" => "abs",
        "super" => "super",
        _ => "rel",
    }
}

/// `super2`, `super3` ... are one form as far as signatures go
fn sig_form(form: &str) -> String {
    if form.starts_with("super") { "super".to_string() } else { form.to_string() }
}

fn import_situation(head: &str, why: &Why) -> String {
    match why {
        Why::BadImport(w) => format!("{head}-path/{}", w.label()),
        w => w.label(),
    }
}

fn sig_place(k: SK) -> &'static str {
    match k {
        SK::Module => "module",
        SK::Func => "function",
        _ => "block",
    }
}

fn conventional_kind(name: &str) -> Kind {
    match name {
        "f" | "g" | "h" => Kind::Func,
        "A" | "B" => Kind::Const,
        _ => Kind::Rec,
    }
}

/// The expression that uses the reference `p`.
fn use_expr(p: &str, res: Option<(&Item, bool)>, local: bool, last: &str) -> String {
    if local {
        return p.to_string();
    }
    match res {
        Some((it, alt)) => match it.kind {
            Kind::Func => format!("{p}()"),
            Kind::Const => p.to_string(),
            Kind::Rec => {
                if alt {
                    format!("{{ let q0: {p} = {p} {{ k{t}: {t} }}; q0.k{t} }}", t = it.tag)
                } else {
                    format!("{p} {{ k{t}: {t} }}.k{t}", t = it.tag)
                }
            }
            Kind::Enum => format!("match {p}.K{t}({t}) {{ K{t}(v0) => v0, Z => 0 }}", t = it.tag),
        },
        None => match conventional_kind(last) {
            Kind::Func => format!("{p}()"),
            Kind::Const => p.to_string(),
            _ => format!("{{ let q0: {p}? = None; 7 }}"),
        },
    }
}

fn render_stmts(sc: &Sc, ind: &str) -> String {
    let mut s = String::new();
    for st in &sc.stmts {
        s.push_str(ind);
        match st {
            St::Imp(t) => s.push_str(&t.render()),
            St::Let(n, v) => s.push_str(&format!("let {n}: i32 = {v};")),
            St::Side(t, id) => s.push_str(&format!("let z{id}: i32 = {{ {} 0 }};", t.render())),
        }
        s.push('\n');
    }
    s
}

fn render_other(sc: &Sc) -> String {
    match &sc.other {
        Some(t) => format!("{{ {} 0 - 1 }}", t.render()),
        None => "{ 0 - 1 }".to_string(),
    }
}

fn render_probe(name: &str, chain: &[Sc], expr: &str) -> String {
    let mut inner = expr.to_string();
    let n = chain.len();
    for s in (2..n).rev() {
        let sc = &chain[s];
        let ind = "    ".repeat(s);
        let ind0 = "    ".repeat(s - 1);
        let body = format!("{{\n{}{ind}{inner}\n{ind0}}}", render_stmts(sc, &ind));
        inner = match sc.kind {
            SK::Block => body,
            SK::Then => format!("if true {body} else {}", render_other(sc)),
            SK::Else => format!("if false {} else {body}", render_other(sc)),
            SK::While => {
                let r = format!("r{}", sc.id);
                format!(
                    "{{ let {r}: i32 = 0; while {r} == 0 {{\n{}{ind}{r} = {inner};\n{ind0}}} {r} }}",
                    render_stmts(sc, &ind)
                )
            }
            _ => unreachable!(),
        };
    }
    let f = &chain[1];
    let param = f.param.as_ref().map(|(n, _)| format!("{n}: i32")).unwrap_or_default();
    format!("fn {name}({param}) -> i32 {{\n{}    {inner}\n}}\n", render_stmts(f, "    "))
}

fn render_item(it: &Item) -> String {
    match it.kind {
        Kind::Func => format!("fn {}() -> i32 {{ {} }}\n", it.name, it.tag),
        Kind::Const => format!("const {}: i32 = {};\n", it.name, it.tag),
        Kind::Rec => format!("record {} {{ k{}: i32 }}\n", it.name, it.tag),
        Kind::Enum => format!("enum {} {{ K{}(i32), Z }}\n", it.name, it.tag),
    }
}

impl Tree {
    fn render_module(&self, m: usize, probes: &[&Probe]) -> String {
        let md = &self.mods[m];
        let mut s = String::new();
        let mine: Vec<&&Probe> = probes.iter().filter(|p| p.module == m).collect();
        // a few probes in front of the declarations, the rest behind
        let front = mine.len() / 3;
        for p in &mine[..front] {
            s.push_str(&p.src);
        }
        for (is_imp, i) in &md.order {
            if *is_imp {
                s.push_str(&md.imports[*i].render());
                s.push('\n');
            } else {
                s.push_str(&render_item(&md.items[*i]));
            }
        }
        for p in &mine[front..] {
            if let Some(e) = &p.extra_import {
                s.push_str(e);
                s.push('\n');
            }
            s.push_str(&p.src);
        }
        s
    }
    fn render(&self, probes: &[&Probe]) -> Vec<String> {
        (0..self.mods.len()).map(|m| self.render_module(m, probes)).collect()
    }
    fn spec(&self, m: usize, srcs: &[String]) -> FileSpec {
        let sf = SourceFile {
            name: self.file_path(m),
            module_name: self.mods[m].name.clone(),
            contents: srcs[m].clone(),
            location_offset: 0,
            children: Vec::new(),
        };
        if self.mods[m].dir {
            FileSpec::Directory(sf, self.mods[m].children.iter().map(|c| self.spec(*c, srcs)).collect())
        } else {
            FileSpec::File(sf)
        }
    }
}

struct Case {
    tree: Tree,
    valid: Vec<Probe>,
    errors: Vec<Probe>,
    decoys: Vec<(String, String, &'static str)>, // (relative path, content, kind)
    decoy_fns: Vec<(String, &'static str)>,      // rust paths that must be refused
    single_file: bool,
    mem_single: bool,
}

fn trace_form(segs: &[String], tr: &Trace, res: Option<Res>) -> String {
    if segs[0] == "pkg" {
        return "abs".into();
    }
    if segs[0] == "super" {
        let k = segs.iter().take_while(|s| *s == "super").count();
        return if k == 1 { "super".into() } else { format!("super{k}") };
    }
    match tr.binder {
        "local" => "bare-local".into(),
        "param" => "bare-param".into(),
        "item" => "bare-item".into(),
        "submodule" => "rel".into(),
        "import" => {
            let whole = segs.len() > 1 || matches!(res, Some(Res::Mod(_)));
            format!("import-{}{}", tr.imp_form, if whole { "-module" } else { "" })
        }
        _ => {
            if segs.len() == 1 {
                "bare".into()
            } else {
                "rel".into()
            }
        }
    }
}

fn gen_case(rng: &mut Rng, thorough: bool) -> Case {
    let mut tree = gen_tree(rng);
    Gen::gen_module_imports(&mut tree, rng);
    let tree = tree;
    let mut valid: Vec<Probe> = Vec::new();
    let mut errors: Vec<Probe> = Vec::new();
    {
        let mut g = Gen { t: &tree, ids: 0, local_val: 100_000 };
        let orc = Orc { t: &tree };
        let nm = tree.mods.len();
        let mut counter = 0;
        let want_valid = if thorough { 3 * nm + 6 } else { 2 * nm + 4 };
        let want_err = if thorough { 8 } else { 5 };
        let mut perm_done = false;
        let mut attempts = 0;
        while valid.len() < want_valid && attempts < want_valid * 6 {
            attempts += 1;
            let m = if attempts <= nm { attempts - 1 } else { rng.usize(nm) };
            let chain = g.gen_site(m, rng, false);
            if !matches!(orc.check_chain(&chain), Ok(None)) {
                continue;
            }
            for _ in 0..6 {
                let Some(segs) = g.gen_ref(&chain, rng, false) else { continue };
                let Out::Ok(res, tr) = orc.resolve(&chain, &segs) else { continue };
                let (value, item, local) = match res {
                    Res::Local(v) => (v, None, true),
                    Res::Item(mm, i) => (tree.mods[mm].items[i].tag, Some(&tree.mods[mm].items[i]), false),
                    Res::Mod(_) => continue,
                };
                let p = segs.join(".");
                let expr = use_expr(&p, item.map(|i| (i, rng.bool())), local, segs.last().unwrap());
                let form = trace_form(&segs, &tr, Some(res));
                let place = chain[tr.bscope].kind.label();
                // signature: few, stable classes (the tags carry the details)
                let splace = sig_place(chain[tr.bscope].kind);
                let (sform, situation) = if matches!(tr.binder, "pkg" | "super") {
                    let md = &tree.mods[m];
                    (sig_form(&form), format!("from-{}-module-depth{}", if md.dir { "dir" } else { "file" }, md.depth))
                } else if tr.chain && tr.alt_outside {
                    // the import's first segment is bound by a sibling import of the same scope and also further out
                    ("import-chain".to_string(), format!("{splace}-prefix-also-bound-outside"))
                } else if tr.chain {
                    ("import-chain".to_string(), splace.to_string())
                } else {
                    (sig_form(&form), splace.to_string())
                };
                let mut tags = vec![
                    format!("ref:{form}"),
                    format!("depth:{}", chain.len() - 2),
                    "expect:ok".to_string(),
                    format!("module-depth:{}", tree.mods[m].depth),
                    format!(
                        "kind:{}",
                        match item.map(|i| i.kind) {
                            None => "local",
                            Some(Kind::Func) => "func",
                            Some(Kind::Const) => "const",
                            Some(Kind::Rec) => "record",
                            Some(Kind::Enum) => "enum",
                        }
                    ),
                ];
                if !tr.over.is_empty() {
                    tags.push(format!("shadow:{}-over-{}", tr.binder, tr.over));
                }
                if tr.binder == "import" {
                    tags.push(format!("import-place:{place}"));
                    tags.push(format!("import-path:{}", tr.imp_path));
                    tags.push(format!("imports-in-scope:{}", chain[tr.bscope].n_import_stmts()));
                }
                for sc in &chain[2..] {
                    tags.push(format!("block:{}", sc.kind.label()));
                }
                if tr.binder == "import" && chain[tr.bscope].ladder > 0 {
                    tags.push(format!("import-ladder:{}", chain[tr.bscope].ladder));
                }
                // all orders of the import statements of the deciding scope (<= 3 imports), once per tree
                let bs = tr.bscope;
                let nimp = chain[bs].n_import_stmts();
                let mut variants: Vec<Vec<Sc>> = vec![chain.clone()];
                if tr.binder == "import" && bs >= 1 && (2..=3).contains(&nimp) && !perm_done {
                    perm_done = true;
                    tags.push("order:all-permutations".to_string());
                    let imps: Vec<St> = chain[bs].stmts.iter().filter(|s| matches!(s, St::Imp(_))).cloned().collect();
                    let rest: Vec<St> = chain[bs].stmts.iter().filter(|s| !matches!(s, St::Imp(_))).cloned().collect();
                    let perms: &[&[usize]] = if nimp == 2 {
                        &[&[0, 1], &[1, 0]]
                    } else {
                        &[&[0, 1, 2], &[0, 2, 1], &[1, 0, 2], &[1, 2, 0], &[2, 0, 1], &[2, 1, 0]]
                    };
                    variants.clear();
                    for pm in perms {
                        let mut c = chain.clone();
                        let mut st: Vec<St> = pm.iter().map(|i| imps[*i].clone()).collect();
                        st.extend(rest.iter().cloned());
                        c[bs].stmts = st;
                        variants.push(c);
                    }
                }
                for c in variants {
                    counter += 1;
                    let name = format!("probe_{counter}");
                    valid.push(Probe {
                        src: render_probe(&name, &c, &expr),
                        name,
                        module: m,
                        extra_import: None,
                        reference: p.clone(),
                        expect: Expect::Value(value),
                        arg: c[1].param.as_ref().map(|x| x.1),
                        form: sform.clone(),
                        situation: situation.clone(),
                        order_sig: orc.order_exposed(&c).map(|pl| format!("resolve:import-chain@{pl}-prefix-also-bound-outside")),
                        tags: tags.clone(),
                    });
                }
                break;
            }
        }
        // must-be-error probes
        attempts = 0;
        while errors.len() < want_err && attempts < want_err * 12 {
            attempts += 1;
            let m = rng.usize(nm);
            counter += 1;
            let name = format!("probe_{counter}");
            let mode = rng.weighted(&[5, 3, 2, 1]);
            if mode == 2 {
                // a bad module-level import
                let chain0 = vec![tree.module_scope(m)];
                let Some(imp) = g.gen_import(&chain0, rng, true) else { continue };
                let mut sc = tree.module_scope(m);
                sc.stmts.push(St::Imp(imp.clone()));
                let Ok(Some((why, _, head))) = orc.check_chain(&[sc]) else { continue };
                errors.push(Probe {
                    name,
                    module: m,
                    src: String::new(),
                    extra_import: Some(imp.render()),
                    reference: imp.render(),
                    expect: Expect::Error(why.clone()),
                    arg: None,
                    form: "import-stmt".into(),
                    situation: import_situation(head, &why),
                    order_sig: None,
                    tags: vec![
                        "ref:import-stmt".into(),
                        "expect:error".into(),
                        "import-place:module".into(),
                        format!("why:{}", why.label()),
                    ],
                });
                continue;
            }
            let mut chain = g.gen_site(m, rng, mode == 1);
            if mode == 3 {
                // a second import of a name that some scope already imports, for a different item
                if !matches!(orc.check_chain(&chain), Ok(None)) {
                    continue;
                }
                let mut cands: Vec<(usize, Vec<String>)> = Vec::new();
                for s in 1..chain.len() {
                    for (p, _) in chain[s].flat() {
                        let Out::Ok(res, _) = orc.resolve_path_for_import(&chain, s, &p) else { continue };
                        let name = p.last().unwrap();
                        for mo in 0..nm {
                            if let Some(r2) = tree.member(mo, name)
                                && r2 != res
                            {
                                let mut path = vec!["pkg".to_string()];
                                path.extend(tree.mod_path(mo));
                                path.push(name.clone());
                                cands.push((s, path));
                            }
                        }
                    }
                }
                if cands.is_empty() {
                    continue;
                }
                let (s, path) = rng.pick(&cands).clone();
                let at = rng.usize(chain[s].stmts.len() + 1);
                chain[s].stmts.insert(at, St::Imp(ImpTree::Leaf(path)));
            }
            match orc.check_chain(&chain) {
                Err(()) => continue,
                Ok(Some((why, s, head))) => {
                    let place = chain[s.min(chain.len() - 1)].kind.label();
                    let bad: Vec<String> = chain.iter().flat_map(|sc| sc.stmts.iter()).filter_map(|st| if let St::Imp(t) = st { Some(t.render()) } else { None }).collect();
                    errors.push(Probe {
                        src: render_probe(&name, &chain, "7"),
                        name,
                        module: m,
                        extra_import: None,
                        reference: bad.join(" "),
                        expect: Expect::Error(why.clone()),
                        arg: None,
                        form: "import-stmt".into(),
                        situation: import_situation(head, &why),
                        order_sig: orc.order_exposed(&chain).map(|pl| format!("resolve:import-chain@{pl}-prefix-also-bound-outside")),
                        tags: vec![
                            "ref:import-stmt".into(),
                            "expect:error".into(),
                            format!("import-place:{place}"),
                            format!("depth:{}", chain.len() - 2),
                            format!("why:{}", why.label()),
                        ],
                    });
                }
                Ok(None) => {
                    for _ in 0..8 {
                        let Some(segs) = g.gen_ref(&chain, rng, true) else { continue };
                        let Out::Err(why) = orc.resolve(&chain, &segs) else { continue };
                        if why == Why::NotAModule {
                            continue;
                        }
                        let p = segs.join(".");
                        let expr = use_expr(&p, None, false, segs.last().unwrap());
                        // form by shape: the first segment may still be bound
                        let form = match orc.resolve(&chain, &segs[..1]) {
                            Out::Ok(r, tr) if segs.len() > 1 => trace_form(&segs, &tr, Some(r)),
                            _ => trace_form(&segs, &Trace::default(), None),
                        };
                        errors.push(Probe {
                            src: render_probe(&name, &chain, &expr),
                            name: name.clone(),
                            module: m,
                            extra_import: None,
                            reference: p,
                            expect: Expect::Error(why.clone()),
                            arg: None,
                            form: sig_form(&form),
                            situation: why.label(),
                            order_sig: orc.order_exposed(&chain).map(|pl| format!("resolve:import-chain@{pl}-prefix-also-bound-outside")),
                            tags: vec![
                                format!("ref:{form}"),
                                "expect:error".into(),
                                format!("depth:{}", chain.len() - 2),
                                format!("why:{}", why.label()),
                            ],
                        });
                        break;
                    }
                }
            }
        }
    }
    // disk decoys: only what the documentation makes irrelevant for the module tree
    let mut decoys: Vec<(String, String, &'static str)> = Vec::new();
    let mut decoy_fns: Vec<(String, &'static str)> = Vec::new();
    let dirs: Vec<String> = (0..tree.mods.len())
        .filter(|m| tree.mods[*m].dir)
        .map(|m| {
            let p = tree.mod_path(m).join("/");
            if p.is_empty() { p } else { format!("{p}/") }
        })
        .collect();
    let dir_mods: Vec<usize> = (0..tree.mods.len()).filter(|m| tree.mods[*m].dir).collect();
    let valid_mod = "fn f() -> i32 { 1 }\nfn decoy() -> i32 { 2 }\n";
    for (d, dm) in dirs.iter().zip(dir_mods.iter()) {
        let prefix = tree.mod_path(*dm);
        let rp = |rest: &str| {
            let mut v = prefix.clone();
            v.push(rest.to_string());
            v.join(".")
        };
        if rng.chance(1, 3) {
            let nm = *rng.pick(&["notes.txt", "README", "x.roto.bak", "y.rotox", "w.roto~", "roto"]);
            decoys.push((format!("{d}{nm}"), "this is } not { roto ((".into(), "non-roto-file"));
        }
        if rng.chance(1, 3) {
            // a directory without mod.roto is no module, whatever it contains
            decoys.push((format!("{d}zz/inner.roto"), valid_mod.into(), "dir-without-mod"));
            decoy_fns.push((rp("zz.inner.f"), "dir-without-mod"));
            decoy_fns.push((rp("inner.f"), "dir-without-mod"));
            if rng.bool() {
                decoys.push((format!("{d}zz/yy/mod.roto"), valid_mod.into(), "mod-under-non-module"));
                decoy_fns.push((rp("zz.yy.f"), "mod-under-non-module"));
                decoy_fns.push((rp("yy.f"), "mod-under-non-module"));
            }
            if rng.bool() {
                decoys.push((format!("{d}zz/pkg.roto"), valid_mod.into(), "pkg-under-non-module"));
                decoy_fns.push((rp("zz.f"), "pkg-under-non-module"));
                decoy_fns.push((rp("zz.pkg.f"), "pkg-under-non-module"));
            }
        }
        if rng.chance(1, 6) {
            decoys.push((format!("{d}w.roto/readme.txt"), "dir named like a file".into(), "dir-named-dot-roto"));
        }
        if rng.chance(1, 6) {
            decoys.push((format!("{d}empty/"), String::new(), "empty-dir"));
        }
    }
    let single = tree.mods.len() == 1;
    Case { tree, valid, errors, decoys, decoy_fns, single_file: single && rng.bool(), mem_single: single && rng.bool() }
}

// ---------------------------------------------------------------------------------------------
// execution

pub struct Modules {
    rt: Runtime<NoCtx>,
}

impl Modules {
    pub fn new() -> Modules {
        Modules { rt: Runtime::new() }
    }
}

fn report_text(e: roto::RotoReport) -> String {
    let mut s = String::new();
    let _ = e.write(&mut s, false);
    if s.is_empty() {
        s = "<empty report>".into();
    }
    s
}

enum Comp {
    Ok(Package<NoCtx>),
    Rejected(String),
    Panic(String),
}

struct Disk {
    root: PathBuf,
}

impl Disk {
    fn new(seed: u64, k: u64) -> Disk {
        let root = std::env::temp_dir().join(format!("rvmon-c13-{}-{seed}-{k}", std::process::id()));
        let _ = std::fs::remove_dir_all(&root);
        let _ = std::fs::create_dir_all(&root);
        Disk { root }
    }
    fn write(&self, rel: &str, content: &str) -> std::io::Result<()> {
        let p = self.root.join(rel);
        if rel.ends_with('/') {
            return std::fs::create_dir_all(&p);
        }
        if let Some(d) = p.parent() {
            std::fs::create_dir_all(d)?;
        }
        std::fs::write(&p, content)
    }
}

impl Drop for Disk {
    fn drop(&mut self) {
        let _ = std::fs::remove_dir_all(&self.root);
    }
}

#[derive(Clone, Copy, PartialEq)]
enum Route {
    Memory,
    Disk,
}

impl Route {
    fn label(self) -> &'static str {
        match self {
            Route::Memory => "memory",
            Route::Disk => "disk",
        }
    }
}

struct Runner<'a> {
    rt: &'a Runtime<NoCtx>,
    case: &'a Case,
    disk: Option<Disk>,
    out: CaseOut,
    tree_checked: bool,
}

impl Runner<'_> {
    fn file_tree(&mut self, route: Route, srcs: &[String]) -> Result<FileTree, Comp> {
        let t = &self.case.tree;
        match route {
            Route::Memory => {
                let spec = if self.case.mem_single {
                    let FileSpec::Directory(sf, _) = t.spec(0, srcs) else { unreachable!() };
                    FileSpec::File(sf)
                } else {
                    t.spec(0, srcs)
                };
                Ok(FileTree::file_spec(spec))
            }
            Route::Disk => {
                let disk = self.disk.as_ref().unwrap();
                for m in 0..t.mods.len() {
                    if let Err(e) = disk.write(&t.file_path(m), &srcs[m]) {
                        self.out.skipped = Some(format!("disk: {e}"));
                        return Err(Comp::Rejected(format!("harness io: {e}")));
                    }
                }
                let path: PathBuf = if self.case.single_file { disk.root.join("pkg.roto") } else { disk.root.clone() };
                match catch(|| FileTree::read(&path)) {
                    Err(p) => Err(Comp::Panic(p)),
                    Ok(Err(rep)) => Err(Comp::Rejected(format!("FileTree::read: {}", report_text(rep)))),
                    Ok(Ok(ft)) => {
                        if !self.tree_checked {
                            self.tree_checked = true;
                            self.check_discovered(&ft, &path);
                        }
                        Ok(ft)
                    }
                }
            }
        }
    }

    /// The discovered module tree must be the documented one.
    fn check_discovered(&mut self, ft: &FileTree, root: &Path) {
        let t = &self.case.tree;
        let n = ft.files.len();
        let mut parent: Vec<Option<usize>> = vec![None; n];
        for (i, f) in ft.files.iter().enumerate() {
            for c in &f.children {
                if *c < n {
                    parent[*c] = Some(i);
                }
            }
        }
        let mut got: BTreeMap<String, String> = BTreeMap::new();
        for i in 0..n {
            let mut names = vec![ft.files[i].module_name.clone()];
            let mut c = i;
            let mut guard = 0;
            while let Some(p) = parent[c] {
                names.push(ft.files[p].module_name.clone());
                c = p;
                guard += 1;
                if guard > 16 {
                    break;
                }
            }
            names.reverse();
            got.insert(names.join("."), ft.files[i].name.clone());
        }
        let want: BTreeMap<String, String> = (0..t.mods.len()).map(|m| (t.full_name(m), t.file_path(m))).collect();
        self.out.events += want.len() as u64;
        for (name, file) in &got {
            match want.get(name) {
                None => {
                    let rel = file.strip_prefix(&*root.to_string_lossy()).unwrap_or(file).trim_start_matches('/').to_string();
                    let kind = self.case.decoys.iter().find(|d| d.0 == rel).map(|d| d.2).unwrap_or("unknown");
                    self.out.viol(
                        format!("tree:extra-module@{kind}"),
                        format!("FileTree::read discovered module `{name}` from `{rel}`, which the documented rules do not make a module"),
                        J::obj().set("file", rel),
                    );
                }
                Some(w) => {
                    if !file.ends_with(w.as_str()) {
                        self.out.viol(
                            "tree:wrong-file@module",
                            format!("module `{name}` was read from `{file}`, expected `{w}`"),
                            J::Null,
                        );
                    }
                }
            }
        }
        for (name, file) in &want {
            if !got.contains_key(name) {
                let shape = if file.ends_with("mod.roto") { "dir" } else { "file" };
                self.out.viol(
                    format!("tree:missing-module@{shape}-depth{}", name.matches('.').count()),
                    format!("FileTree::read did not discover module `{name}` (`{file}`)"),
                    J::Null,
                );
            }
        }
    }

    fn compile(&mut self, route: Route, srcs: &[String]) -> Comp {
        let ft = match self.file_tree(route, srcs) {
            Ok(ft) => ft,
            Err(c) => return c,
        };
        self.out.evals += 1;
        let rt = self.rt;
        match catch(move || ft.compile(rt)) {
            Err(p) => Comp::Panic(p),
            Ok(Err(rep)) => Comp::Rejected(report_text(rep)),
            Ok(Ok(p)) => Comp::Ok(p),
        }
    }

    fn panic_viol(&mut self, p: &str, what: &str, route: Route, detail: J) {
        self.out.viol(panic_sig(p), format!("panic while {what} ({}): {p}", route.label()), detail);
    }

    fn probe_detail(&self, p: &Probe, route: Route) -> J {
        J::obj()
            .set("route", route.label())
            .set("module", self.case.tree.full_name(p.module))
            .set("reference", p.reference.as_str())
            .set("probe", format!("{}{}", p.extra_import.clone().map(|e| e + "\n").unwrap_or_default(), p.src))
    }

    /// Call one valid probe of a compiled package.
    fn call_probe(&mut self, pkg: &mut Package<NoCtx>, p: &Probe, route: Route) {
        let t = &self.case.tree;
        let Expect::Value(want) = p.expect else { return };
        let path = t.rust_path(p.module, &p.name);
        self.out.events += 1;
        let got: Result<Result<i32, String>, String> = catch(|| match p.arg {
            None => pkg.get_function::<fn() -> i32>(&path).map(|f| f.call()).map_err(|e| first_line(&format!("{e}"))),
            Some(a) => pkg.get_function::<fn(i32) -> i32>(&path).map(|f| f.call(a)).map_err(|e| first_line(&format!("{e}"))),
        });
        self.out.evals += 1;
        match got {
            Err(pn) => self.panic_viol(&pn, "fetching/calling a probe", route, self.probe_detail(p, route)),
            Ok(Err(e)) => self.out.viol(
                format!("get_function:refused@probe-depth{}", t.mods[p.module].depth),
                format!("probe `{path}` exists but get_function refused it: {e}"),
                self.probe_detail(p, route),
            ),
            Ok(Ok(v)) if v != want => {
                let who = t.tag_owner(v).unwrap_or_else(|| format!("value {v}"));
                let exp = t.tag_owner(want).unwrap_or_else(|| format!("local {want}"));
                self.out.viol(
                    p.sig("resolve"),
                    format!(
                        "`{}` in {} must resolve to {exp} ({want}) by the documented lookup rules, observed {who} ({v})",
                        p.reference,
                        t.full_name(p.module)
                    ),
                    self.probe_detail(p, route).set("expected", want).set("observed", v),
                );
            }
            Ok(Ok(_)) => {}
        }
    }

    fn run_valid(&mut self, route: Route) -> bool {
        let case = self.case;
        let t = &case.tree;
        let all: Vec<&Probe> = case.valid.iter().collect();
        let srcs = t.render(&all);
        match self.compile(route, &srcs) {
            Comp::Ok(mut pkg) => {
                for p in &case.valid {
                    self.call_probe(&mut pkg, p, route);
                }
                self.check_functions(&mut pkg, route);
                true
            }
            Comp::Panic(pn) => {
                self.panic_viol(&pn, "compiling the tree with all valid probes", route, J::Null);
                false
            }
            Comp::Rejected(rep) => {
                if self.out.skipped.is_some() {
                    return false;
                }
                // isolate: base tree alone, then one probe at a time
                let base = t.render(&[]);
                match self.compile(route, &base) {
                    Comp::Ok(mut pkg) => {
                        self.check_functions(&mut pkg, route);
                    }
                    Comp::Panic(pn) => {
                        self.panic_viol(&pn, "compiling the base tree", route, J::Null);
                        return false;
                    }
                    Comp::Rejected(r) => {
                        self.out.viol(
                            "resolve:import-stmt@module-level",
                            format!("the tree (items and module-level imports, all valid by the documented rules) is rejected: {}", first_lines(&r, 6)),
                            J::obj().set("route", route.label()),
                        );
                        return false;
                    }
                }
                let mut blamed = false;
                for p in &case.valid {
                    let srcs = t.render(&[p]);
                    match self.compile(route, &srcs) {
                        Comp::Ok(mut pkg) => self.call_probe(&mut pkg, p, route),
                        Comp::Panic(pn) => {
                            blamed = true;
                            self.panic_viol(&pn, "compiling a valid probe", route, self.probe_detail(p, route));
                        }
                        Comp::Rejected(r) => {
                            blamed = true;
                            let exp = match p.expect {
                                Expect::Value(v) => t.tag_owner(v).unwrap_or_else(|| format!("local {v}")),
                                _ => String::new(),
                            };
                            self.out.viol(
                                p.sig("resolve"),
                                format!(
                                    "`{}` in {} must resolve to {exp} by the documented lookup rules, but the compiler rejects it: {}",
                                    p.reference,
                                    t.full_name(p.module),
                                    first_lines(&r, 6)
                                ),
                                self.probe_detail(p, route),
                            );
                        }
                    }
                }
                if !blamed {
                    self.out.viol(
                        "resolve:interference@joint-compile",
                        format!("every probe compiles alone but not together: {}", first_lines(&rep, 6)),
                        J::obj().set("route", route.label()),
                    );
                }
                true
            }
        }
    }

    /// Every function is retrievable by its module path, nothing else is.
    fn check_functions(&mut self, pkg: &mut Package<NoCtx>, route: Route) {
        let t = &self.case.tree;
        let mut fetch = |out: &mut CaseOut, path: &str| -> Option<Result<i32, String>> {
            out.events += 1;
            out.evals += 1;
            match catch(|| pkg.get_function::<fn() -> i32>(path).map(|f| f.call()).map_err(|e| first_line(&format!("{e}")))) {
                Ok(r) => Some(r),
                Err(pn) => {
                    out.viol(panic_sig(&pn), format!("panic in get_function(\"{path}\") ({}): {pn}", route.label()), J::Null);
                    None
                }
            }
        };
        let mut refused: Vec<(String, String)> = Vec::new(); // (path, shape)
        for (mi, m) in t.mods.iter().enumerate() {
            for it in &m.items {
                let path = t.rust_path(mi, it.name);
                match it.kind {
                    Kind::Func => match fetch(&mut self.out, &path) {
                        Some(Ok(v)) if v == it.tag => {}
                        Some(Ok(v)) => self.out.viol(
                            format!("get_function:wrong-item@depth{}", m.depth),
                            format!("get_function(\"{path}\") returned a function yielding {v} ({}), expected {}", t.tag_owner(v).unwrap_or_default(), it.tag),
                            J::obj().set("route", route.label()),
                        ),
                        Some(Err(e)) => self.out.viol(
                            format!("get_function:refused@{}-depth{}", if m.dir { "dir" } else { "file" }, m.depth),
                            format!("function {}.{} is not retrievable as \"{path}\": {e}", t.full_name(mi), it.name),
                            J::obj().set("route", route.label()),
                        ),
                        None => {}
                    },
                    Kind::Const => refused.push((path, "constant-path".into())),
                    _ => refused.push((path, "type-path".into())),
                }
            }
            for nm in ["f", "g", "h"] {
                if !m.items.iter().any(|i| i.name == nm) {
                    let shape = if t.import_names(mi).iter().any(|n| n == nm) { "name-imported-by-module" } else { "absent-function" };
                    refused.push((t.rust_path(mi, nm), shape.into()));
                }
            }
            if mi != 0 {
                refused.push((t.mod_path(mi).join("."), "module-path".into()));
            }
            for nm in MOD_NAMES {
                if t.child(mi, nm).is_none() {
                    refused.push((t.rust_path(mi, &format!("{nm}.f")), "absent-module".into()));
                    break;
                }
            }
        }
        refused.push((String::new(), "empty".into()));
        refused.push(("probe_1.f".into(), "inside-function".into()));
        if route == Route::Disk {
            for (p, k) in &self.case.decoy_fns {
                refused.push((p.clone(), format!("decoy-{k}")));
            }
        }
        for (path, shape) in refused {
            // a decoy path may coincide with a real function of the tree
            let real = t.mods.iter().enumerate().any(|(mi, m)| m.items.iter().any(|i| i.kind == Kind::Func && t.rust_path(mi, i.name) == path));
            if real || self.case.valid.iter().any(|p| t.rust_path(p.module, &p.name) == path) {
                continue;
            }
            if let Some(Ok(v)) = fetch(&mut self.out, &path) {
                self.out.viol(
                    format!("get_function:accepted@{shape}"),
                    format!("get_function(\"{path}\") succeeded (call yields {v}) although no function has this module path"),
                    J::obj().set("route", route.label()),
                );
            }
        }
    }

    fn run_error(&mut self, p: &Probe, route: Route) {
        let t = &self.case.tree;
        let srcs = t.render(&[p]);
        self.out.events += 1;
        match self.compile(route, &srcs) {
            Comp::Rejected(_) => {}
            Comp::Panic(pn) => self.panic_viol(&pn, "compiling a reference that must be rejected", route, self.probe_detail(p, route)),
            Comp::Ok(mut pkg) => {
                let Expect::Error(why) = &p.expect else { return };
                // what did it resolve to?
                let path = t.rust_path(p.module, &p.name);
                let seen = if p.src.is_empty() {
                    None
                } else {
                    catch(|| pkg.get_function::<fn() -> i32>(&path).ok().map(|f| f.call())).ok().flatten()
                };
                let seen_txt = match seen {
                    Some(v) => format!("; the probe evaluates to {v} ({})", t.tag_owner(v).unwrap_or_else(|| "no item tag".into())),
                    None => String::new(),
                };
                self.out.viol(
                    p.sig("accept-unreachable"),
                    format!(
                        "`{}` in {} is not reachable by the documented lookup rules ({}) but compiles{seen_txt}",
                        p.reference,
                        t.full_name(p.module),
                        why.label()
                    ),
                    self.probe_detail(p, route),
                );
            }
        }
    }
}

fn first_line(s: &str) -> String {
    s.lines().next().unwrap_or("").to_string()
}

fn first_lines(s: &str, n: usize) -> String {
    s.lines().filter(|l| !l.trim().is_empty()).take(n).collect::<Vec<_>>().join(" | ")
}

fn sample_of(case: &Case) -> J {
    let t = &case.tree;
    let all: Vec<&Probe> = case.valid.iter().collect();
    let srcs = t.render(&all);
    let files: Vec<(String, J)> = (0..t.mods.len()).map(|m| (t.file_path(m), J::Str(srcs[m].clone()))).collect();
    let mut refs = Vec::new();
    for p in case.valid.iter().take(4) {
        let Expect::Value(v) = p.expect else { continue };
        refs.push(J::obj().set("in", format!("{}::{}", t.full_name(p.module), p.name)).set("reference", p.reference.as_str()).set("expected", v));
    }
    for p in case.errors.iter().take(4) {
        let Expect::Error(w) = &p.expect else { continue };
        refs.push(
            J::obj()
                .set("in", t.full_name(p.module))
                .set("reference", p.reference.as_str())
                .set("expected", format!("error: {}", w.label()))
                .set("probe", format!("{}{}", p.extra_import.clone().map(|e| e + "\n").unwrap_or_default(), p.src)),
        );
    }
    J::obj()
        .set("files", J::Obj(files))
        .set("decoys", J::Arr(case.decoys.iter().map(|d| J::Str(format!("{} [{}]", d.0, d.2))).collect()))
        .set("references", J::Arr(refs))
}

impl Family for Modules {
    fn n_cases(&self, args: &Args) -> u64 {
        if args.thorough() { 40_000 } else { 5_000 }
    }

    fn describe(&mut self, _k: u64, rng: &mut Rng, args: &Args) -> Option<J> {
        let case = gen_case(rng, args.thorough());
        Some(sample_of(&case))
    }

    fn run(&mut self, k: u64, rng: &mut Rng, args: &Args) -> CaseOut {
        let case = gen_case(rng, args.thorough());
        let sample = sample_of(&case);
        let mut r = Runner { rt: &self.rt, case: &case, disk: None, out: CaseOut::default(), tree_checked: false };
        r.out.hash = hash_str(&sample.to_string());
        r.out.sample = Some(sample);
        r.out.tags.push(format!("modules:{}", case.tree.mods.len()));
        r.out.tags.push(format!("tree-depth:{}", case.tree.mods.iter().map(|m| m.depth).max().unwrap_or(0)));
        for m in &case.tree.mods {
            for t in &m.imports {
                for (_, form) in t.flatten() {
                    r.out.tags.push(format!("module-import:{form}"));
                }
            }
        }
        for p in case.valid.iter().chain(case.errors.iter()) {
            r.out.tags.extend(p.tags.iter().cloned());
        }
        // route: memory
        r.out.tags.push(format!("route:memory{}", if case.mem_single { "-single-file" } else { "" }));
        let ok_mem = r.run_valid(Route::Memory);
        // route: disk
        let disk = Disk::new(args.seed, k);
        let mut io_ok = true;
        for (path, content, kind) in &case.decoys {
            if disk.write(path, content).is_err() {
                io_ok = false;
            }
            r.out.tags.push(format!("decoy:{kind}"));
        }
        for u in ["stray-pkg.roto-in-module-dir", "stray-mod.roto-next-to-pkg.roto", "name.roto-and-name/mod.roto", "get_function-pkg-prefixed-path"] {
            r.out.tags.push(format!("unspecified:{u}"));
        }
        let mut ok_disk = false;
        if io_ok {
            r.disk = Some(disk);
            r.out.tags.push(format!("route:disk{}", if case.single_file { "-single-file" } else { "" }));
            ok_disk = r.run_valid(Route::Disk);
        } else {
            r.out.skipped = Some("disk: cannot write the temporary tree".into());
        }
        // must-be-error references: one per compilation, alternating routes
        for (i, p) in case.errors.iter().enumerate() {
            let route = if i % 2 == 0 { Route::Memory } else { Route::Disk };
            let usable = match route {
                Route::Memory => ok_mem,
                Route::Disk => ok_disk,
            };
            if !usable {
                continue;
            }
            r.run_error(p, route);
        }
        let mut out = r.out;
        out.nontrivial = out.events >= 1 && !case.valid.is_empty();
        out.count("valid_refs", case.valid.len() as u64);
        out.count("error_refs", case.errors.len() as u64);
        out.tags.sort();
        out.tags.dedup();
        out
    }
}
