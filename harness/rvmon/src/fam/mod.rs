pub mod diff;
