pub mod corpus;
pub mod diff;
