pub mod corpus;
pub mod diff;
pub mod survive;
