//! Three more input classes of the totality family (C06). The oracle is the one of
//! the family (terminates, no panic / abort / stack overflow, report renders in both
//! modes, citations inside the file on character boundaries); this file only makes
//! inputs.
//!
//! * `truncated`: valid and invalid sources with non-ASCII text in comments, string
//!   and f-string literals and (XID) identifiers, cut right after or right before a
//!   multi-byte character, with and without trailing newline, single file or one
//!   file of a module tree.
//! * `infer`: small programs around variables whose type is still an inference
//!   variable, combined by statements in both operand orders.
//! * `chains`: long operator / call / branch / import / arm chains. A chain that
//!   nests in the syntax tree (left- or right-associated binary operators, method
//!   and call chains, `else if`, unary operators, brackets) has at most `max_nest`
//!   operands (the nesting bound of the family, 48); flat lists and balanced trees
//!   go up to 256 elements.

use std::collections::BTreeSet;

use crate::fam::illtyped::gen_base;
use crate::rg::print;
use crate::rng::Rng;

pub struct Made {
    pub detail: String,
    /// input class for death / hang attribution (`sig_hint` of `describe`)
    pub hint: String,
    pub tags: Vec<String>,
    pub files: Vec<(String, String)>,
}

// ---------------------------------------------------------------------------------
// Unicode material
// ---------------------------------------------------------------------------------

/// XID_Start characters of 2, 3 and 4 bytes.
const XID_START: [&str; 16] = ["é", "ß", "ж", "Ω", "ñ", "µ", "א", "ع", "東", "あ", "한", "ᚠ", "ａ", "𝒳", "𐐀", "𠀀"];
/// XID_Continue characters that are not XID_Start (marks, digits, connectors), 2-4 bytes.
const XID_CONT: [&str; 7] = ["\u{301}", "٣", "·", "０", "‿", "𝟘", "\u{e0100}"];
/// Text for comments and literals (1-4 byte characters, marks, joiners, format characters).
/// U+0085 / U+2028 / U+2029 are left out: the JSON writer does not escape them and the
/// driver reads `describe` output with `str.splitlines`, which would cut the line there.
const TEXT: [&str; 20] = [
    "é", "ß東", "𝄞", "a\u{301}", "🙂", "\u{a0}", "\u{200b}", "\u{feff}", "ж", "Ω", "\u{202e}", "한글", "👩\u{200d}💻", "\u{2060}",
    "\u{fffd}", "日本語", "voilà", "x", " ", "ǅ",
];

fn xid_ident(rng: &mut Rng) -> String {
    let mut s = String::new();
    match rng.below(8) {
        0 => s.push('_'),
        1 => s.push((b'a' + rng.below(26) as u8) as char),
        _ => s.push_str(XID_START[rng.usize(XID_START.len())]),
    }
    for _ in 0..rng.usize(4) {
        match rng.below(4) {
            0 => s.push((b'a' + rng.below(26) as u8) as char),
            1 => s.push_str(XID_CONT[rng.usize(XID_CONT.len())]),
            2 => s.push((b'0' + rng.below(10) as u8) as char),
            _ => s.push_str(XID_START[rng.usize(XID_START.len())]),
        }
    }
    let last_ascii = s.chars().last().is_some_and(|c| c.is_ascii());
    if s.is_ascii() || (last_ascii && rng.chance(3, 4)) {
        if rng.chance(1, 4) {
            s.push_str(XID_CONT[rng.usize(XID_CONT.len())]);
        } else {
            s.push_str(XID_START[rng.usize(XID_START.len())]);
        }
    }
    s
}

fn ident_pool(rng: &mut Rng, n: usize) -> Vec<String> {
    let mut v: Vec<String> = Vec::new();
    while v.len() < n {
        let s = xid_ident(rng);
        if !v.contains(&s) {
            v.push(s);
        }
    }
    v
}

fn text(rng: &mut Rng) -> String {
    let mut s = String::new();
    for _ in 0..1 + rng.usize(3) {
        s.push_str(TEXT[rng.usize(TEXT.len())]);
    }
    s
}

/// A valid program whose names, literals and comments are full of multi-byte text.
fn template_program(rng: &mut Rng) -> String {
    let mut s = String::new();
    let items = 1 + rng.usize(4);
    for _ in 0..items {
        // names are distinct inside one item; items use distinct function names
        let id = ident_pool(rng, 6);
        let (f, a, b, c, d, e) = (&id[0], &id[1], &id[2], &id[3], &id[4], &id[5]);
        let t = text(rng);
        let u = text(rng);
        let item = match rng.below(11) {
            0 => format!("// {t}\n// {u}\n"),
            1 => format!("fn {f}({a}: i32, {b}: i32) -> i32 {{\n    let {c} = {a} + {b}; // {t}\n    {c} * 2\n}}\n"),
            2 => format!("fn {f}() -> String {{\n    let {a} = \"{t}\";\n    f\"{u}{{{a}}}{t}{{1 + 2}}{u}\" // {t}\n}}\n"),
            3 => format!("record {c} {{ {a}: i32, {b}: String }}\n\nfn {f}({d}: {c}) -> i32 {{\n    {d}.{a}\n}}\n"),
            4 => format!(
                "enum {c} {{ {a}, {b}(i32) }}\n\nfn {f}({d}: {c}) -> i32 {{\n    match {d} {{\n        {a} => 1, // {t}\n        {b}({e}) => {e},\n    }}\n}}\n"
            ),
            5 => format!("const {c}: String = \"{t}\";\n\nfn {f}() -> String {{\n    {c} + \"{u}\"\n}}\n"),
            6 => format!(
                "fn {f}({a}: List[String]) -> u64 {{\n    for {b} in {a} {{\n        if {b} == \"{t}\" {{\n            return 1;\n        }}\n    }}\n    0 // {u}\n}}\n"
            ),
            7 => format!("fn {f}() -> char {{\n    '{}' // {u}\n}}\n", t.chars().next().unwrap()),
            8 => format!("filtermap {f}({a}: u8) {{\n    // {t}\n    if {a} > 1 {{\n        accept\n    }}\n    reject\n}}\n"),
            9 => format!(
                "fn {f}({a}: i32?) -> i32 {{\n    let {b}: String = f\"{t}\";\n    match {a} {{\n        Some({c}) => {c},\n        None => 0,\n    }}\n}}\n"
            ),
            _ => format!("fn {f}({a}: bool) -> String {{\n    while {a} {{\n        return \"{t}\";\n    }}\n    if {a} {{ \"{u}\" }} else {{ f\"{{{a}}}{t}\" }}\n}}\n"),
        };
        s.push_str(&item);
        if rng.chance(2, 3) {
            s.push('\n');
        }
    }
    if rng.chance(1, 3) {
        // the file ends in a comment without a line end
        s.push_str(&format!("// {}", text(rng)));
    }
    s
}

fn is_prim(t: &str) -> bool {
    matches!(t, "u8" | "u16" | "u32" | "u64" | "i8" | "i16" | "i32" | "i64" | "f32" | "f64")
}

/// Put multi-byte text into a printed rotogen program: consistent renames of a few
/// identifiers (the program stays valid when the name is one of its own), text in
/// string literals, comments.
fn unicodify(rng: &mut Rng, src: &str) -> String {
    let mut toks = super::split_tokens(src);
    let mut own: Vec<String> = Vec::new();
    let mut any: Vec<String> = Vec::new();
    for t in &toks {
        let Some(c) = t.chars().next() else { continue };
        if !(c.is_alphabetic() || c == '_') || t.len() < 2 || super::KEYWORDS.contains(&t.as_str()) {
            continue;
        }
        if !any.contains(t) {
            any.push(t.clone());
        }
        // names made by the generator carry a number; host functions and primitive types are not renamed here
        let looks_own = t.chars().any(|c| c.is_ascii_digit()) && !t.starts_with("in_") && !t.starts_with("out_") && !is_prim(t);
        if (looks_own || t == "fuel") && !own.contains(t) {
            own.push(t.clone());
        }
    }
    let renames = 1 + rng.usize(4);
    for _ in 0..renames {
        let from = if !own.is_empty() && rng.chance(5, 6) {
            own[rng.usize(own.len())].clone()
        } else if !any.is_empty() {
            any[rng.usize(any.len())].clone()
        } else {
            break;
        };
        let to = xid_ident(rng);
        for t in toks.iter_mut() {
            if *t == from {
                *t = to.clone();
            }
        }
    }
    let strings: Vec<usize> = (0..toks.len()).filter(|&i| toks[i].starts_with('"') && toks[i].len() >= 2 && toks[i].ends_with('"')).collect();
    if !strings.is_empty() {
        for _ in 0..rng.usize(3) {
            let i = strings[rng.usize(strings.len())];
            let at = if rng.bool() { 1 } else { toks[i].len() - 1 };
            let t = text(rng);
            toks[i].insert_str(at, &t);
        }
    }
    let lines: Vec<usize> = (0..toks.len()).filter(|&i| toks[i].starts_with(char::is_whitespace) && toks[i].contains('\n')).collect();
    if !lines.is_empty() {
        for _ in 0..1 + rng.usize(3) {
            let i = lines[rng.usize(lines.len())];
            toks[i] = format!(" // {}{}", text(rng), toks[i]);
        }
    }
    let mut s = toks.concat();
    if rng.chance(1, 4) {
        while s.ends_with(char::is_whitespace) {
            s.pop();
        }
        s.push_str(&format!(" // {}", text(rng)));
    }
    s
}

/// Class `truncated`.
pub fn truncated(rng: &mut Rng) -> Made {
    let mut tags = BTreeSet::new();
    let (mut src, origin) = match rng.below(10) {
        0..=3 => {
            let (p, _) = gen_base(rng);
            let seed = rng.next();
            (unicodify(rng, &print::print_program(&p, Some(seed))), "rotogen")
        }
        4..=7 => (template_program(rng), "template"),
        _ => (super::unicode_program(rng), "unicode"),
    };
    let mut detail = origin.to_string();
    if rng.chance(1, 5) {
        // invalid before it is cut
        let other = template_program(rng);
        let (m, kinds) = super::mutate_text(rng, &src, &other);
        src = m;
        detail.push_str(&format!("+mutant({kinds})"));
        tags.insert("trunc-src:mutant".to_string());
    }
    tags.insert(format!("trunc-src:{origin}"));
    // cut points: character boundaries right after / right before a multi-byte character
    let mut after = Vec::new();
    let mut before = Vec::new();
    for (i, c) in src.char_indices() {
        if c.len_utf8() > 1 {
            if i > 0 {
                before.push(i);
            }
            after.push(i + c.len_utf8());
        }
    }
    let (cut, how) = if !after.is_empty() && rng.chance(2, 3) {
        (after[rng.usize(after.len())], "after-multibyte")
    } else if !before.is_empty() {
        (before[rng.usize(before.len())], "before-multibyte")
    } else {
        let bs: Vec<usize> = src.char_indices().map(|(i, _)| i).collect();
        (if bs.is_empty() { 0 } else { bs[rng.usize(bs.len())] }, "ascii-only")
    };
    tags.insert(format!("trunc:{how}"));
    if cut == src.len() {
        tags.insert("trunc:whole-file".to_string());
    }
    let mut cut_src = src[..cut].to_string();
    if let Some(c) = cut_src.chars().last() {
        tags.insert(format!("trunc-last-char:{}-byte", c.len_utf8()));
    }
    let (tail, tail_name) = match rng.below(20) {
        0..=10 => ("", "none"),
        11..=15 => ("\n", "newline"),
        16 => ("\r\n", "crlf"),
        17 => (" ", "space"),
        18 => ("\n\n", "two-newlines"),
        _ => ("\t", "tab"),
    };
    cut_src.push_str(tail);
    tags.insert(format!("trunc-tail:{tail_name}"));
    detail.push_str(&format!(" cut@{cut}/{} {how} tail={tail_name}", src.len()));
    let files = if rng.chance(1, 3) {
        // one file of a module tree; the others are whole
        let names = ["a", "b", "foo", "é", "東"];
        let n = 2 + rng.usize(2);
        let at = rng.usize(n);
        tags.insert(format!("trunc-tree:{}", if at == 0 { "root" } else { "child" }));
        (0..n)
            .map(|i| {
                let name = if i == 0 { "pkg".to_string() } else { names[rng.usize(names.len())].to_string() };
                let text = if i == at {
                    cut_src.clone()
                } else if rng.bool() {
                    format!("fn f{i}() -> i32 {{ {i} }}\n")
                } else {
                    template_program(rng)
                };
                (name, text)
            })
            .collect()
    } else {
        tags.insert("trunc-tree:single-file".to_string());
        vec![("pkg".to_string(), cut_src)]
    };
    Made { detail, hint: "totality/truncated-next-to-multibyte".into(), tags: tags.into_iter().collect(), files }
}

// ---------------------------------------------------------------------------------
// Literal escapes
// ---------------------------------------------------------------------------------

/// Class `escapes`: string, f-string and char literals whose contents are a random
/// sequence over {ASCII text, 2/3/4-byte characters, valid escapes, INVALID escapes,
/// doubled braces `{{` `}}`, interpolations, lone braces, line continuations, raw line
/// ends}. An error (or warning) about an escape is located by arithmetic on offsets
/// inside the literal; everything in front of it that changes length when the literal is
/// decoded (doubled braces, earlier escapes, multi-byte text, earlier interpolations)
/// is what such arithmetic gets wrong. 1-4 literals per program, in several syntactic
/// places, optionally with a second file so that citations name the right file.
pub fn escapes(rng: &mut Rng) -> Made {
    const VALID: [&str; 12] = ["\\n", "\\t", "\\r", "\\0", "\\\\", "\\\"", "\\'", "\\x41", "\\x7f", "\\u{e9}", "\\u{1F600}", "\\u{0}"];
    const INVALID: [&str; 16] = [
        "\\q", "\\ ", "\\é", "\\東", "\\x4", "\\xZZ", "\\x80", "\\xé1", "\\u", "\\u{}", "\\u{110000}", "\\u{D800}", "\\u{12", "\\u{zz}", "\\u{1234567}", "\\U0041",
    ];
    let mut tags = BTreeSet::new();
    let piece = |rng: &mut Rng, fstr: bool, tags: &mut BTreeSet<String>| -> String {
        let n = 1 + rng.usize(8);
        let mut s = String::new();
        let mut had_invalid = false;
        for _ in 0..n {
            match rng.below(if fstr { 16 } else { 12 }) {
                0 | 1 => s.push_str(*rng.pick::<&str>(&["a", "xy", " ", "Roto", "0", "-"])),
                2..=4 => s.push_str(TEXT[rng.usize(TEXT.len())]),
                5 => s.push_str(XID_START[rng.usize(XID_START.len())]),
                6 | 7 => s.push_str(VALID[rng.usize(VALID.len())]),
                8 | 9 => {
                    s.push_str(INVALID[rng.usize(INVALID.len())]);
                    had_invalid = true;
                }
                10 => s.push_str(*rng.pick::<&str>(&["\\\n", "\\\n   ", "\\\r\n", "\n"])),
                11 => s.push_str(*rng.pick::<&str>(&["'", "\u{a0}", "\u{2028}", "\t"])),
                12 | 13 => s.push_str(*rng.pick::<&str>(&["{{", "}}", "{{}}", "}}{{"])),
                14 => s.push_str(*rng.pick::<&str>(&["{x}", "{1 + 2}", "{\"é\"}", "{ x }", "{f\"{x}\"}"])),
                _ => s.push_str(*rng.pick::<&str>(&["{", "}", "{}", "{é}", "{x"])),
            }
        }
        tags.insert(format!("escapes:invalid-escape:{had_invalid}"));
        s
    };
    let n_lits = 1 + rng.usize(4);
    let mut body = String::from("fn main(x: i32) -> String {\n");
    let mut detail = String::new();
    for i in 0..n_lits {
        let kind = rng.below(10);
        let lit = match kind {
            0..=4 => {
                tags.insert("escapes:in:f-string".to_string());
                detail.push('f');
                format!("f\"{}\"", piece(rng, true, &mut tags))
            }
            5..=7 => {
                tags.insert("escapes:in:string".to_string());
                detail.push('s');
                format!("\"{}\"", piece(rng, false, &mut tags))
            }
            _ => {
                tags.insert("escapes:in:char".to_string());
                detail.push('c');
                let c = match rng.below(4) {
                    0 => VALID[rng.usize(VALID.len())].to_string(),
                    1 | 2 => INVALID[rng.usize(INVALID.len())].to_string(),
                    _ => XID_START[rng.usize(XID_START.len())].to_string(),
                };
                format!("'{c}'.to_string()")
            }
        };
        match rng.below(5) {
            0 => body.push_str(&format!("    let v{i} = {lit};\n")),
            1 => body.push_str(&format!("    let v{i}: String = {lit}; // {}\n", text(rng))),
            2 => body.push_str(&format!("    /* {} */ let v{i} = {lit} + {lit};\n", text(rng))),
            3 => body.push_str(&format!("    let v{i} = if x > {i} {{ {lit} }} else {{ \"\" }};\n")),
            _ => body.push_str(&format!("    let v{i} = {lit}.to_uppercase();\n")),
        }
    }
    body.push_str("    v0\n}\n");
    if rng.chance(1, 3) {
        // multi-byte material in front of the function moves byte and character offsets apart
        body = format!("// {} {}\n{body}", text(rng), text(rng));
        tags.insert("escapes:multibyte-comment-before".to_string());
    }
    let files = if rng.chance(1, 4) {
        tags.insert("escapes:tree".to_string());
        let other = format!("// {}\nfn g() -> i32 {{ 1 }}\n", text(rng));
        if rng.bool() { vec![("pkg".to_string(), other), ("a".to_string(), body)] } else { vec![("pkg".to_string(), body), ("é".to_string(), other)] }
    } else {
        tags.insert("escapes:single-file".to_string());
        vec![("pkg".to_string(), body)]
    };
    Made { detail: format!("literals={detail}"), hint: "totality/literal-escapes".into(), tags: tags.into_iter().collect(), files }
}

// ---------------------------------------------------------------------------------
// Inference stress
// ---------------------------------------------------------------------------------

const INFER_HEADER: &str = "record R { f: List[i32], g: List[List[i32]], h: i32? }\n\
fn id_l(x: List[i32]) -> List[i32] { x }\n\
fn id_ll(x: List[List[i32]]) -> List[List[i32]] { x }\n\
fn id_o(x: i32?) -> i32? { x }\n\
fn two(x: List[i32], y: List[List[i32]]) -> bool { x.len() == y.len() }\n\
fn mk_l() -> List[i32] { let x = []; x }\n\
fn mk_ll() -> List[List[i32]] { let x = []; let y = [x]; y }\n\
fn mk_o() -> i32? { let x = None; x }\n\n";

/// Rough shape of a binding, only used to bias the choice of receivers (no typing).
#[derive(Clone, Copy, PartialEq)]
enum Kind {
    Any,
    List,
    Opt,
    Num,
}

struct Inf<'a> {
    rng: &'a mut Rng,
    vars: Vec<String>,
    kinds: Vec<Kind>,
    next: usize,
    tags: BTreeSet<String>,
    out: String,
    indent: usize,
    returns_option: bool,
}

impl Inf<'_> {
    fn line(&mut self, s: &str) {
        for _ in 0..self.indent {
            self.out.push_str("    ");
        }
        self.out.push_str(s);
        self.out.push('\n');
    }

    fn fresh(&mut self, p: &str) -> String {
        self.next += 1;
        format!("{p}{}", self.next)
    }

    fn bind(&mut self, v: String, k: Kind) {
        self.vars.push(v);
        self.kinds.push(k);
    }

    /// A variable, most of the time one of the wanted shape.
    fn var_of(&mut self, k: Kind) -> String {
        let c: Vec<usize> = (0..self.vars.len()).filter(|&i| self.kinds[i] == k).collect();
        if !c.is_empty() && self.rng.chance(4, 5) {
            return self.vars[c[self.rng.usize(c.len())]].clone();
        }
        self.var()
    }

    fn kind_of(&self, v: &str) -> Kind {
        self.vars.iter().position(|x| x == v).map(|i| self.kinds[i]).unwrap_or(Kind::Any)
    }

    fn var(&mut self) -> String {
        if self.vars.is_empty() {
            return "k".into();
        }
        // the most recent bindings are used a little more often
        let n = self.vars.len();
        let i = if self.rng.chance(1, 3) { n - 1 - self.rng.usize(n.min(2)) } else { self.rng.usize(n) };
        self.vars[i].clone()
    }

    fn operand(&mut self) -> String {
        let v = self.var();
        match self.rng.below(24) {
            0..=14 => v,
            15 | 16 => format!("[{v}]"),
            17 => format!("{v}.get(0)"),
            18 => format!("Some({v})"),
            19 => "[]".into(),
            20 => "None".into(),
            21 => format!("[[{v}]]"),
            _ => self.rng.pick(&["0", "1.5", "\"s\"", "[[]]", "true", "[None]", "Some([])"]).to_string(),
        }
    }

    /// `let v = <something whose type is (partly) an inference variable>;`
    fn binding(&mut self) {
        let v = self.fresh("v");
        let a = self.var();
        let b = self.var();
        let l = self.var_of(Kind::List);
        let have = !self.vars.is_empty();
        let (init, name) = match self.rng.below(if have { 34 } else { 16 }) {
            0..=3 => ("[]".to_string(), "empty-list"),
            4 | 5 => ("None".to_string(), "none"),
            6 => ("0".to_string(), "int-literal"),
            7 => ("1.5".to_string(), "float-literal"),
            8 => ("[[]]".to_string(), "list-of-empty-list"),
            9 => ("[None]".to_string(), "list-of-none"),
            10 => ("Some([])".to_string(), "some-empty-list"),
            11 => ("[].concat([])".to_string(), "concat-of-empty"),
            12 => ("[].get(0)".to_string(), "get-of-empty"),
            13 => (self.rng.pick(&["[1]", "[[1]]", "Some(1)", "[1.5]", "\"s\""]).to_string(), "known-literal"),
            14 => (self.rng.pick(&["mk_l()", "mk_ll()", "mk_o()"]).to_string(), "returned-by-function"),
            15 => ("[[], []]".to_string(), "two-empty-lists"),
            16..=18 => (format!("[{a}]"), "list-of-var"),
            19 => (a.clone(), "alias"),
            20 | 21 => (format!("{l}.get(0)"), "get-of-var"),
            22 => (format!("{l}.concat({b})"), "concat-of-vars"),
            23 | 24 => (format!("[{a}, {b}]"), "list-of-two-vars"),
            25 => (format!("Some({a})"), "some-of-var"),
            26 => (format!("if k {{ {a} }} else {{ {b} }}"), "if-of-vars"),
            27 => (format!("{{ f: {a}, g: {b} }}"), "anonymous-record"),
            28 => (format!("R {{ f: {l}, g: {b}, h: {l}.get(0) }}"), "named-record"),
            29 => (format!("id_l({l})"), "through-function"),
            30 => (format!("{l}.index({b})"), "index-of-var"),
            31 => (format!("{a} + {b}"), "sum-of-vars"),
            32 => (format!("{l}.len()"), "len-of-var"),
            _ => (format!("[{a}].concat([{b}])"), "concat-of-lists-of-vars"),
        };
        self.tags.insert(format!("infer-init:{name}"));
        self.line(&format!("let {v} = {init};"));
        let kind = match name {
            "none" | "some-empty-list" | "get-of-empty" | "get-of-var" | "some-of-var" | "index-of-var" => Kind::Opt,
            "int-literal" | "float-literal" | "len-of-var" => Kind::Num,
            "alias" | "if-of-vars" | "sum-of-vars" => self.kind_of(&a),
            "known-literal" | "anonymous-record" | "named-record" => Kind::Any,
            "returned-by-function" => {
                if init == "mk_o()" {
                    Kind::Opt
                } else {
                    Kind::List
                }
            }
            _ => Kind::List,
        };
        self.bind(v, kind);
    }

    fn block(&mut self, depth: u32, extra: &[String]) {
        let mark = self.vars.len();
        for e in extra {
            self.bind(e.clone(), Kind::Any);
        }
        self.indent += 1;
        let n = 1 + self.rng.usize(2);
        for _ in 0..n {
            self.stmt(depth);
        }
        self.indent -= 1;
        self.vars.truncate(mark);
        self.kinds.truncate(mark);
    }

    fn stmt(&mut self, depth: u32) {
        let a = self.operand();
        let b = self.operand();
        let v = self.var();
        let w = self.var();
        // receivers: mostly something list-like / option-like
        let l = if self.rng.chance(5, 6) { self.var_of(Kind::List) } else { self.operand() };
        let o = if self.rng.chance(1, 2) { self.var_of(Kind::Opt) } else { format!("{}.get(0)", self.var_of(Kind::List)) };
        let nested = depth > 0;
        let mut t = self.rng.below(46);
        if !nested && matches!(t, 30..=37) {
            t = self.rng.below(30);
        }
        let name: &str = match t {
            0 | 1 => {
                self.line(&format!("{v} = {b};"));
                "assign"
            }
            2 | 3 => {
                self.line(&format!("{v} = [{b}];"));
                "assign-list-of"
            }
            4 | 5 => {
                self.line(&format!("{l}.push({b});"));
                "push"
            }
            6 | 7 => {
                self.line(&format!("{l}.push([{b}]);"));
                "push-list-of"
            }
            8 => {
                let c = self.fresh("c");
                let op = *self.rng.pick(&["==", "!="]);
                self.line(&format!("let {c} = {a} {op} {b};"));
                self.bind(c, Kind::Any);
                "eq"
            }
            9 => {
                let c = self.fresh("c");
                self.line(&format!("let {c} = [{a}] == {b};"));
                self.bind(c, Kind::Any);
                "list-of-eq"
            }
            10 => {
                let c = self.fresh("c");
                self.line(&format!("let {c} = {a} == [{b}];"));
                self.bind(c, Kind::Any);
                "eq-list-of"
            }
            11 | 12 => {
                let c = self.fresh("c");
                self.line(&format!("let {c} = {a} + {b};"));
                let k = self.kind_of(&a);
                self.bind(c, k);
                "plus"
            }
            13 => {
                let c = self.fresh("c");
                self.line(&format!("let {c} = {l}.concat([{b}]);"));
                self.bind(c, Kind::List);
                "concat-list-of"
            }
            14 => {
                let c = self.fresh("c");
                self.line(&format!("let {c} = {l}.concat({b});"));
                self.bind(c, Kind::List);
                "concat"
            }
            15 => {
                let m = *self.rng.pick(&["contains", "index"]);
                self.line(&format!("{l}.{m}({b});"));
                "contains"
            }
            16 | 17 => {
                let c = self.fresh("c");
                self.line(&format!("let {c} = [{a}, {b}];"));
                self.bind(c, Kind::List);
                "list-of-two"
            }
            18 | 19 => {
                let c = self.fresh("c");
                let (x, y) = match self.rng.below(4) {
                    0 => (a.clone(), format!("[{b}]")),
                    1 => (format!("[{a}]"), b.clone()),
                    2 => (a.clone(), b.clone()),
                    _ => (format!("Some({a})"), b.clone()),
                };
                self.line(&format!("let {c} = if k {{ {x} }} else {{ {y} }};"));
                self.bind(c, Kind::Any);
                "if-else-value"
            }
            20 => {
                let f = *self.rng.pick(&["id_l", "id_ll", "id_o"]);
                let arg = if self.rng.chance(1, 3) { format!("[{a}]") } else { a.clone() };
                let c = self.fresh("c");
                self.line(&format!("let {c} = {f}({arg});"));
                self.bind(c, if f == "id_o" { Kind::Opt } else { Kind::List });
                "call"
            }
            21 => {
                self.line(&format!("two({a}, {b});"));
                "call-two"
            }
            22 => {
                self.line(&format!("if k {{ return {a}; }}"));
                "return"
            }
            23 => {
                let r = self.fresh("r");
                if self.rng.bool() {
                    self.line(&format!("let {r} = R {{ f: {l}, g: {b}, h: {l}.get(0) }};"));
                } else {
                    self.line(&format!("let {r} = {{ f: {a}, g: [{b}] }};"));
                }
                let fld = *self.rng.pick(&["f", "g"]);
                let c = self.operand();
                self.line(&format!("{r}.{fld} = {c};"));
                if self.rng.bool() {
                    self.line(&format!("{v} = {r}.{fld};"));
                }
                self.bind(r, Kind::Any);
                "record-field"
            }
            24 => {
                let op = *self.rng.pick(&["+=", "-=", "*="]);
                self.line(&format!("{v} {op} {b};"));
                "compound-assign"
            }
            25 => {
                let c = self.fresh("c");
                let ty = *self.rng.pick(&["List[i32]", "List[List[i32]]", "i32?", "List[i32?]", "List[i32]?", "List[String]", "i32", "f64"]);
                self.line(&format!("let {c}: {ty} = {a};"));
                self.bind(c, if ty.ends_with('?') { Kind::Opt } else if ty.starts_with("List") { Kind::List } else { Kind::Num });
                "annotated-let"
            }
            26 => {
                let c = self.fresh("c");
                let op = *self.rng.pick(&["<", "-", "*", ">=", "/"]);
                self.line(&format!("let {c} = {a} {op} {b};"));
                self.bind(c, Kind::Num);
                "other-binop"
            }
            27 => {
                let c = self.fresh("c");
                self.line(&format!("let {c} = f\"{{{a}}} {{{b}}}\";"));
                self.bind(c, Kind::Any);
                "f-string"
            }
            28 => {
                let c = self.fresh("c");
                self.line(&format!("let {c} = {o}?;"));
                self.bind(c, Kind::Any);
                "question-mark"
            }
            29 => {
                self.line(&format!("{l}.swap(0, {b}.len());"));
                "len"
            }
            30 | 31 => {
                let e = self.fresh("e");
                let scrut = if self.rng.chance(1, 6) { a.clone() } else { o.clone() };
                self.line(&format!("match {scrut} {{"));
                self.indent += 1;
                self.line(&format!("Some({e}) => {{"));
                self.block(depth - 1, &[e]);
                self.line("}");
                self.line("None => {");
                if self.rng.bool() {
                    self.block(depth - 1, &[]);
                }
                self.line("}");
                self.indent -= 1;
                self.line("}");
                "match-option"
            }
            32..=34 => {
                let e = self.fresh("e");
                self.line(&format!("for {e} in {l} {{"));
                self.block(depth - 1, &[e]);
                self.line("}");
                "for"
            }
            35 | 36 => {
                let cond = match self.rng.below(4) {
                    0 => format!("[{a}] == {b}"),
                    1 => format!("{a} == [{b}]"),
                    2 => format!("{l}.contains({b})"),
                    _ => format!("{a} == {b}"),
                };
                self.line(&format!("if {cond} {{"));
                self.block(depth - 1, &[]);
                if self.rng.bool() {
                    self.line("} else {");
                    self.block(depth - 1, &[]);
                }
                self.line("}");
                "if"
            }
            37 => {
                self.line(&format!("while {a} != {b} {{"));
                self.block(depth - 1, &[]);
                self.line("}");
                "while"
            }
            38 => {
                self.line(&format!("{v} = {w};"));
                "assign-var-var"
            }
            39 => {
                self.line(&format!("{v} = [{w}];"));
                "assign-var-list-of-var"
            }
            40 => {
                self.line(&format!("{v}.push({w});"));
                "push-var-var"
            }
            41 => {
                self.line(&format!("{v}.push([{w}]);"));
                "push-var-list-of-var"
            }
            42 => {
                self.line(&format!("if [{v}] == {w} {{ }}"));
                "list-of-var-eq-var"
            }
            43 => {
                self.line(&format!("if {v} == [{w}] {{ }}"));
                "var-eq-list-of-var"
            }
            44 => {
                let c = self.fresh("c");
                self.line(&format!("let {c} = {v}.concat([{w}]);"));
                self.bind(c, Kind::List);
                "var-concat-list-of-var"
            }
            _ => {
                self.binding();
                "binding"
            }
        };
        self.tags.insert(format!("infer:{name}"));
    }
}

/// Class `infer`.
pub fn infer(rng: &mut Rng) -> Made {
    let ret = *rng.pick(&["", "", "List[i32]", "List[List[i32]]", "i32?", "bool", "i32", "List[i32]?"]);
    let mut g = Inf { rng, vars: Vec::new(), kinds: Vec::new(), next: 0, tags: BTreeSet::new(), out: String::new(), indent: 1, returns_option: ret.ends_with('?') };
    let mut params = vec!["k: bool".to_string()];
    for (name, ty) in [("p", "List[i32]"), ("q", "List[List[i32]]"), ("o", "i32?")] {
        if g.rng.chance(1, 3) {
            params.push(format!("{name}: {ty}"));
            g.bind(name.to_string(), if ty.ends_with('?') { Kind::Opt } else { Kind::List });
            g.tags.insert(format!("infer-param:{ty}"));
        }
    }
    let nb = 1 + g.rng.usize(3);
    for _ in 0..nb {
        g.binding();
    }
    let span = if g.rng.chance(1, 4) { 6 } else { 3 };
    let ns = 1 + g.rng.usize(span);
    for _ in 0..ns {
        g.stmt(2);
    }
    let _ = g.returns_option;
    if !ret.is_empty() && g.rng.chance(3, 4) {
        let e = g.operand();
        g.line(&e);
        g.tags.insert("infer:result".to_string());
    }
    let arrow = if ret.is_empty() { String::new() } else { format!(" -> {ret}") };
    let src = format!("{INFER_HEADER}fn main({}){arrow} {{\n{}}}\n", params.join(", "), g.out);
    g.tags.insert(format!("infer-returns:{}", if ret.is_empty() { "nothing" } else { ret }));
    Made { detail: format!("{nb} bindings, {ns} statements"), hint: "totality/inference-stress".into(), tags: g.tags.into_iter().collect(), files: vec![("pkg".into(), src)] }
}

// ---------------------------------------------------------------------------------
// Chains
// ---------------------------------------------------------------------------------

/// Join operands with operators in a parenthesisation style. `op(i)` is the operator
/// between operand i and i+1.
fn join(rng: &mut Rng, xs: &[String], op: &mut dyn FnMut(&mut Rng) -> String, style: &str, wrap: bool) -> String {
    let brk = |i: usize| if wrap && i % 12 == 11 { "\n        " } else { " " };
    match style {
        "right" => {
            let mut s = String::new();
            for (i, x) in xs.iter().enumerate() {
                if i + 1 < xs.len() {
                    s.push_str(&format!("{x} {}{}(", op(rng), brk(i)));
                } else {
                    s.push_str(x);
                }
            }
            for _ in 1..xs.len() {
                s.push(')');
            }
            s
        }
        "left-paren" => {
            let mut s = String::new();
            for _ in 2..xs.len() {
                s.push('(');
            }
            for (i, x) in xs.iter().enumerate() {
                if i == 0 {
                    s.push_str(x);
                } else {
                    s.push_str(&format!(" {}{}{x}", op(rng), brk(i)));
                    if i + 1 < xs.len() {
                        s.push(')');
                    }
                }
            }
            s
        }
        "pairs" => {
            let mut parts = Vec::new();
            for ch in xs.chunks(2) {
                if ch.len() == 2 {
                    parts.push(format!("({} {} {})", ch[0], op(rng), ch[1]));
                } else {
                    parts.push(ch[0].clone());
                }
            }
            join(rng, &parts, op, "flat", wrap)
        }
        "tree" => {
            if xs.len() == 1 {
                return xs[0].clone();
            }
            let mid = xs.len() / 2;
            let l = join(rng, &xs[..mid], op, "tree", false);
            let r = join(rng, &xs[mid..], op, "tree", false);
            let o = op(rng);
            let nl = if wrap && xs.len() >= 16 { "\n        " } else { " " };
            if xs.len() > 2 { format!("({l}) {o}{nl}({r})") } else { format!("{l} {o} {r}") }
        }
        _ => {
            let mut s = String::new();
            for (i, x) in xs.iter().enumerate() {
                if i > 0 {
                    s.push_str(&format!(" {}{}", op(rng), brk(i)));
                }
                s.push_str(x);
            }
            s
        }
    }
}

fn pick_len(rng: &mut Rng, style_nests: bool, max_nest: usize) -> usize {
    if style_nests {
        let all = [24usize, 32, 40, 48, 64, 96, 128, 192, 256];
        let ok: Vec<usize> = all.iter().copied().filter(|&n| n <= max_nest).collect();
        if ok.is_empty() { max_nest.max(2) } else { ok[rng.usize(ok.len())] }
    } else {
        *rng.pick(&[32usize, 64, 128, 256])
    }
}

/// (style, number of operands): nesting styles obey the nesting bound.
fn style_and_len(rng: &mut Rng, max_nest: usize) -> (&'static str, usize) {
    match rng.below(10) {
        0..=4 => ("flat", pick_len(rng, true, max_nest)),
        5 => ("right", pick_len(rng, true, max_nest)),
        6 => ("left-paren", pick_len(rng, true, max_nest)),
        // depth of `pairs` is half the number of operands
        7 => ("pairs", 2 * pick_len(rng, true, max_nest)),
        _ => ("tree", pick_len(rng, false, max_nest)),
    }
}

struct Operands {
    style: &'static str,
    /// typed parameters, un-annotated locals, un-annotated literals, typed literals, calls
    forms: [Vec<String>; 5],
}

impl Operands {
    fn get(&self, rng: &mut Rng, i: usize) -> String {
        let k = match self.style {
            "typed-var" => 0,
            "untyped-var" => 1,
            "literal" => 2,
            "typed-literal" => 3,
            "call" => 4,
            _ => rng.usize(5),
        };
        let f = &self.forms[k];
        f[(i + rng.usize(2)) % f.len()].clone()
    }
}

const OPERAND_STYLES: [&str; 6] = ["typed-var", "untyped-var", "literal", "typed-literal", "call", "mixed"];

/// Where the chain expression stands in `main`.
fn place(rng: &mut Rng, head: &str, params: &str, lets: &str, ty: &str, expr: &str) -> String {
    let body = match rng.below(6) {
        0 | 1 => format!("    {expr}\n"),
        2 => format!("    let r = {expr};\n    r\n"),
        3 => format!("    let r: {ty} = {expr};\n    r\n"),
        4 => format!("    return {expr};\n"),
        _ => format!("    if k {{\n        return {expr};\n    }}\n    {expr}\n"),
    };
    format!("{head}fn main(k: bool, {params}) -> {ty} {{\n{lets}{body}}}\n")
}

/// Class `chains`.
pub fn chains(rng: &mut Rng, max_nest: usize) -> Made {
    let mut tags = BTreeSet::new();
    let wrap = rng.bool();
    let mut files: Vec<(String, String)> = Vec::new();
    let kind: String;
    let n: usize;
    let mut style = "flat";
    let mut operand_style = "-";
    let src: String = match rng.below(34) {
        // ---- arithmetic on one numeric type
        0..=7 => {
            let op = *rng.pick(&["+", "+", "-", "*", "/", "/", "%"]);
            let ty = *rng.pick(&["i32", "u64", "f64", "u8", "i64"]);
            let (st, len) = style_and_len(rng, max_nest);
            style = st;
            n = len;
            operand_style = OPERAND_STYLES[rng.usize(OPERAND_STYLES.len())];
            let float = ty == "f64";
            let ops = Operands {
                style: operand_style,
                forms: [
                    (0..4).map(|i| format!("a{i}")).collect(),
                    (0..4).map(|i| format!("x{i}")).collect(),
                    (1..8).map(|i| if float { format!("{i}.5") } else { format!("{i}") }).collect(),
                    (1..8).map(|i| if float { format!("{i}.5{ty}") } else { format!("{i}{ty}") }).collect(),
                    (0..4).map(|i| format!("g(a{i})")).collect(),
                ],
            };
            let xs: Vec<String> = (0..n).map(|i| ops.get(rng, i)).collect();
            let e = join(rng, &xs, &mut |_| op.to_string(), style, wrap);
            kind = format!("binop:{op}");
            tags.insert(format!("chain-type:{ty}"));
            let lit = if float { "1.5" } else { "1" };
            place(
                rng,
                &format!("fn g(x: {ty}) -> {ty} {{ x }}\n\n"),
                &format!("a0: {ty}, a1: {ty}, a2: {ty}, a3: {ty}"),
                &format!("    let x0 = {lit};\n    let x1 = {lit};\n    let x2 = x0;\n    let x3 = {lit};\n"),
                ty,
                &e,
            )
        }
        // ---- arithmetic with mixed operators (precedence climbing)
        8 => {
            let ty = *rng.pick(&["i32", "u64", "f64"]);
            style = "flat";
            n = pick_len(rng, true, max_nest);
            let xs: Vec<String> = (0..n).map(|i| if rng.bool() { format!("a{}", i % 4) } else { format!("{}", 1 + i % 5) }).collect();
            let e = join(rng, &xs, &mut |r| r.pick(&["+", "-", "*", "/", "%"]).to_string(), style, wrap);
            kind = "binop:mixed-arithmetic".into();
            place(rng, "", &format!("a0: {ty}, a1: {ty}, a2: {ty}, a3: {ty}"), "", ty, &e)
        }
        // ---- comparisons joined by && / ||
        9..=11 => {
            let cmp = *rng.pick(&["==", "!=", "<", "<=", ">", ">="]);
            let glue = *rng.pick(&["&&", "||"]);
            let ty = *rng.pick(&["i32", "u8", "f64", "String", "bool", "char"]);
            let (st, len) = style_and_len(rng, max_nest);
            style = st;
            n = len;
            operand_style = *rng.pick(&["typed-var", "untyped-var", "literal", "mixed"]);
            let lits: Vec<String> = match ty {
                "String" => (0..4).map(|i| format!("\"s{i}\"")).collect(),
                "bool" => vec!["true".into(), "false".into()],
                "char" => vec!["'a'".into(), "'é'".into()],
                "f64" => (0..4).map(|i| format!("{i}.5")).collect(),
                _ => (0..4).map(|i| format!("{i}")).collect(),
            };
            let ops = Operands {
                style: operand_style,
                forms: [
                    (0..4).map(|i| format!("a{i}")).collect(),
                    (0..4).map(|i| format!("x{i}")).collect(),
                    lits.clone(),
                    lits.clone(),
                    (0..4).map(|i| format!("g(a{i})")).collect(),
                ],
            };
            let cs: Vec<String> = (0..n / 2).map(|i| format!("{} {cmp} {}", ops.get(rng, 2 * i), ops.get(rng, 2 * i + 1))).collect();
            let e = join(rng, &cs, &mut |_| glue.to_string(), style, wrap);
            kind = format!("binop:{cmp}");
            tags.insert(format!("chain-glue:{glue}"));
            tags.insert(format!("chain-type:{ty}"));
            place(
                rng,
                &format!("fn g(x: {ty}) -> {ty} {{ x }}\n\n"),
                &format!("a0: {ty}, a1: {ty}, a2: {ty}, a3: {ty}"),
                &format!("    let x0 = {};\n    let x1 = {};\n    let x2 = a2;\n    let x3 = x0;\n", lits[0], lits[1 % lits.len()]),
                "bool",
                &e,
            )
        }
        // ---- comparisons of comparisons: parenthesised (legal), bare (rejected by the parser)
        12 => {
            let cmp = *rng.pick(&["==", "!=", "<", ">="]);
            style = *rng.pick(&["left-paren", "right", "flat"]);
            n = pick_len(rng, true, max_nest);
            let xs: Vec<String> = (0..n).map(|i| if rng.chance(1, 3) { "true".to_string() } else { format!("b{}", i % 3) }).collect();
            let e = join(rng, &xs, &mut |_| cmp.to_string(), style, wrap);
            kind = format!("binop:{cmp}-of-bool");
            place(rng, "", "b0: bool, b1: bool, b2: bool", "", "bool", &e)
        }
        // ---- && and ||
        13 | 14 => {
            let (st, len) = style_and_len(rng, max_nest);
            style = st;
            n = len;
            let mixed = rng.chance(1, 4);
            let op = *rng.pick(&["&&", "||"]);
            let xs: Vec<String> = (0..n)
                .map(|i| match rng.below(6) {
                    0 => "true".to_string(),
                    1 => format!("a{} < {}", i % 2, i % 7),
                    2 => format!("h(b{})", i % 3),
                    3 => format!("!b{}", i % 3),
                    _ => format!("b{}", i % 3),
                })
                .collect();
            let e = join(rng, &xs, &mut |r| if mixed { r.pick(&["&&", "||"]).to_string() } else { op.to_string() }, style, wrap);
            kind = if mixed { "binop:&&-||-mixed".into() } else { format!("binop:{op}") };
            place(rng, "fn h(x: bool) -> bool { !x }\n\n", "b0: bool, b1: bool, b2: bool, a0: i32, a1: i32", "", "bool", &e)
        }
        // ---- String +
        15 | 16 => {
            let (st, len) = style_and_len(rng, max_nest);
            style = st;
            n = len;
            operand_style = OPERAND_STYLES[rng.usize(OPERAND_STYLES.len())];
            let ops = Operands {
                style: operand_style,
                forms: [
                    (0..3).map(|i| format!("s{i}")).collect(),
                    (0..3).map(|i| format!("t{i}")).collect(),
                    (0..5).map(|i| format!("\"l{i}é\"")).collect(),
                    vec!["f\"{a0}\"".into(), "a0.to_string()".into(), "f\"x{s0}y\"".into()],
                    (0..3).map(|i| format!("sg(s{i})")).collect(),
                ],
            };
            let xs: Vec<String> = (0..n).map(|i| ops.get(rng, i)).collect();
            let e = join(rng, &xs, &mut |_| "+".to_string(), style, wrap);
            kind = "string:+".into();
            place(
                rng,
                "fn sg(x: String) -> String { x }\n\n",
                "s0: String, s1: String, s2: String, a0: i32",
                "    let t0 = \"t\";\n    let t1 = s1;\n    let t2 = t0 + t1;\n",
                "String",
                &e,
            )
        }
        // ---- List +
        17 | 18 => {
            let (st, len) = style_and_len(rng, max_nest);
            style = st;
            n = len;
            operand_style = OPERAND_STYLES[rng.usize(OPERAND_STYLES.len())];
            let ops = Operands {
                style: operand_style,
                forms: [
                    (0..3).map(|i| format!("l{i}")).collect(),
                    (0..3).map(|i| format!("m{i}")).collect(),
                    vec!["[]".into(), "[1]".into(), "[1, 2]".into()],
                    vec!["[1i32]".into(), "[a0]".into(), "[a0, 2i32]".into()],
                    (0..3).map(|i| format!("lg(l{i})")).collect(),
                ],
            };
            let xs: Vec<String> = (0..n).map(|i| ops.get(rng, i)).collect();
            let e = join(rng, &xs, &mut |_| "+".to_string(), style, wrap);
            kind = "list:+".into();
            place(
                rng,
                "fn lg(x: List[i32]) -> List[i32] { x }\n\n",
                "l0: List[i32], l1: List[i32], l2: List[i32], a0: i32",
                "    let m0 = [];\n    let m1 = [1];\n    let m2 = m0;\n",
                "List[i32]",
                &e,
            )
        }
        // ---- `/` starting at an IP address (prefix construction)
        19 => {
            style = *rng.pick(&["flat", "left-paren"]);
            n = pick_len(rng, true, max_nest);
            let mut xs: Vec<String> = vec![rng.pick(&["1.2.3.4", "ip", "2001:db8::1"]).to_string()];
            for i in 1..n {
                xs.push(if rng.bool() { "8".to_string() } else { format!("a{}", i % 2) });
            }
            let e = join(rng, &xs, &mut |_| "/".to_string(), style, wrap);
            kind = "ip:/".into();
            place(rng, "", "ip: IpAddr, a0: u8, a1: u8", "", "Prefix", &e)
        }
        // ---- unary operators
        20 => {
            n = pick_len(rng, true, max_nest);
            let (op, x, ty) = *rng.pick(&[("-", "a0", "i32"), ("!", "b0", "bool"), ("-", "1.5", "f64"), ("- ", "a0", "i32"), ("-", "(a0)", "i32")]);
            let parens = rng.bool();
            let mut e = String::new();
            for _ in 0..n {
                e.push_str(op);
                if parens {
                    e.push('(');
                }
            }
            e.push_str(x);
            if parens {
                for _ in 0..n {
                    e.push(')');
                }
            }
            style = if parens { "right" } else { "flat" };
            kind = format!("unary:{}", op.trim());
            place(rng, "", "a0: i32, b0: bool", "", ty, &e)
        }
        // ---- f-strings with many parts
        21 | 22 => {
            n = pick_len(rng, false, max_nest);
            let mut e = String::from("f\"");
            for i in 0..n {
                let part = match rng.below(8) {
                    0 => format!("{{a{}}}", i % 2),
                    1 => format!("{{s{}}}", i % 2),
                    2 => format!("{{a0 + {i}}}"),
                    3 => "{ f\"{a0}é\" }".to_string(),
                    4 => format!("{{x{}}}", i % 2),
                    5 => "{b0}".to_string(),
                    6 => format!("{{[a0, {i}]}}"),
                    _ => format!("{{{i}}}"),
                };
                e.push_str(&part);
                if rng.bool() {
                    e.push_str(["-", "é", " ", "{{", "}}", "東"][rng.usize(6)]);
                }
            }
            e.push('"');
            kind = "f-string-parts".into();
            place(rng, "", "a0: i32, a1: i32, s0: String, s1: String, b0: bool", "    let x0 = 1;\n    let x1 = \"x\";\n", "String", &e)
        }
        // ---- method-call chains
        23 | 24 => {
            n = pick_len(rng, true, max_nest);
            let (base, steps, ty, params): (&str, Vec<&str>, &str, &str) = match rng.below(7) {
                0 => ("a0", vec![".to_string()", ".len()"], if n % 2 == 0 { "u64" } else { "String" }, "a0: u64"),
                1 => ("s0", vec![".to_uppercase()", ".to_lowercase()"], "String", "s0: String"),
                2 => ("s0", vec![".append(\"x\")", ".append(s0)", ".repeat(1)"], "String", "s0: String"),
                3 => ("l0", vec![".concat(l0)", ".concat([1])", ".concat([])"], "List[i32]", "l0: List[i32]"),
                4 => ("a0", vec![".abs()"], "i32", "a0: i32"),
                5 => ("1", vec![".to_string()", ".len()"], if n % 2 == 0 { "u64" } else { "String" }, "a0: u64"),
                _ => ("[]", vec![".concat([])", ".concat(l0)"], "List[i32]", "l0: List[i32]"),
            };
            let mut e = base.to_string();
            for i in 0..n {
                let st = if steps.len() == 2 && steps[1] == ".len()" { steps[i % 2] } else { steps[rng.usize(steps.len())] };
                if wrap && i % 8 == 7 {
                    e.push_str("\n        ");
                }
                e.push_str(st);
            }
            kind = format!("method-chain:{}", steps[0].trim_start_matches('.').split('(').next().unwrap_or(""));
            place(rng, "", params, "", ty, &e)
        }
        // ---- nested calls
        25 => {
            n = pick_len(rng, true, max_nest);
            let (f, x, ty, head) = *rng.pick(&[
                ("g", "a0", "i32", "fn g(x: i32) -> i32 { x }\n\n"),
                ("Some", "a0", "", ""),
                ("lg", "[]", "List[i32]", "fn lg(x: List[i32]) -> List[i32] { x }\n\n"),
            ]);
            let e = format!("{}{x}{}", format!("{f}(").repeat(n), ")".repeat(n));
            style = "right";
            kind = format!("call-nest:{f}");
            if ty.is_empty() {
                format!("fn main(k: bool, a0: i32) {{\n    let r = {e};\n}}\n")
            } else {
                place(rng, head, "a0: i32", "", ty, &e)
            }
        }
        // ---- else-if chains
        26 | 27 => {
            n = pick_len(rng, true, max_nest);
            let value = rng.bool();
            let last_else = value || rng.bool();
            let mut e = String::new();
            for i in 0..n {
                let cond = match rng.below(4) {
                    0 => format!("a0 == {i}"),
                    1 => format!("a0 < {i} && b0"),
                    2 => format!("x0 == {i}"),
                    _ => format!("s0 == \"{i}\""),
                };
                let body = if value { format!("{i}") } else { format!("x0 = {i};") };
                e.push_str(&format!("{}if {cond} {{\n        {body}\n    }}", if i == 0 { "" } else { " else " }));
            }
            if last_else {
                e.push_str(&format!(" else {{\n        {}\n    }}", if value { "0".to_string() } else { "x0 = 0;".to_string() }));
            }
            kind = "else-if".into();
            tags.insert(format!("chain-else-if:{}", if value { "value" } else { "statement" }));
            if value {
                format!("fn main(k: bool, a0: i32, b0: bool, s0: String) -> i32 {{\n    let x0 = 1;\n    {e}\n}}\n")
            } else {
                format!("fn main(k: bool, a0: i32, b0: bool, s0: String) -> i32 {{\n    let x0 = 1;\n    {e}\n    x0\n}}\n")
            }
        }
        // ---- import lists (a module tree)
        28 | 29 => {
            n = pick_len(rng, false, max_nest);
            let m: String = (0..n).map(|i| format!("fn f{i}(x: i32) -> i32 {{ x + {i} }}\n")).collect();
            let names: Vec<String> = (0..n).map(|i| format!("f{i}")).collect();
            let form = rng.below(4);
            let imports = match form {
                0 => format!("import m.{{{}}};\n", names.join(", ")),
                1 => names.iter().map(|f| format!("import m.{f};\n")).collect::<String>(),
                2 => format!("import m.{{{}}};\n", names.chunks(8).map(|c| format!("{{{}}}", c.join(", "))).collect::<Vec<_>>().join(", ")),
                _ => String::new(),
            };
            let calls: Vec<String> = names.iter().map(|f| if form == 3 { format!("m.{f}(a0)") } else { format!("{f}(a0)") }).collect();
            let use_ = match rng.below(3) {
                0 => format!("    let l = [{}];\n    l.len()\n", calls.join(", ")),
                1 => format!("    let r = {};\n    if r > 0 {{ 1 }} else {{ 0 }}\n", join(rng, &calls, &mut |_| "+".to_string(), "tree", true)),
                _ => calls.iter().map(|c| format!("    {c};\n")).collect::<String>() + "    0\n",
            };
            let inside = rng.chance(1, 3);
            let root = if inside {
                format!("fn main(k: bool, a0: i32) -> u64 {{\n{imports}{use_}}}\n")
            } else {
                format!("{imports}\nfn main(k: bool, a0: i32) -> u64 {{\n{use_}}}\n")
            };
            files.push(("pkg".into(), root));
            files.push(("m".into(), m));
            kind = "imports".into();
            tags.insert(format!("chain-imports:{}", ["one-list", "one-per-item", "nested-lists", "paths-without-import"][form as usize]));
            String::new()
        }
        // ---- many match arms
        30 | 31 => {
            n = pick_len(rng, false, max_nest);
            kind = "match-arms".into();
            match rng.below(3) {
                0 => {
                    tags.insert("chain-arms:enum-variants".to_string());
                    let vs: Vec<String> = (0..n).map(|i| if i % 3 == 0 { format!("V{i}(i32)") } else { format!("V{i}") }).collect();
                    let arms: String = (0..n)
                        .map(|i| if i % 3 == 0 { format!("        V{i}(x) => x + {i},\n") } else { format!("        V{i} => {i},\n") })
                        .collect();
                    format!("enum E {{ {} }}\n\nfn main(k: bool, e: E) -> i32 {{\n    match e {{\n{arms}    }}\n}}\n", vs.join(", "))
                }
                1 => {
                    tags.insert("chain-arms:guarded-some".to_string());
                    let arms: String = (0..n).map(|i| format!("        Some(v) if v == {i} => {i},\n")).collect();
                    format!("fn main(k: bool, o: i32?) -> i32 {{\n    match o {{\n{arms}        Some(v) => v,\n        None => 0,\n    }}\n}}\n")
                }
                _ => {
                    tags.insert("chain-arms:guarded-underscore".to_string());
                    let arms: String = (0..n).map(|i| format!("        _ if a0 == {i} => {i},\n")).collect();
                    format!("fn main(k: bool, o: i32?, a0: i32) -> i32 {{\n    match o {{\n{arms}        _ => 0,\n    }}\n}}\n")
                }
            }
        }
        // ---- long flat things: list items, parameters / arguments, record fields, statement chains
        _ => {
            n = pick_len(rng, false, max_nest);
            match rng.below(6) {
                0 => {
                    kind = "list-items".into();
                    let items: Vec<String> = (0..n).map(|i| if rng.bool() { format!("{i}") } else { "a0".to_string() }).collect();
                    format!("fn main(k: bool, a0: i32) -> List[i32] {{\n    [{}]\n}}\n", items.join(", "))
                }
                1 => {
                    kind = "parameters".into();
                    let ps: Vec<String> = (0..n).map(|i| format!("p{i}: i32")).collect();
                    let sum = join(rng, &(0..n).map(|i| format!("p{i}")).collect::<Vec<_>>(), &mut |_| "+".to_string(), "tree", true);
                    let args: Vec<String> = (0..n).map(|i| format!("{i}")).collect();
                    format!("fn f({}) -> i32 {{\n    {sum}\n}}\n\nfn main(k: bool) -> i32 {{\n    f({})\n}}\n", ps.join(", "), args.join(", "))
                }
                2 => {
                    kind = "record-fields".into();
                    let fs: Vec<String> = (0..n).map(|i| format!("f{i}: i32")).collect();
                    let vs: Vec<String> = (0..n).map(|i| format!("f{i}: {i}")).collect();
                    let named = rng.bool();
                    if named {
                        format!("record R {{ {} }}\n\nfn main(k: bool) -> i32 {{\n    let r = R {{ {} }};\n    r.f{}\n}}\n", fs.join(", "), vs.join(", "), n - 1)
                    } else {
                        format!("fn main(k: bool) -> i32 {{\n    let r = {{ {} }};\n    r.f{}\n}}\n", vs.join(", "), n - 1)
                    }
                }
                3 => {
                    kind = "let-chain".into();
                    let typed = rng.bool();
                    let mut b = String::from(if typed { "    let x0: i32 = a0;\n" } else { "    let x0 = 1;\n" });
                    for i in 1..n {
                        let rhs = match rng.below(4) {
                            0 => format!("x{} + 1", i - 1),
                            1 => format!("x{} + x{}", i - 1, i / 2),
                            2 => format!("if k {{ x{} }} else {{ x{} }}", i - 1, i / 2),
                            _ => format!("x{}", i - 1),
                        };
                        b.push_str(&format!("    let x{i} = {rhs};\n"));
                    }
                    format!("fn main(k: bool, a0: i32) -> i32 {{\n{b}    x{}\n}}\n", n - 1)
                }
                4 => {
                    kind = "function-chain".into();
                    let mut s = String::from("fn f0(x: i32) -> i32 { x }\n");
                    for i in 1..n {
                        s.push_str(&format!("fn f{i}(x: i32) -> i32 {{ f{}(x) + {i} }}\n", i - 1));
                    }
                    format!("{s}\nfn main(k: bool, a0: i32) -> i32 {{\n    f{}(a0)\n}}\n", n - 1)
                }
                _ => {
                    kind = "if-statements".into();
                    let mut b = String::from("    let x = a0;\n");
                    for i in 0..n {
                        b.push_str(&format!("    if x == {i} {{ x = x + 1; }}\n"));
                    }
                    format!("fn main(k: bool, a0: i32) -> i32 {{\n{b}    x\n}}\n")
                }
            }
        }
    };
    if files.is_empty() {
        files.push(("pkg".into(), src));
    }
    tags.insert(format!("chain:{kind}"));
    tags.insert(format!("chain-len:{n}"));
    tags.insert(format!("chain-paren:{style}"));
    if operand_style != "-" {
        tags.insert(format!("chain-operands:{operand_style}"));
    }
    Made {
        detail: format!("{kind} n={n} paren={style} operands={operand_style}"),
        hint: format!("totality/chains:{kind}"),
        tags: tags.into_iter().collect(),
        files,
    }
}
