//! C10: well-typed scripts and built-ins cannot kill the host process.
//!
//! Every case is one script + one input vector executed between a `begin` and an
//! `end` line, so a hardware trap or abort is attributed to exactly that case by
//! the driver (which then asks for `describe` to learn what was running).
//! The only oracle is survival (and for arithmetic: the wrapped result).

use roto::{NoCtx, Runtime};

use crate::jsonw::J;
use crate::rg::ast::{BinOp, Ty};
use crate::rg::interp::Interp;
use crate::rng::Rng;
use crate::val::{INT_TYS, IntTy, V};
use crate::work::{Args, CaseOut, Family, catch, hash_str, panic_sig};
use crate::{exec, host};

#[derive(Clone)]
struct Case {
    label: String,
    /// class of the input: becomes part of the signature when the worker dies
    hint: String,
    src: String,
    input: Vec<u64>,
    /// expected host-call log (only for arithmetic where the result is defined)
    expect: Option<String>,
}

pub struct Survive {
    rt: Runtime<NoCtx>,
    cases: Vec<Case>,
}

const EDGES: [i128; 8] = [i128::MIN, i128::MIN + 1, -1, 0, 1, 2, i128::MAX - 1, i128::MAX];

fn edge_values(t: IntTy) -> Vec<i128> {
    // MIN, MIN+1, -1, 0, 1, 2, MAX-1, MAX of the type (unsigned: -1 wraps to MAX)
    EDGES
        .iter()
        .map(|e| match *e {
            x if x == i128::MIN => t.min_v(),
            x if x == i128::MIN + 1 => t.min_v() + 1,
            x if x == i128::MAX => t.max_v(),
            x if x == i128::MAX - 1 => t.max_v() - 1,
            x => t.wrap(x),
        })
        .collect()
}

fn word_of(t: IntTy, v: i128) -> u64 {
    // conv::int_of truncates the word to the type's width
    let _ = t;
    v as i64 as u64
}

fn arith_cases(out: &mut Vec<Case>) {
    let ops = [
        (BinOp::Add, "+"),
        (BinOp::Sub, "-"),
        (BinOp::Mul, "*"),
        (BinOp::Div, "/"),
        (BinOp::Mod, "%"),
    ];
    for t in INT_TYS {
        let n = t.name();
        for (op, sym) in ops {
            let src = format!("fn main() {{\n    let a = in_{n}(0);\n    let b = in_{n}(1);\n    out_{n}(a {sym} b);\n    a {sym}= b;\n    out_{n}(a);\n}}\n");
            for a in edge_values(t) {
                for b in edge_values(t) {
                    let class = if matches!(op, BinOp::Div | BinOp::Mod) && b == 0 {
                        "zero-divisor"
                    } else if matches!(op, BinOp::Div | BinOp::Mod) && t.signed() && a == t.min_v() && b == -1 {
                        "min-by-minus-one"
                    } else {
                        "defined"
                    };
                    let hint = if class == "defined" {
                        format!("int-arith/{n}/{sym}")
                    } else {
                        format!("int-div-or-rem/{n}/{class}")
                    };
                    let expect = Interp::arith(op, &Ty::Int(t), &V::Int(t, a), &V::Int(t, b)).ok().map(|v| {
                        let s = v.show();
                        format!("in_{n}(0u32) ; in_{n}(1u32) ; out_{n}({s}) ; out_{n}({s})")
                    });
                    out.push(Case {
                        label: format!("{n}: {a} {sym} {b}"),
                        hint,
                        src: src.clone(),
                        input: vec![word_of(t, a), word_of(t, b)],
                        expect,
                    });
                }
            }
        }
        // unary minus and comparisons never trap
        if t.signed() {
            let src = format!("fn main() {{\n    out_{n}(-in_{n}(0));\n}}\n");
            for a in edge_values(t) {
                out.push(Case {
                    label: format!("{n}: -({a})"),
                    hint: format!("int-neg/{n}"),
                    src: src.clone(),
                    input: vec![word_of(t, a)],
                    expect: Some(format!("in_{n}(0u32) ; out_{n}({})", V::Int(t, t.wrap(-a)).show())),
                });
            }
        }
        let src = format!(
            "fn main() {{\n    let a = in_{n}(0);\n    let b = in_{n}(1);\n    out_bool(a < b);\n    out_bool(a <= b);\n    out_bool(a > b);\n    out_bool(a >= b);\n    out_bool(a == b);\n    out_bool(a != b);\n}}\n"
        );
        for a in edge_values(t) {
            for b in edge_values(t) {
                let e = [a < b, a <= b, a > b, a >= b, a == b, a != b];
                let mut s = format!("in_{n}(0u32) ; in_{n}(1u32)");
                for x in e {
                    s.push_str(&format!(" ; out_bool({x})"));
                }
                out.push(Case {
                    label: format!("{n}: {a} cmp {b}"),
                    hint: format!("int-cmp/{n}"),
                    src: src.clone(),
                    input: vec![word_of(t, a), word_of(t, b)],
                    expect: Some(s),
                });
            }
        }
    }
    // float operators on the special values (words < 24 select conv::F64_SPECIAL / F32_SPECIAL)
    for f in ["f32", "f64"] {
        let src = format!(
            "fn main() {{\n    let a = in_{f}(0);\n    let b = in_{f}(1);\n    out_{f}(a + b);\n    out_{f}(a - b);\n    out_{f}(a * b);\n    out_{f}(a / b);\n    out_{f}(-a);\n    out_bool(a < b);\n    out_bool(a == b);\n}}\n"
        );
        for a in 0..22u64 {
            for b in 0..22u64 {
                out.push(Case {
                    label: format!("{f}: special#{a} ops special#{b}"),
                    hint: format!("float-arith/{f}"),
                    src: src.clone(),
                    input: vec![a, b],
                    expect: None,
                });
            }
        }
    }
}

/// Built-ins applied to edge arguments (beyond indices, huge counts, every prefix
/// length 0..=255). Only survival is checked here; C17 checks the values.
fn builtin_cases(out: &mut Vec<Case>) {
    let idx: [u64; 9] = [0, 1, 2, 3, 7, 8, 1 << 32, u64::MAX - 1, u64::MAX];
    let strs: [u64; 8] = [0, 1, 2, 4, 5, 6, 8, 10]; // indices into conv::STRS: "", "a", "abc", "é", "Straße", "東京", "line1\nline2\n", "𝄞𝄞"
    let mut push = |label: &str, hint: &str, src: String, input: Vec<u64>| {
        out.push(Case { label: label.to_string(), hint: hint.to_string(), src, input, expect: None });
    };
    // string views: get / slice with arbitrary indices
    for view in ["bytes", "chars", "lines"] {
        let src = format!(
            "fn main() {{\n    let s = in_str(0);\n    let i = in_u64(1);\n    let j = in_u64(2);\n    match s.{view}().get(i) {{ Some(c) => out_char(c), None => out_unit() }}\n    match s.{view}().slice(i, j) {{ Some(t) => out_str(t), None => out_unit() }}\n    out_u64(s.{view}().len());\n}}\n"
        );
        for s in strs {
            for i in idx {
                for j in [0u64, 1, 3, u64::MAX] {
                    push(
                        &format!("String.{view}() get/slice str#{s} i={i} j={j}"),
                        &format!("builtin/String.{view}/index"),
                        src.clone(),
                        vec![s, i, j],
                    );
                }
            }
        }
    }
    // repeat / splitn / rsplitn with counts (kept below the documented memory limit)
    let src = "fn main() {\n    let s = in_str(0);\n    let n = in_u64(1);\n    out_u64(s.repeat(n).bytes().len());\n    out_u64(s.splitn(n, \"a\").len());\n    out_u64(s.rsplitn(n, \"\").len());\n}\n".to_string();
    for s in strs {
        for n in [0u64, 1, 2, 5, 1000, 65536] {
            push(&format!("repeat/splitn str#{s} n={n}"), "builtin/String/count", src.clone(), vec![s, n]);
        }
    }
    // other string methods on every sample string
    let src = "fn main() {\n    let s = in_str(0);\n    let t = in_str(1);\n    out_bool(s.contains(t));\n    out_bool(s.starts_with(t));\n    out_bool(s.ends_with(t));\n    out_str(s.to_lowercase());\n    out_str(s.to_uppercase());\n    out_str(s.replace(t, s));\n    out_u64(s.split(t).len());\n    out_str(s.trim());\n    out_str(s.trim_start());\n    out_str(s.trim_end());\n    match s.strip_prefix(t) { Some(x) => out_str(x), None => out_unit() }\n    match s.strip_suffix(t) { Some(x) => out_str(x), None => out_unit() }\n    out_str(s + t);\n    out_str(String.from_chars(s.chars().list()));\n    out_u64(s.bytes().list().len());\n    out_u64(s.lines().list().len());\n}\n".to_string();
    for s in 0..16u64 {
        for t in [0u64, 1, 4, 7, 9, 11] {
            push(&format!("String methods str#{s} str#{t}"), "builtin/String/methods", src.clone(), vec![s, t]);
        }
    }
    // list methods with arbitrary indices on empty / non-empty lists of several element types
    for (ety, mk) in [("u64", "in_u64(3)"), ("String", "in_str(3)"), ("u8", "in_u8(3)"), ("Trk", "mk(1)")] {
        let src = format!(
            "fn main() {{\n    let l: List[{ety}] = [];\n    let n = in_u64(0);\n    let c = 0u64;\n    while c < n {{ l.push({mk}); c = c + 1; }}\n    let i = in_u64(1);\n    let j = in_u64(2);\n    match l.get(i) {{ Some(x) => out_unit(), None => out_unit() }}\n    l.swap(i, j);\n    out_u64(l.len());\n    out_bool(l.is_empty());\n    let m = l + l;\n    out_u64(m.len());\n    out_bool(m.capacity() >= m.len());\n}}\n"
        );
        for n in [0u64, 1, 4, 5, 9] {
            for i in idx {
                for j in [0u64, n, u64::MAX] {
                    push(
                        &format!("List[{ety}] len={n} get/swap i={i} j={j}"),
                        &format!("builtin/List[{ety}]/index"),
                        src.clone(),
                        vec![n, i, j, 7],
                    );
                }
            }
        }
    }
    // two lists of every pair of lengths (each a prefix of the other): ==, !=, contains /
    // index with present and absent needles, concat, iteration; flat and nested
    for (ety, mk) in [("u64", "c"), ("String", "f\"s{c}\""), ("u8", "in_u8(3)"), ("Trk", "mk(1)")] {
        let src = format!(
            "fn main() {{\n    let a: List[{ety}] = [];\n    let b: List[{ety}] = [];\n    let n = in_u64(0);\n    let m = in_u64(1);\n    let c = 0u64;\n    while c < n {{ a.push({mk}); c = c + 1; }}\n    c = 0;\n    while c < m {{ b.push({mk}); c = c + 1; }}\n    out_bool(a == b);\n    out_bool(a != b);\n    out_bool(b == a);\n    out_bool(a == a);\n    let aa = [a, b];\n    let bb = [b, a];\n    out_bool(aa == bb);\n    out_bool(aa != [a]);\n    out_bool(aa.contains(a));\n    out_bool(aa.contains(b));\n    out_bool([b].contains(a));\n    match [b, b].index(a) {{ Some(i) => out_u64(i), None => out_unit() }}\n    match aa.index(b) {{ Some(i) => out_u64(i), None => out_unit() }}\n    out_u64(a.concat(b).len());\n    out_u64((b + a).len());\n    let k = 0u64;\n    for x in a {{ if b.contains(x) {{ k = k + 1; }} }}\n    out_u64(k);\n    match b.index({mk}) {{ Some(i) => out_u64(i), None => out_unit() }}\n}}\n"
        );
        for n in [0u64, 1, 2, 3, 4, 5, 8, 9] {
            for m in [0u64, 1, 2, 3, 4, 5, 8, 9] {
                push(
                    &format!("List[{ety}] pair len={n} len={m} ==/contains/index/concat"),
                    &format!("builtin/List[{ety}]/pair"),
                    src.clone(),
                    vec![n, m, 0, 7],
                );
            }
        }
    }
    // prefixes: every length 0..=255 for both families, through Prefix.new and `/`
    for (fam, addr) in [("v4", "1.2.3.4"), ("v6", "2001:db8::1")] {
        let src_new = format!("fn main() {{\n    let p = Prefix.new({addr}, in_u8(0));\n    out_u8(p.len());\n}}\n");
        let src_div = format!("fn main() {{\n    let p = {addr} / in_u8(0);\n    out_u8(p.len());\n}}\n");
        let max = if fam == "v4" { 32 } else { 128 };
        for len in 0..=255u64 {
            let class = if len <= max { "valid-length" } else { "length-above-family-max" };
            push(&format!("Prefix.new({addr}, {len})"), &format!("builtin/Prefix.new/{fam}/{class}"), src_new.clone(), vec![len]);
            push(&format!("{addr} / {len}"), &format!("builtin/ip-slash-len/{fam}/{class}"), src_div.clone(), vec![len]);
        }
    }
    // float methods on special values
    for f in ["f32", "f64"] {
        let src = format!(
            "fn main() {{\n    let a = in_{f}(0);\n    let b = in_{f}(1);\n    out_{f}(a.floor());\n    out_{f}(a.ceil());\n    out_{f}(a.round());\n    out_{f}(a.abs());\n    out_{f}(a.sqrt());\n    out_{f}(a.pow(b));\n    out_bool(a.is_nan());\n    out_bool(a.is_infinite());\n    out_bool(a.is_finite());\n    out_str(a.to_string());\n}}\n"
        );
        for a in 0..22u64 {
            for b in [0u64, 2, 9, 17, 19] {
                push(&format!("{f} methods special#{a} special#{b}"), &format!("builtin/{f}/methods"), src.clone(), vec![a, b]);
            }
        }
    }
    // StringBuf
    let src = "fn main() {\n    let b = StringBuf.new();\n    let n = in_u64(0);\n    let c = 0u64;\n    while c < n { b.push_string(in_str(1)); b.push_char(in_char(2)); c = c + 1; }\n    out_u64(b.as_string().bytes().len());\n    let d = StringBuf.from(in_str(1));\n    out_str(d.as_string());\n}\n".to_string();
    for n in [0u64, 1, 3, 100] {
        for s in [0u64, 4, 10] {
            for c in 0..16u64 {
                push(&format!("StringBuf n={n} str#{s} char#{c}"), "builtin/StringBuf", src.clone(), vec![n, s, c]);
            }
        }
    }
    // to_string / f-strings of every primitive at its edges
    for t in INT_TYS {
        let n = t.name();
        let src = format!("fn main() {{\n    let a = in_{n}(0);\n    out_str(a.to_string());\n    out_str(f\"{{a}}\");\n}}\n");
        for a in edge_values(t) {
            push(&format!("{n}.to_string({a})"), &format!("builtin/{n}.to_string"), src.clone(), vec![word_of(t, a)]);
        }
    }
    let src = "fn main() {\n    out_str(in_bool(0).to_string());\n    out_str(in_char(1).to_string());\n    out_str(f\"{in_bool(0)}{in_char(1)}\");\n}\n".to_string();
    for b in 0..2u64 {
        for c in 0..16u64 {
            push(&format!("bool/char to_string {b} char#{c}"), "builtin/bool-char.to_string", src.clone(), vec![b, c]);
        }
    }
}

impl Survive {
    pub fn new(_args: &Args) -> Survive {
        let mut cases = Vec::new();
        arith_cases(&mut cases);
        builtin_cases(&mut cases);
        Survive { rt: host::runtime(), cases }
    }
}

impl Family for Survive {
    fn n_cases(&self, _args: &Args) -> u64 {
        self.cases.len() as u64
    }

    fn describe(&mut self, k: u64, _rng: &mut Rng, _args: &Args) -> Option<J> {
        let c = self.cases.get(k as usize)?;
        Some(
            J::obj()
                .set("label", c.label.as_str())
                .set("sig_hint", c.hint.as_str())
                .set("source", c.src.as_str())
                .set("input", J::Arr(c.input.iter().map(|w| J::Str(format!("{w:#x}"))).collect())),
        )
    }

    fn run(&mut self, k: u64, _rng: &mut Rng, _args: &Args) -> CaseOut {
        let mut out = CaseOut::default();
        let Some(c) = self.cases.get(k as usize).cloned() else {
            out.skipped = Some("out-of-range".into());
            return out;
        };
        out.hash = hash_str(&format!("{}|{:?}", c.src, c.input));
        out.nontrivial = true;
        out.tags.push(format!("class:{}", c.hint));
        out.sample = Some(J::obj().set("label", c.label.as_str()).set("source", c.src.as_str()));
        let rt = &self.rt;
        let compiled = catch(|| exec::compile(&c.src, rt));
        let mut pkg = match compiled {
            Err(p) => {
                out.viol(format!("compile-{}@{}", panic_sig(&p), c.hint), p, J::obj().set("label", c.label.as_str()));
                return out;
            }
            Ok(Err(rep)) => {
                // the scripts are written by hand against the documented built-ins:
                // a rejection is a harness problem, not a finding of this property
                out.skipped = Some(format!("script-rejected:{}", rep.lines().nth(0).unwrap_or("")));
                out.nontrivial = false;
                out.tags.push(format!("rejected:{}", c.hint));
                return out;
            }
            Ok(Ok(p)) => p,
        };
        let f = match exec::get_main(&mut pkg, "main", &Ty::Unit) {
            Ok(f) => f,
            Err(e) => {
                out.skipped = Some(format!("no-main:{e}"));
                return out;
            }
        };
        host::set_input(&c.input);
        host::ledger_reset();
        host::log_clear();
        f.call();
        let log = host::log_take();
        out.evals = 1;
        out.events = log.len() as u64;
        if let Some(exp) = &c.expect {
            let got: Vec<String> = log.iter().map(|e| e.show()).collect();
            let got = got.join(" ; ");
            if got != *exp {
                out.viol(
                    format!("wrong-result@{}", c.hint),
                    format!("{}: expected log [{exp}] got [{got}]", c.label),
                    J::obj().set("label", c.label.as_str()),
                );
            }
        }
        out
    }
}
