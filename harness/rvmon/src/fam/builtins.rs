//! C17 — every built-in of the default runtime returns what its documentation
//! says, i.e. the value of the corresponding std / inetnum operation.
//!
//! One *probe* per built-in: a tiny Roto wrapper with a concrete signature
//! (compiled once per worker), an argument generator, an argument classifier
//! and a one-line oracle naming the documented counterpart. The built-ins are
//! enumerated at run time (`Runtime::print_documentation` is the only public
//! API that yields names and signatures; `Runtime::functions().len()` is used
//! as a cross-check), so that an added built-in shows up as `uncovered:<name>`.

use std::collections::{BTreeMap, BTreeSet};
use std::net::{IpAddr, Ipv4Addr, Ipv6Addr};

use inetnum::{addr::Prefix, asn::Asn};
use roto::{List, NoCtx, Package, RotoString, Runtime, Value};

use crate::exec;
use crate::jsonw::J;
use crate::rng::Rng;
use crate::work::{Args, CaseOut, Family, catch, hash_str, panic_sig};

// ---------------------------------------------------------------------------
// harness values <-> roto values
// ---------------------------------------------------------------------------

pub trait Conv: Clone + 'static {
    type R: Value;
    fn to_r(&self) -> Self::R;
    fn from_r(r: Self::R) -> Self;
    fn show(&self) -> String;
    fn same(&self, o: &Self) -> bool;
}

macro_rules! conv_dbg {
    ($($t:ty),*) => {$(
        impl Conv for $t {
            type R = $t;
            fn to_r(&self) -> $t { *self }
            fn from_r(r: $t) -> $t { r }
            fn show(&self) -> String { format!("{:?}{}", self, stringify!($t)) }
            fn same(&self, o: &Self) -> bool { self == o }
        }
    )*};
}
conv_dbg!(u8, u16, u32, u64, i8, i16, i32, i64);

macro_rules! conv_plain {
    ($($t:ty : $f:literal),*) => {$(
        impl Conv for $t {
            type R = $t;
            fn to_r(&self) -> $t { *self }
            fn from_r(r: $t) -> $t { r }
            fn show(&self) -> String { format!($f, self) }
            fn same(&self, o: &Self) -> bool { self == o }
        }
    )*};
}
conv_plain!(bool: "{:?}", char: "{:?}", IpAddr: "{}", Prefix: "{}", Asn: "{}");

impl Conv for () {
    type R = ();
    fn to_r(&self) {}
    fn from_r(_: ()) {}
    fn show(&self) -> String {
        "()".into()
    }
    fn same(&self, _: &Self) -> bool {
        true
    }
}

impl Conv for f32 {
    type R = f32;
    fn to_r(&self) -> f32 {
        *self
    }
    fn from_r(r: f32) -> f32 {
        r
    }
    fn show(&self) -> String {
        format!("{:?}f32[{:#010x}]", self, self.to_bits())
    }
    fn same(&self, o: &Self) -> bool {
        (self.is_nan() && o.is_nan()) || self.to_bits() == o.to_bits()
    }
}

impl Conv for f64 {
    type R = f64;
    fn to_r(&self) -> f64 {
        *self
    }
    fn from_r(r: f64) -> f64 {
        r
    }
    fn show(&self) -> String {
        format!("{:?}f64[{:#018x}]", self, self.to_bits())
    }
    fn same(&self, o: &Self) -> bool {
        (self.is_nan() && o.is_nan()) || self.to_bits() == o.to_bits()
    }
}

fn show_str(s: &str) -> String {
    if s.len() <= 80 {
        format!("{s:?}")
    } else {
        let mut cut = 60;
        while !s.is_char_boundary(cut) {
            cut -= 1;
        }
        format!("{:?}..<{} bytes, h={:x}>", &s[..cut], s.len(), hash_str(s))
    }
}

impl Conv for String {
    type R = RotoString;
    fn to_r(&self) -> RotoString {
        RotoString::from(self.as_str())
    }
    fn from_r(r: RotoString) -> String {
        let s: &str = r.as_ref();
        s.to_owned()
    }
    fn show(&self) -> String {
        show_str(self)
    }
    fn same(&self, o: &Self) -> bool {
        self == o
    }
}

impl<T: Conv> Conv for Option<T> {
    type R = Option<T::R>;
    fn to_r(&self) -> Self::R {
        self.as_ref().map(|x| x.to_r())
    }
    fn from_r(r: Self::R) -> Self {
        r.map(T::from_r)
    }
    fn show(&self) -> String {
        match self {
            Some(x) => format!("Some({})", x.show()),
            None => "None".into(),
        }
    }
    fn same(&self, o: &Self) -> bool {
        match (self, o) {
            (Some(a), Some(b)) => a.same(b),
            (None, None) => true,
            _ => false,
        }
    }
}

macro_rules! conv_vec {
    ($($t:ty),*) => {$(
        impl Conv for Vec<$t> {
            type R = List<<$t as Conv>::R>;
            fn to_r(&self) -> Self::R {
                let l = List::new();
                for x in self {
                    l.push(x.to_r());
                }
                l
            }
            fn from_r(r: Self::R) -> Self {
                r.to_vec().into_iter().map(<$t as Conv>::from_r).collect()
            }
            fn show(&self) -> String {
                let mut s = String::from("[");
                for (i, x) in self.iter().enumerate() {
                    if i > 0 {
                        s.push_str(", ");
                    }
                    if i >= 24 {
                        s.push_str(&format!("..<{} items>", self.len()));
                        break;
                    }
                    s.push_str(&x.show());
                }
                s.push(']');
                s
            }
            fn same(&self, o: &Self) -> bool {
                self.len() == o.len() && self.iter().zip(o).all(|(a, b)| a.same(b))
            }
        }
    )*};
}
conv_vec!(u8, u64, char, String, Vec<u64>, Vec<String>);

/// Argument tuples
pub trait ArgT: Clone + 'static {
    fn show(&self) -> String;
}
impl ArgT for () {
    fn show(&self) -> String {
        "()".into()
    }
}
macro_rules! argt {
    ($($n:tt : $t:ident),+) => {
        impl<$($t: Conv),+> ArgT for ($($t,)+) {
            fn show(&self) -> String {
                let v: Vec<String> = vec![$(self.$n.show()),+];
                format!("({})", v.join(", "))
            }
        }
    };
}
argt!(0: A);
argt!(0: A, 1: B);
argt!(0: A, 1: B, 2: C);
argt!(0: A, 1: B, 2: C, 3: D);

// ---------------------------------------------------------------------------
// probes
// ---------------------------------------------------------------------------

pub enum Exp<R> {
    /// the documented value
    Is(R),
    /// the documentation does not determine the value for this class of arguments
    Unspec(&'static str),
}

type Call<A, R> = Box<dyn Fn(&A) -> R>;
type Bind<A, R> = fn(&mut Package<NoCtx>) -> Result<Call<A, R>, String>;

pub struct P<A: ArgT, R: Conv> {
    /// runtime names of the built-ins exercised; the first one is the one under test
    names: &'static [&'static str],
    /// `/variant` suffix distinguishing several probes of one built-in
    variant: &'static str,
    /// wrapper sources, tried in order (all with the same Rust signature)
    srcs: &'static [&'static str],
    gen_: fn(&mut G) -> Vec<A>,
    class: fn(&A) -> String,
    oracle: fn(&A) -> Exp<R>,
    /// recognise a known wrong behaviour from (arguments, result) and name it
    diag: fn(&A, &R) -> Option<&'static str>,
    bind: Bind<A, R>,
    st: Option<Result<(Call<A, R>, usize), String>>,
}

pub trait Probe {
    fn names(&self) -> &'static [&'static str];
    fn label(&self) -> String;
    fn srcs(&self) -> &'static [&'static str];
    fn run(&mut self, rt: &Runtime<NoCtx>, g: &mut G, out: &mut CaseOut);
}

/// `String.lines.get` rather than `StringLines.get` in signatures
fn signame(n: &str) -> String {
    for (a, b) in [("StringLines.", "String.lines."), ("StringBytes.", "String.bytes."), ("StringChars.", "String.chars.")] {
        if let Some(r) = n.strip_prefix(a) {
            return format!("{b}{r}");
        }
    }
    n.to_string()
}

impl<A: ArgT, R: Conv> Probe for P<A, R> {
    fn names(&self) -> &'static [&'static str] {
        self.names
    }
    fn label(&self) -> String {
        format!("{}{}", self.names[0], self.variant)
    }
    fn srcs(&self) -> &'static [&'static str] {
        self.srcs
    }

    fn run(&mut self, rt: &Runtime<NoCtx>, g: &mut G, out: &mut CaseOut) {
        let label = self.label();
        if self.st.is_none() {
            let mut last = String::new();
            let mut ok = None;
            for (i, src) in self.srcs.iter().enumerate() {
                match exec::compile(src, rt) {
                    Err(e) => last = e,
                    Ok(mut pkg) => match (self.bind)(&mut pkg) {
                        Ok(c) => {
                            ok = Some((c, i));
                            break;
                        }
                        Err(e) => last = e,
                    },
                }
            }
            self.st = Some(ok.ok_or(last));
        }
        let (call, src_i) = match self.st.as_ref().unwrap() {
            Ok((c, i)) => (c, *i),
            Err(e) => {
                out.tags.push(format!("uncovered:{}:wrapper-rejected", self.names[0]));
                out.skipped = Some(format!("wrapper for {label} is rejected: {}", e.lines().take(6).collect::<Vec<_>>().join(" | ")));
                return;
            }
        };
        for n in self.names {
            out.tags.push(format!("builtin:{n}"));
        }
        out.tags.push(format!("probe:{label}"));
        for (n, c) in NOT_DETERMINED {
            if *n == self.names[0] {
                out.tags.push(format!("unspecified:{n}:{c}"));
            }
        }
        if src_i > 0 {
            out.tags.push(format!("wrapper-alt:{label}:{src_i}"));
        }
        let batch = (self.gen_)(g);
        let mut tags: BTreeSet<String> = BTreeSet::new();
        let mut samples: Vec<J> = Vec::new();
        let mut per_sig: BTreeMap<String, u64> = BTreeMap::new();
        let mut h = hash_str(&label);
        for a in &batch {
            let shown = a.show();
            h = h.rotate_left(5) ^ hash_str(&shown);
            let cl = (self.class)(a);
            tags.insert(format!("arg:{cl}"));
            let exp = match (self.oracle)(a) {
                Exp::Unspec(c) => {
                    tags.insert(format!("unspecified:{}:{c}", signame(self.names[0])));
                    continue;
                }
                Exp::Is(e) => e,
            };
            let got = call(a);
            out.evals += 1;
            out.events += 1;
            if exp.same(&got) {
                if samples.len() < 3 {
                    samples.push(J::obj().set("args", shown).set("result", got.show()));
                }
                continue;
            }
            let cls = match (self.diag)(a, &got) {
                Some(d) => d.to_string(),
                None => cl,
            };
            let sig = format!("builtin:{}@{cls}", signame(&label));
            let n = per_sig.entry(sig.clone()).or_insert(0);
            *n += 1;
            if *n == 1 {
                out.viol(
                    sig,
                    format!("{label}{shown}: documented {} got {}", exp.show(), got.show()),
                    J::obj()
                        .set("builtin", self.names[0])
                        .set("wrapper", self.srcs[src_i])
                        .set("args", shown)
                        .set("expected", exp.show())
                        .set("got", got.show()),
                );
            }
        }
        for (sig, n) in &per_sig {
            out.count(&format!("mismatch:{sig}"), *n);
        }
        out.tags.extend(tags);
        out.hash = h;
        out.nontrivial = out.events > 0;
        out.sample = Some(
            J::obj()
                .set("builtin", label.as_str())
                .set("wrapper", self.srcs[src_i])
                .set("tuples", batch.len() as u64)
                .set("first", J::Arr(samples)),
        );
    }
}

/// `bind!((a: String, i: u64) -> Option<char>)`: fetch `f` under the concrete
/// Rust signature and wrap it into a closure over harness values.
macro_rules! bind {
    (($($a:ident : $t:ty),*) -> $r:ty) => {{
        fn b(pkg: &mut Package<NoCtx>) -> Result<Call<($($t,)*), $r>, String> {
            let f = pkg
                .get_function::<fn($(<$t as Conv>::R),*) -> <$r as Conv>::R>("f")
                .map_err(|e| format!("{e}"))?;
            Ok(Box::new(move |args: &($($t,)*)| {
                #[allow(unused_variables)]
                let ($($a,)*) = args;
                <$r as Conv>::from_r(f.call($($a.to_r()),*))
            }))
        }
        b as Bind<($($t,)*), $r>
    }};
}

fn no_diag<A, R>(_: &A, _: &R) -> Option<&'static str> {
    None
}

macro_rules! probe {
    ($v:expr, $names:expr, $variant:expr, $srcs:expr, ($($a:ident : $t:ty),*) -> $r:ty,
     gen: $gen:expr, class: $class:expr, oracle: $oracle:expr $(, diag: $diag:expr)? $(,)?) => {{
        #[allow(unused_mut, unused_assignments)]
        let mut diag: fn(&($($t,)*), &$r) -> Option<&'static str> = no_diag;
        $( diag = $diag; )?
        $v.push(Box::new(P::<($($t,)*), $r> {
            names: $names,
            variant: $variant,
            srcs: $srcs,
            gen_: $gen,
            class: $class,
            oracle: $oracle,
            diag,
            bind: bind!(($($a: $t),*) -> $r),
            st: None,
        }) as Box<dyn Probe>);
    }};
}

// ---------------------------------------------------------------------------
// argument generators
// ---------------------------------------------------------------------------

pub struct G<'a> {
    pub rng: &'a mut Rng,
    /// round 0 replays the curated edge list, later rounds are random
    pub round: u64,
    pub thorough: bool,
}

const ASCII: &[&str] = &["a", "b", "c", "A", "Z", "0", "9", " ", "_", "-", ",", "!", "x", "X"];
const MB2: &[&str] = &["é", "ñ", "ß", "Σ", "σ", "ς", "Ö", "ǅ", "İ", "\u{a0}", "\u{85}"];
const MB3: &[&str] = &["€", "你", "→", "ﬁ", "ẞ", "\u{2003}", "\u{2028}", "\u{3000}", "\u{feff}", "\u{200b}"];
const MB4: &[&str] = &["😀", "𝄞", "𐍈", "🎉", "𐐀"];
const COMB: &[&str] = &["e\u{301}", "a\u{308}\u{323}", "\u{301}", "👩\u{200d}💻", "🇳🇱"];
const NL: &[&str] = &["\n", "\r\n", "\r", "\n\n", "\n\r"];
const WS: &[&str] = &[" ", "\t", "\u{b}", "\u{c}", "\u{a0}", "\u{2003}", "\u{3000}", "\u{85}", "\n", "\r", "\u{1680}"];
const SEPS: &[&str] = &[",", ", ", "\n", "\r\n", "X", "aa", "a", " ", "é", "😀", "ab", "!"];

pub const EDGE_STRS: &[&str] = &[
    "", "a", "abc", "hello world", "é", "aé", "éa", "€", "😀", "a😀b", "e\u{301}", "\n", "a\n", "a\nb", "a\nb\n",
    "\n\n", "a\n\nb", "a\r\nb", "a\r\nb\r\n", "\r", "a\r", "\r\n", "  x  ", "\u{3000}x\u{a0}", "\t\n x\u{85}", "ß", "İ",
    "ΣΑΣ", "σας", "ǅ", "ﬁ", "HeLLo", "aXbXc", "aaaa", "aabaa", ",a,,b,", "Rust!Roto!String", "1\n2\n3\n4",
    "1\n2\n3\n4\n", "1\n2\n3\n4\n\n", "👩\u{200d}💻", "é\n€\n😀", "\né",
];

impl G<'_> {
    fn atoms(&mut self, max_bytes: usize, w: &[u32; 7]) -> String {
        let groups: [&[&str]; 7] = [ASCII, MB2, MB3, MB4, COMB, NL, WS];
        let target = self.rng.usize(max_bytes + 1);
        let mut s = String::new();
        let mut tries = 0;
        while s.len() < target && tries < 64 {
            let gi = self.rng.weighted(w);
            let a = *self.rng.pick(groups[gi]);
            if s.len() + a.len() <= max_bytes {
                s.push_str(a);
            } else {
                tries += 1;
            }
        }
        s
    }

    /// at most 12 bytes
    pub fn short(&mut self) -> String {
        const W: [[u32; 7]; 6] = [
            [10, 0, 0, 0, 0, 0, 0],
            [6, 3, 3, 2, 1, 0, 0],
            [1, 4, 4, 4, 2, 0, 0],
            [5, 2, 1, 1, 0, 5, 0],
            [4, 1, 1, 0, 0, 1, 5],
            [3, 2, 2, 2, 2, 2, 2],
        ];
        if self.rng.chance(1, 12) {
            return String::new();
        }
        let w = *self.rng.pick(&W);
        self.atoms(12, &w)
    }

    pub fn long(&mut self) -> String {
        let n = 13 + self.rng.usize(300);
        let w = *self.rng.pick(&[[10, 0, 0, 0, 0, 1, 1], [4, 3, 3, 2, 1, 2, 1], [1, 3, 3, 3, 2, 1, 1]]);
        let mut s = self.atoms(n, &w);
        while s.len() < 13 {
            s.push('z');
        }
        s
    }

    pub fn lines(&mut self) -> String {
        let k = self.rng.usize(7);
        let mut s = String::new();
        for i in 0..k {
            let l = self.atoms(5, &[6, 2, 2, 1, 1, 0, 1]);
            s.push_str(&l);
            if self.rng.chance(1, 10) {
                s.push('\r');
            }
            if i + 1 < k || self.rng.bool() {
                s.push_str(if self.rng.chance(1, 3) { "\r\n" } else { "\n" });
            }
        }
        s
    }

    pub fn padded(&mut self) -> String {
        let mut s = String::new();
        for _ in 0..self.rng.usize(4) {
            s.push_str(*self.rng.pick(WS));
        }
        let core = self.atoms(8, &[5, 2, 2, 1, 1, 0, 2]);
        s.push_str(&core);
        for _ in 0..self.rng.usize(4) {
            s.push_str(*self.rng.pick(WS));
        }
        s
    }

    /// strings over a tiny alphabet: overlapping and adjacent matches
    pub fn ab(&mut self) -> String {
        let n = self.rng.usize(11);
        (0..n).map(|_| *self.rng.pick(&['a', 'a', 'b', ','])).collect()
    }

    pub fn string(&mut self) -> String {
        match self.rng.weighted(&[8, 3, 3, 2, 2, 1]) {
            0 => self.short(),
            1 => self.long(),
            2 => self.lines(),
            3 => self.padded(),
            4 => self.ab(),
            _ => self.rng.pick(EDGE_STRS).to_string(),
        }
    }

    /// a string related to `s`: empty, prefix, suffix, infix, whole, longer, unrelated
    pub fn related(&mut self, s: &str) -> String {
        let bounds: Vec<usize> = (0..=s.len()).filter(|i| s.is_char_boundary(*i)).collect();
        let b = |g: &mut Self| *g.rng.pick(&bounds);
        match self.rng.weighted(&[2, 3, 3, 4, 2, 2, 3, 4]) {
            0 => String::new(),
            1 => s[..b(self)].to_string(),
            2 => s[b(self)..].to_string(),
            3 => {
                let (x, y) = (b(self), b(self));
                s[x.min(y)..x.max(y)].to_string()
            }
            4 => s.to_string(),
            5 => format!("{s}{}", self.rng.pick(ASCII)),
            6 => self.short(),
            _ => self.rng.pick(SEPS).to_string(),
        }
    }

    /// deterministic relatives of `s` for round 0
    pub fn relatives(s: &str) -> Vec<String> {
        let mut v: Vec<String> = vec!["".into(), s.into(), format!("{s}a"), "a".into(), "\n".into(), ",".into(), "aa".into(), "X".into(), "é".into(), "!".into()];
        if let Some(c) = s.chars().next() {
            v.push(c.to_string());
            v.push(s[c.len_utf8()..].to_string());
        }
        if let Some(c) = s.chars().last() {
            v.push(c.to_string());
            v.push(s[..s.len() - c.len_utf8()].to_string());
        }
        let cs: Vec<char> = s.chars().collect();
        if cs.len() >= 3 {
            v.push(cs[1..cs.len() - 1].iter().collect());
            v.push(cs[1..2].iter().collect());
        }
        v.sort();
        v.dedup();
        v
    }

    /// indices around 0, `len` and beyond
    pub fn index(&mut self, len: usize) -> u64 {
        match self.rng.weighted(&[6, 3, 1]) {
            0 => self.rng.below(len as u64 + 3),
            1 => (len as u64 + self.rng.below(5)).saturating_sub(2),
            _ => *self.rng.pick(&HUGE),
        }
    }
}

pub const HUGE: [u64; 6] = [u64::MAX, u64::MAX - 1, 1 << 63, 1 << 32, (1 << 32) - 1, i64::MAX as u64];

fn sclass(s: &str) -> String {
    let mut c = if s.is_empty() {
        "empty"
    } else if s.is_ascii() {
        "ascii"
    } else {
        "multibyte"
    }
    .to_string();
    if s.contains('\n') {
        c.push_str(if s.ends_with('\n') { "+nl-terminated" } else { "+nl" });
    }
    if s.len() > 12 {
        c.push_str("+long");
    }
    c
}

fn irel(i: u64, len: usize) -> &'static str {
    let len = len as u64;
    if i >= 1 << 32 && i > len {
        "huge"
    } else if i < len {
        "<len"
    } else if i == len {
        "=len"
    } else {
        ">len"
    }
}

fn nclass(s: &str, n: &str) -> &'static str {
    if n.is_empty() {
        "empty"
    } else if s == n {
        "whole"
    } else if n.len() > s.len() {
        "longer"
    } else if s.starts_with(n) {
        "prefix"
    } else if s.ends_with(n) {
        "suffix"
    } else if s.contains(n) {
        "infix"
    } else {
        "absent"
    }
}

// ---------------------------------------------------------------------------
// the table
// ---------------------------------------------------------------------------

mod t_coll;
mod t_net;
mod t_num;
mod table;

/// Argument classes (or aspects of the result) that the documentation does not determine and
/// that are therefore never judged; reported as `unspecified:<builtin>:<class>` tags.
const NOT_DETERMINED: &[(&str, &str)] = &[
    // "Returns the capacity of the current allocation": only capacity >= len follows
    ("List.capacity", "exact-value"),
    // a result that cannot be allocated aborts the process: not a question of value
    ("String.repeat", "result-beyond-1MiB"),
    // a length beyond 32 / 128 aborts the process (unwrap in Prefix.new): another property
    ("Prefix.new", "invalid-length"),
];

/// Built-ins that deliberately have no probe, with the reason.
const NO_PROBE: &[(&str, &str)] = &[("print", "writes to stdout (the worker protocol channel) and returns nothing; only registered by add_io_functions")];

// ---------------------------------------------------------------------------
// run-time enumeration
// ---------------------------------------------------------------------------

#[derive(Clone, Debug)]
pub struct Item {
    pub kind: String,
    pub name: String,
    pub sig: String,
    /// the documentation text as generated by the runtime
    pub doc: String,
}

/// Documentation text per built-in, read from the runtime when the family starts; lets an
/// oracle follow the text the runtime actually documents (see `/as-documented` probes).
pub static DOCS: std::sync::OnceLock<BTreeMap<String, String>> = std::sync::OnceLock::new();

pub fn doc_of(name: &str) -> Option<&'static str> {
    DOCS.get().and_then(|m| m.get(name)).map(|s| s.as_str())
}

fn walk(dir: &std::path::Path, out: &mut Vec<Item>) {
    let Ok(rd) = std::fs::read_dir(dir) else { return };
    let mut ents: Vec<_> = rd.flatten().map(|e| e.path()).collect();
    ents.sort();
    for p in ents {
        if p.is_dir() {
            walk(&p, out);
            continue;
        }
        let Ok(text) = std::fs::read_to_string(&p) else { continue };
        let mut ty: Option<String> = None;
        // index of the item whose documentation lines are being read
        let mut open: Option<usize> = None;
        for l in text.lines() {
            if let Some(i) = open {
                if l.starts_with("````") {
                    open = None;
                } else {
                    out[i].doc.push_str(l);
                    out[i].doc.push('\n');
                }
                continue;
            }
            if let Some(h) = l.strip_prefix("# ") {
                let h = h.split('[').next().unwrap_or(h).trim();
                if h != "Standard Library" {
                    ty = Some(h.to_string());
                }
                continue;
            }
            if !l.starts_with("````") {
                continue;
            }
            let rest = l.trim_start_matches('`');
            let Some(rest) = rest.strip_prefix("{roto:") else { continue };
            let Some((kind, decl)) = rest.split_once("} ") else { continue };
            match kind {
                "method" | "function" => {
                    let name = decl.split('(').next().unwrap_or(decl).trim().to_string();
                    out.push(Item { kind: kind.into(), name, sig: decl.trim().to_string(), doc: String::new() });
                    open = Some(out.len() - 1);
                }
                "constant" => {
                    let ident = decl.split(':').next().unwrap_or(decl).trim();
                    let name = match &ty {
                        Some(t) => format!("{t}.{ident}"),
                        None => ident.to_string(),
                    };
                    out.push(Item { kind: kind.into(), name, sig: decl.trim().to_string(), doc: String::new() });
                    open = Some(out.len() - 1);
                }
                _ => {}
            }
        }
    }
}

/// (items, number of registered functions)
fn enumerate(rt: &Runtime<NoCtx>) -> Result<(Vec<Item>, usize), String> {
    let nf = rt.functions().len();
    let dir = std::env::temp_dir().join(format!("rvmon-builtins-{}", std::process::id()));
    let _ = std::fs::remove_dir_all(&dir);
    let r = catch(|| rt.print_documentation(&dir));
    let mut items = Vec::new();
    walk(&dir, &mut items);
    let _ = std::fs::remove_dir_all(&dir);
    match r {
        Err(p) => Err(format!("print_documentation panicked: {p}")),
        Ok(Err(e)) => Err(format!("print_documentation: {e}")),
        Ok(Ok(())) => Ok((items, nf)),
    }
}

// ---------------------------------------------------------------------------
// the family
// ---------------------------------------------------------------------------

enum Entry {
    Probe(usize),
    /// a built-in without a probe: (name, reason)
    Uncovered(String, String),
}

pub struct Builtins {
    rt: Runtime<NoCtx>,
    probes: Vec<Box<dyn Probe>>,
    entries: Vec<Entry>,
    items: Vec<Item>,
}

impl Builtins {
    pub fn new(args: &Args) -> Builtins {
        #[allow(unused_mut)]
        let mut rt = Runtime::new();
        if args.flag("io") {
            // self-test of the enumeration: `print` must show up as uncovered
            rt.add_io_functions();
        }
        let mut probes = table::all();
        if let Some(only) = args.opt("builtin") {
            probes.retain(|p| p.label() == only || p.names()[0] == only);
        }
        let mut entries: Vec<Entry> = (0..probes.len()).map(Entry::Probe).collect();
        let mut items = Vec::new();
        let filtered = args.opt("builtin").is_some();
        {
            let covered: BTreeSet<&str> = probes.iter().flat_map(|p| p.names().iter().copied()).collect();
            match enumerate(&rt) {
                Err(e) => entries.push(Entry::Uncovered("<enumeration>".into(), e)),
                Ok((its, _)) if filtered => {
                    let _ = DOCS.set(its.iter().map(|i| (i.name.clone(), i.doc.clone())).collect());
                    items = its;
                }
                Ok((its, nf)) => {
                    let nfun = its.iter().filter(|i| i.kind != "constant").count();
                    if nfun != nf {
                        entries.push(Entry::Uncovered(
                            "<count>".into(),
                            format!("Runtime::functions() has {nf} entries, the generated documentation lists {nfun}"),
                        ));
                    }
                    for it in &its {
                        if !covered.contains(it.name.as_str()) {
                            let why = NO_PROBE.iter().find(|(n, _)| *n == it.name).map(|(_, w)| *w).unwrap_or("no oracle in the table");
                            entries.push(Entry::Uncovered(it.name.clone(), format!("{why}: {}", it.sig)));
                        }
                    }
                    let known: BTreeSet<&str> = its.iter().map(|i| i.name.as_str()).collect();
                    for n in &covered {
                        if !known.contains(n) {
                            entries.push(Entry::Uncovered(format!("<stale>{n}"), "the table names a built-in that the runtime does not list".into()));
                        }
                    }
                    let _ = DOCS.set(its.iter().map(|i| (i.name.clone(), i.doc.clone())).collect());
                    items = its;
                }
            }
        }
        Builtins { rt, probes, entries, items }
    }

    fn rounds(args: &Args) -> u64 {
        if let Some(r) = args.opt("rounds").and_then(|r| r.parse().ok()) {
            return r;
        }
        if args.thorough() { 1000 } else { 40 }
    }
}

impl Family for Builtins {
    fn n_cases(&self, args: &Args) -> u64 {
        self.entries.len() as u64 * Self::rounds(args)
    }

    fn describe(&mut self, k: u64, _rng: &mut Rng, _args: &Args) -> Option<J> {
        let n = self.entries.len().max(1) as u64;
        Some(match &self.entries[(k % n) as usize] {
            Entry::Probe(i) => {
                let p = &self.probes[*i];
                J::obj().set("builtin", p.label()).set("round", k / n).set("wrapper", p.srcs()[0]).set("sig_hint", format!("builtin/{}", p.label()))
            }
            Entry::Uncovered(name, why) => J::obj().set("uncovered", name.as_str()).set("reason", why.as_str()),
        })
    }

    fn run(&mut self, k: u64, rng: &mut Rng, args: &Args) -> CaseOut {
        let mut out = CaseOut::default();
        if self.entries.is_empty() {
            out.skipped = Some("no such built-in".into());
            return out;
        }
        let n = self.entries.len() as u64;
        let round = k / n;
        match &self.entries[(k % n) as usize] {
            Entry::Uncovered(name, why) => {
                out.tags.push(format!("uncovered:{name}"));
                out.hash = hash_str(&format!("uncovered:{name}"));
                out.skipped = Some(format!("built-in {name} has no probe: {why}"));
                out.keep_sample = round == 0;
                out.sample = Some(J::obj().set("uncovered", name.as_str()).set("reason", why.as_str()));
            }
            Entry::Probe(i) => {
                let p = &mut self.probes[*i];
                let rt = &self.rt;
                let thorough = args.thorough();
                let label = p.label();
                let r = catch(|| {
                    let mut g = G { rng, round, thorough };
                    p.run(rt, &mut g, &mut out);
                });
                if let Err(msg) = r {
                    if msg.starts_with("/repo/") || msg.starts_with("src/") {
                        out.viol(
                            format!("builtin:{}@{}", signame(&label), panic_sig(&msg)),
                            format!("{label}: panic {msg}"),
                            J::obj().set("builtin", label.as_str()),
                        );
                    } else {
                        out.skipped = Some(format!("harness panic in {label}: {msg}"));
                    }
                }
                if round == 0
                    && let Some(it) = self.items.iter().find(|it| it.name == self.probes[*i].names()[0])
                    && let Some(s) = &mut out.sample
                {
                    s.put("documented-signature", it.sig.as_str());
                }
            }
        }
        out
    }
}
