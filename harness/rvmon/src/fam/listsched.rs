//! C16 — concurrent operations on one list are linearizable w.r.t. the shared-vector
//! model, no element is read through a pointer whose storage another thread's push
//! relocated / freed, and no interleaving deadlocks.
//!
//! Family `list-sched`: a stateless-exploration controlled scheduler over the REAL
//! `roto::List` code, driven through the `verif-hooks` list hook of roto
//! (`roto::verif::set_list_hook`).
//!
//! How it works
//! ------------
//! * Worker threads T0..Tn-1 execute fixed short programs on shared lists `a` and `b`
//!   (every thread owns clones of both handles made before the threads start).
//! * The hook callback runs on the thread that performs the list operation. A thread
//!   PARKS inside the callback at two kinds of points:
//!     - `BeforeLock` (immediately before every `mutex.lock()` of a SHARED list): the
//!       point is *enabled* iff the probe `is_free()` says the mutex is free. The probe
//!       is only evaluated while every controlled thread is parked or finished, so the
//!       answer cannot change before the chosen thread really locks.
//!     - `PointerEscaped` (between the lookup of an element pointer under the lock and
//!       its use without the lock): always enabled.
//!   Exactly one controlled thread runs at any time. All scheduler state lives under
//!   one mutex (`SCHED`). When the running thread parks or finishes, nobody runs; at
//!   that moment the scheduling decision (`decide`) is taken under the mutex — on the
//!   thread that just parked / finished, which saves two context switches per step —:
//!   it computes the enabled set, picks one thread according to the schedule prefix /
//!   policy, marks it `Running` and unparks it (or simply continues if it picked
//!   itself). Everybody else stays blocked in `std::thread::park()` and re-checks its
//!   state under the mutex after a wake-up. A thread released at `BeforeLock` then
//!   really calls `lock()`, which succeeds at once: the mutex was free and nobody else
//!   runs. The family's `run` (worker main thread, `run_schedule`) sets a schedule up,
//!   starts the threads one at a time up to their first hook point, then only waits for
//!   the outcome (with the watchdog) and collects the results.
//! * Granularity. Lock RELEASE is not a separate yield point: after a release a thread
//!   only executes thread-local code until its next hook point — the one exception, the
//!   use of an escaped element pointer, has its own point (`PointerEscaped`). Moving a
//!   thread-local step across other threads' steps does not change any result, so
//!   parking at `BeforeLock` + `PointerEscaped` explores every interleaving at
//!   lock-acquisition / lock-release granularity. For the same reason a lock of a list
//!   that no other thread can reach (the fresh result list inside `concat`, its
//!   `to_vec`) is a thread-local step and is not a park point (`--full-points 1` parks
//!   there as well; same verdicts, more schedules).
//! * Monitors: (1) deadlock = nobody runs, somebody is unfinished, enabled set empty;
//!   (2) stale pointer = a `BufferReleased{addr,bytes}` whose range contains an element
//!   pointer that escaped and is not yet `PointerDone` (decided inside the hook under
//!   the scheduler's mutex; the stale pointer is never dereferenced: the schedule is
//!   abandoned instead); (3) linearizability = WGL-style search over the recorded
//!   invocation/response history against `Vec<u64>` per list object.
//! * Exploration: depth-first over scheduling choices with replay from a fresh state
//!   for every schedule (fresh lists, fresh handles, fresh scheduler state; the OS
//!   threads are pooled, a thread that was leaked / abandoned is replaced). A schedule
//!   is the sequence of chosen thread indices; after the replayed prefix the policy is
//!   "lowest enabled thread" (or seeded random); the enabled sets recorded at every step
//!   give the next prefix. Configurations whose schedule count exceeds the cap get the
//!   first `cap` schedules in DFS order plus seeded random schedules (`explore:capped`).
//! * Abandoning a schedule (deadlock / stale pointer): parked threads that are inside
//!   plain Rust frames leave by unwinding with a marker payload (`resume_unwind`, no
//!   panic hook); guards and handles are released by the unwinding. A thread parked
//!   below JIT frames (script call) cannot unwind: it is leaked (blocked forever); the
//!   number of leaked threads is capped per case and per process.
//! * Watchdog: if a schedule does not end within 10 s of wall clock (5 orders of
//!   magnitude above its cost; the running thread neither parks nor finishes) the case
//!   is reported as `skipped: scheduler-watchdog` (never a violation) and its threads
//!   are abandoned. `--selftest hang` exercises this path, `--selftest model` breaks
//!   the model on purpose (the oracle must object).
//! * Signatures (closed set): `stale-pointer:{List::get|script-get}-vs-push@{u64|String}`,
//!   `deadlock@<sorted labels of the operations in the cycle>`,
//!   `not-linearizable@<operation whose result no linearization explains>`.
//!   An unlocked `List::get` read that overlaps a `swap` of the same slot is a data race
//!   below lock granularity (outside the property's quantifier): counted and tagged
//!   (`hazard:unlocked-read:...`), not a verdict.

use std::cell::{Cell, RefCell};
use std::collections::HashSet;
use std::sync::atomic::{AtomicU64, Ordering};
use std::sync::{Arc, Mutex, MutexGuard};
use std::time::{Duration, Instant};

use roto::verif::{ListEvent, set_list_hook};
use roto::{List, NoCtx, RotoString, Runtime, TypedFunc, Value};

use crate::jsonw::J;
use crate::rng::Rng;
use crate::work::{Args, CaseOut, Family, hash_str, panic_sig};

// ---------------------------------------------------------------------------
// Element types
// ---------------------------------------------------------------------------

const GARBAGE: u64 = u64::MAX;

/// Element type of the lists under test; elements are made from small unique ids.
pub trait SElem: Value<Transformed: PartialEq> + Clone + Send + Sync + 'static {
    const NAME: &'static str;
    const ROTO: &'static str;
    fn mk(id: u64) -> Self;
    fn id(&self) -> u64;
}

impl SElem for u64 {
    const NAME: &'static str = "u64";
    const ROTO: &'static str = "u64";
    fn mk(id: u64) -> u64 {
        0x5EED_0000_0000_0000 | id
    }
    fn id(&self) -> u64 {
        if *self >> 48 == 0x5EED { *self & 0xffff_ffff_ffff } else { GARBAGE }
    }
}

impl SElem for RotoString {
    const NAME: &'static str = "String";
    const ROTO: &'static str = "String";
    fn mk(id: u64) -> RotoString {
        RotoString::from(format!("elem-{id:06}-heap-payload"))
    }
    fn id(&self) -> u64 {
        let s: &str = self;
        match s.strip_prefix("elem-").and_then(|r| r.strip_suffix("-heap-payload")) {
            Some(d) => d.parse().unwrap_or(GARBAGE),
            None => GARBAGE,
        }
    }
}

#[derive(Clone, Copy, PartialEq, Eq, Debug)]
enum ElemKind {
    U64,
    Str,
}

impl ElemKind {
    fn name(self) -> &'static str {
        match self {
            ElemKind::U64 => "u64",
            ElemKind::Str => "String",
        }
    }
}

// ---------------------------------------------------------------------------
// Operation alphabet and configurations
// ---------------------------------------------------------------------------

/// Operation alphabet. "a" / "b" are the two shared list objects.
#[derive(Clone, Copy, PartialEq, Eq, Debug, Hash)]
enum Op {
    Get0,
    GetLast,
    PushA,
    PushB,
    Contains,
    Swap01,
    ConcatAA,
    ConcatAB,
    CloneH,
    DropH,
    EqAB,
    EqBA,
    Len,
    // through a compiled script function
    SGet0,
    SGetLast,
    SEqAB,
    SConcatAB,
}

/// The alphabet of the exhaustive 2 x <=2 enumeration (Rust API).
const RUST_OPS: [Op; 13] = [
    Op::Get0,
    Op::GetLast,
    Op::PushA,
    Op::PushB,
    Op::Contains,
    Op::Swap01,
    Op::ConcatAA,
    Op::ConcatAB,
    Op::CloneH,
    Op::DropH,
    Op::EqAB,
    Op::EqBA,
    Op::Len,
];
/// Script-side operations (thread 0 of the script family).
const SCRIPT_OPS: [Op; 4] = [Op::SGet0, Op::SGetLast, Op::SEqAB, Op::SConcatAB];
const INIT_LENS: [usize; 3] = [0, 3, 4];

impl Op {
    fn name(self) -> &'static str {
        match self {
            Op::Get0 => "get(0)",
            Op::GetLast => "get(last)",
            Op::PushA => "push",
            Op::PushB => "push(b)",
            Op::Contains => "contains",
            Op::Swap01 => "swap(0,1)",
            Op::ConcatAA => "concat(a,a)",
            Op::ConcatAB => "concat(a,b)",
            Op::CloneH => "clone",
            Op::DropH => "drop",
            Op::EqAB => "eq(a,b)",
            Op::EqBA => "eq(b,a)",
            Op::Len => "len",
            Op::SGet0 => "s.get(0)",
            Op::SGetLast => "s.get(last)",
            Op::SEqAB => "s.eq(a,b)",
            Op::SConcatAB => "s.concat(a,b)",
        }
    }
    fn is_script(self) -> bool {
        matches!(self, Op::SGet0 | Op::SGetLast | Op::SEqAB | Op::SConcatAB)
    }
}

/// An operation with all parameters resolved (what a thread executes, what the model
/// replays).
#[derive(Clone, Copy, PartialEq, Eq, Debug)]
enum Act {
    Get { obj: usize, idx: usize, script: bool },
    Push { obj: usize, v: u64 },
    Contains { obj: usize, v: u64 },
    Swap { obj: usize, i: usize, j: usize },
    Concat { x: usize, y: usize, script: bool },
    Eq { x: usize, y: usize, script: bool },
    Len { obj: usize },
    CloneH,
    DropH,
    /// final observation by the controller (not executed by a thread)
    Snap { obj: usize },
}

fn oname(o: usize) -> &'static str {
    if o == 0 { "a" } else { "b" }
}

impl Act {
    /// label used in signatures (independent of indices / values)
    fn label(&self) -> String {
        match *self {
            Act::Get { script: false, .. } => "List::get".into(),
            Act::Get { script: true, .. } => "script-get".into(),
            Act::Push { .. } => "push".into(),
            Act::Contains { .. } => "contains".into(),
            Act::Swap { .. } => "swap".into(),
            Act::Concat { x, y, script } => format!("{}concat({},{})", if script { "s." } else { "" }, oname(x), oname(y)),
            Act::Eq { x, y, script } => format!("{}eq({},{})", if script { "s." } else { "" }, oname(x), oname(y)),
            Act::Len { .. } => "len".into(),
            Act::CloneH => "clone".into(),
            Act::DropH => "drop".into(),
            Act::Snap { .. } => "final-state".into(),
        }
    }
    fn show(&self) -> String {
        match *self {
            Act::Get { obj, idx, script } => format!("{}{}.get({idx})", if script { "script:" } else { "" }, oname(obj)),
            Act::Push { obj, v } => format!("{}.push(#{v})", oname(obj)),
            Act::Contains { obj, v } => format!("{}.contains(#{v})", oname(obj)),
            Act::Swap { obj, i, j } => format!("{}.swap({i},{j})", oname(obj)),
            Act::Concat { x, y, script } => format!("{}{}.concat({})", if script { "script:" } else { "" }, oname(x), oname(y)),
            Act::Eq { x, y, script } => format!("{}{} == {}", if script { "script:" } else { "" }, oname(x), oname(y)),
            Act::Len { obj } => format!("{}.len()", oname(obj)),
            Act::CloneH => "h = a.clone()".into(),
            Act::DropH => "drop(h)".into(),
            Act::Snap { obj } => format!("final {}.to_vec()", oname(obj)),
        }
    }
    fn is_script(&self) -> bool {
        matches!(self, Act::Get { script: true, .. } | Act::Concat { script: true, .. } | Act::Eq { script: true, .. })
    }
}

#[derive(Clone, Debug)]
struct Config {
    elem: ElemKind,
    init_len: usize,
    progs: Vec<Vec<Op>>,
    origin: &'static str,
}

impl Config {
    fn text(&self) -> String {
        self.progs
            .iter()
            .enumerate()
            .map(|(t, p)| format!("T{t}: {}", p.iter().map(|o| o.name()).collect::<Vec<_>>().join("; ")))
            .collect::<Vec<_>>()
            .join(" || ")
    }
    fn key(&self) -> String {
        format!("{}/{}/{}", self.elem.name(), self.init_len, self.text())
    }
    fn uses_script(&self) -> bool {
        self.progs.iter().flatten().any(|o| o.is_script())
    }
    fn pushed_value(t: usize, i: usize) -> u64 {
        100 * (t as u64 + 1) + i as u64
    }
    /// Resolve indices and values. Element ids: initial elements 1..=init_len (both
    /// lists start with the same contents, so that `a == b` is not constant), pushed
    /// elements 100*(thread+1)+position: all distinct.
    fn resolve(&self) -> Vec<Vec<Act>> {
        let last = self.init_len.saturating_sub(1);
        // the first value another thread pushes onto `a` (for contains)
        let first_push_a = |me: usize| -> Option<u64> {
            for (t, p) in self.progs.iter().enumerate() {
                if t == me {
                    continue;
                }
                for (i, o) in p.iter().enumerate() {
                    if *o == Op::PushA {
                        return Some(Self::pushed_value(t, i));
                    }
                }
            }
            None
        };
        self.progs
            .iter()
            .enumerate()
            .map(|(t, p)| {
                p.iter()
                    .enumerate()
                    .map(|(i, o)| match o {
                        Op::Get0 => Act::Get { obj: 0, idx: 0, script: false },
                        Op::GetLast => Act::Get { obj: 0, idx: last, script: false },
                        Op::SGet0 => Act::Get { obj: 0, idx: 0, script: true },
                        Op::SGetLast => Act::Get { obj: 0, idx: last, script: true },
                        Op::PushA => Act::Push { obj: 0, v: Self::pushed_value(t, i) },
                        Op::PushB => Act::Push { obj: 1, v: Self::pushed_value(t, i) },
                        Op::Contains => Act::Contains {
                            obj: 0,
                            v: first_push_a(t).unwrap_or(if self.init_len > 0 { 1 } else { 9999 }),
                        },
                        Op::Swap01 => Act::Swap { obj: 0, i: 0, j: 1 },
                        Op::ConcatAA => Act::Concat { x: 0, y: 0, script: false },
                        Op::ConcatAB => Act::Concat { x: 0, y: 1, script: false },
                        Op::SConcatAB => Act::Concat { x: 0, y: 1, script: true },
                        Op::CloneH => Act::CloneH,
                        Op::DropH => Act::DropH,
                        Op::EqAB => Act::Eq { x: 0, y: 1, script: false },
                        Op::EqBA => Act::Eq { x: 1, y: 0, script: false },
                        Op::SEqAB => Act::Eq { x: 0, y: 1, script: true },
                        Op::Len => Act::Len { obj: 0 },
                    })
                    .collect()
            })
            .collect()
    }
    fn to_json(&self) -> J {
        J::obj()
            .set("elem", self.elem.name())
            .set("init_len", self.init_len as u64)
            .set("origin", self.origin)
            .set("programs", self.text())
            .set(
                "resolved",
                J::Arr(
                    self.resolve()
                        .iter()
                        .map(|p| J::Arr(p.iter().map(|a| J::from(a.show())).collect()))
                        .collect(),
                ),
            )
    }
}

/// Result of one operation (element ids, never the elements themselves).
#[derive(Clone, PartialEq, Eq, Debug)]
enum Res {
    Unit,
    Opt(Option<u64>),
    Bool(bool),
    Num(u64),
    Seq(Vec<u64>),
}

impl Res {
    fn show(&self) -> String {
        match self {
            Res::Unit => "()".into(),
            Res::Opt(None) => "None".into(),
            Res::Opt(Some(v)) => format!("Some(#{v})"),
            Res::Bool(b) => format!("{b}"),
            Res::Num(n) => format!("{n}"),
            Res::Seq(v) => format!("[{}]", v.iter().map(|x| format!("#{x}")).collect::<Vec<_>>().join(",")),
        }
    }
}

// ---------------------------------------------------------------------------
// Script functions
// ---------------------------------------------------------------------------

struct SFns<E: SElem> {
    get: TypedFunc<NoCtx, fn(List<E>, u64) -> Option<E>>,
    eq: TypedFunc<NoCtx, fn(List<E>, List<E>) -> bool>,
    concat: TypedFunc<NoCtx, fn(List<E>, List<E>) -> List<E>>,
}

impl<E: SElem> SFns<E> {
    fn compile(rt: &Runtime<NoCtx>) -> Result<SFns<E>, String> {
        let t = E::ROTO;
        let src = format!(
            "fn g(l: List[{t}], i: u64) -> {t}? {{ l.get(i) }}\n\
             fn e(a: List[{t}], b: List[{t}]) -> bool {{ a == b }}\n\
             fn c(a: List[{t}], b: List[{t}]) -> List[{t}] {{ a.concat(b) }}\n"
        );
        let mut pkg = crate::exec::compile(&src, rt)?;
        Ok(SFns {
            get: pkg.get_function("g").map_err(|e| format!("get_function(g): {e}"))?,
            eq: pkg.get_function("e").map_err(|e| format!("get_function(e): {e}"))?,
            concat: pkg.get_function("c").map_err(|e| format!("get_function(c): {e}"))?,
        })
    }
}

// ---------------------------------------------------------------------------
// Scheduler state (one global instance; one schedule at a time)
// ---------------------------------------------------------------------------

/// The probe closure of a `BeforeLock` event. It lives on the stack of the thread that
/// is parked inside the hook callback, so it stays valid for as long as that thread is
/// parked; the controller only calls it in that state. The closure captures a
/// `&Mutex<_>` (Sync), so calling it from the controller thread is sound.
#[derive(Clone, Copy)]
struct Probe(*const (dyn Fn() -> bool + 'static));
// SAFETY: see above.
unsafe impl Send for Probe {}

#[derive(Clone, Copy)]
enum Point {
    Lock { list: usize, probe: Probe },
    Escaped,
}

#[derive(Clone, Copy)]
enum TState {
    NotStarted,
    Running,
    Parked(Point),
    Finished,
}

struct ThreadSt {
    state: TState,
    cur_op: usize,
    cur_act: Option<Act>,
    op_started: bool,
    inv: u64,
    /// shared lists this thread was woken at (acquired) during the current operation
    woken_locks: Vec<usize>,
    leaked: bool,
    exited: bool,
    panic: Option<String>,
}

#[derive(Clone, Debug)]
struct LivePtr {
    thread: usize,
    addr: usize,
    size: usize,
    act: Act,
}

#[derive(Clone, Debug)]
struct HOp {
    t: usize,
    i: usize,
    act: Act,
    inv: u64,
    resp: u64,
    res: Res,
}

#[derive(Clone, Debug)]
struct Stale {
    esc_thread: usize,
    esc: Act,
    rel_thread: usize,
    rel: Option<Act>,
    addr: usize,
    buf: usize,
    bytes: usize,
}

#[derive(Clone, Debug)]
struct Hazard {
    reader: usize,
    read: Act,
    writer: usize,
    write: Act,
}

struct Sched {
    generation: u64,
    abort: bool,
    running: Option<usize>,
    threads: Vec<ThreadSt>,
    clock: u64,
    events: u64,
    releases: u64,
    live: Vec<LivePtr>,
    stale: Option<Stale>,
    hazards: Vec<Hazard>,
    hist: Vec<HOp>,
    /// mutex addresses of the shared lists a, b
    shared: [usize; 2],
    full_points: bool,
    obj_len: [usize; 2],
    /// start-up phase: parking threads report to the controller instead of deciding
    startup: bool,
    /// replayed choices, then `policy`
    prefix: Vec<u8>,
    policy: Policy,
    steps: Vec<Step>,
    /// set when the schedule is over
    outcome: Option<Outcome>,
    /// start-up: the programs not yet picked up, and whose turn it is
    jobs: Vec<Option<Job>>,
    start_turn: usize,
    /// id of the valid pool thread of every slot (0 = none)
    pool_id: [u64; MAX_THREADS],
    next_pool_id: u64,
    /// whom to unpark: the pool threads and the controller
    handles: [Option<std::thread::Thread>; MAX_THREADS],
    controller: Option<std::thread::Thread>,
}
// SAFETY: `Probe` is Send (see there), `Job` is Send; nothing else is thread-bound.
unsafe impl Send for Sched {}

static SCHED: Mutex<Sched> = Mutex::new(Sched {
    generation: 0,
    abort: false,
    running: None,
    threads: Vec::new(),
    clock: 0,
    events: 0,
    releases: 0,
    live: Vec::new(),
    stale: None,
    hazards: Vec::new(),
    hist: Vec::new(),
    shared: [0, 0],
    full_points: false,
    obj_len: [0, 0],
    startup: true,
    prefix: Vec::new(),
    policy: Policy::Lowest,
    steps: Vec::new(),
    outcome: None,
    jobs: Vec::new(),
    start_turn: usize::MAX,
    pool_id: [0; MAX_THREADS],
    next_pool_id: 0,
    handles: [None, None, None, None],
    controller: None,
});
const MAX_THREADS: usize = 4;

/// Hand-off. All scheduler state lives under the one mutex `SCHED`; a thread that has
/// to wait releases the mutex and blocks in `std::thread::park()`, re-checking its
/// condition under the mutex after every wake-up (park tokens make lost wake-ups
/// impossible, spurious ones are harmless). Whoever changes the state unparks the
/// thread concerned AFTER releasing the mutex (`send`), so that the woken thread does
/// not run into a held mutex.
#[derive(Clone, Copy, PartialEq, Eq)]
enum Wake {
    Nobody,
    Thread(usize),
    Controller,
    /// every controlled thread (abandon / watchdog)
    AllThreads,
}

fn send(s: MutexGuard<'static, Sched>, w: Wake) {
    match w {
        Wake::Nobody => {}
        Wake::Thread(t) => {
            let h = s.handles[t].clone();
            drop(s);
            if let Some(h) = h {
                h.unpark();
            }
        }
        Wake::Controller => {
            let h = s.controller.clone();
            drop(s);
            if let Some(h) = h {
                h.unpark();
            }
        }
        Wake::AllThreads => {
            let hs = s.handles.clone();
            drop(s);
            for h in hs.into_iter().flatten() {
                h.unpark();
            }
        }
    }
}

/// Controlled threads are pooled: pool thread `t` executes the program of logical
/// thread `t` of one schedule after the other (every schedule still starts from a
/// fresh state: fresh lists, fresh handles, fresh scheduler state). A thread that was
/// leaked or abandoned is dropped from the pool (its id is invalidated) and replaced.
type Job = Box<dyn FnOnce() + Send + 'static>;

fn pool_thread(t: usize, id: u64) {
    loop {
        let job = loop {
            let mut s = lock_sched();
            if s.pool_id[t] != id {
                return;
            }
            if s.start_turn == t && s.jobs.get(t).is_some_and(|j| j.is_some()) {
                // start-up phase: it is this thread's turn to run up to its first hook point
                s.threads[t].state = TState::Running;
                s.running = Some(t);
                break s.jobs[t].take().unwrap();
            }
            drop(s);
            std::thread::park();
        };
        job();
    }
}

fn pool_ensure(s: &mut Sched, t: usize) {
    if s.pool_id[t] == 0 {
        s.next_pool_id += 1;
        let id = s.next_pool_id;
        s.pool_id[t] = id;
        let jh = std::thread::Builder::new()
            .name(format!("sched-T{t}"))
            .stack_size(1 << 20)
            .spawn(move || pool_thread(t, id))
            .expect("spawn controlled thread");
        s.handles[t] = Some(jh.thread().clone());
    }
}

/// End of a thread's start-up step: start the next thread, or take the first decision.
#[must_use]
fn advance_startup(s: &mut Sched, caller: usize) -> Wake {
    s.start_turn += 1;
    if s.start_turn < s.threads.len() {
        Wake::Thread(s.start_turn)
    } else {
        s.startup = false;
        s.start_turn = usize::MAX;
        decide(s, Some(caller))
    }
}

/// threads leaked by this process (blocked forever below JIT frames / abandoned)
static LEAKED: AtomicU64 = AtomicU64::new(0);
/// `--selftest hang`  (1): thread 0 never returns from its first `len` (watchdog path);
/// `--selftest model` (2): the model's swap does nothing (the oracle must object).
static SELFTEST: AtomicU64 = AtomicU64::new(0);

thread_local! {
    /// (generation, logical thread index) of a controlled thread
    static ME: Cell<Option<(u64, usize)>> = const { Cell::new(None) };
    /// the thread is inside a compiled script function (cannot unwind)
    static IN_SCRIPT: Cell<bool> = const { Cell::new(false) };
    /// controller: collect the mutex addresses of BeforeLock events
    static LEARN: RefCell<Option<Vec<usize>>> = const { RefCell::new(None) };
}

fn lock_sched() -> MutexGuard<'static, Sched> {
    SCHED.lock().unwrap_or_else(|e| e.into_inner())
}

/// Payload with which parked threads leave an abandoned schedule.
struct AbortSchedule;

fn block_forever() -> ! {
    LEAKED.fetch_add(1, Ordering::SeqCst);
    loop {
        std::thread::park();
    }
}

/// Leave an abandoned schedule from inside a hook point. Never returns to roto.
fn bail(mut s: MutexGuard<'static, Sched>, me: usize) -> ! {
    if IN_SCRIPT.with(|c| c.get()) {
        // JIT frames below us: unwinding is impossible, stay parked forever
        s.threads[me].leaked = true;
        send(s, Wake::Controller);
        block_forever()
    } else {
        drop(s);
        std::panic::resume_unwind(Box::new(AbortSchedule))
    }
}

/// Park the calling controlled thread at `point` until the controller schedules it.
fn park(mut s: MutexGuard<'static, Sched>, generation: u64, me: usize, point: Point) {
    s.threads[me].state = TState::Parked(point);
    s.running = None;
    let w = if s.startup {
        advance_startup(&mut s, me)
    } else {
        // nobody runs now: take the scheduling decision right here (if this thread is
        // chosen again it continues without any context switch)
        decide(&mut s, Some(me))
    };
    if w != Wake::Nobody {
        send(s, w);
        s = lock_sched();
    }
    loop {
        if s.generation != generation {
            // the schedule was abandoned by the watchdog: never touch anything again
            drop(s);
            block_forever();
        }
        if s.abort {
            bail(s, me);
        }
        if matches!(s.threads[me].state, TState::Running) {
            break;
        }
        drop(s);
        std::thread::park();
        s = lock_sched();
    }
    // the first time a thread is scheduled inside an operation is its invocation
    if !s.threads[me].op_started {
        s.threads[me].op_started = true;
        s.clock += 1;
        s.threads[me].inv = s.clock;
    }
    if let Point::Lock { list, .. } = point {
        s.threads[me].woken_locks.push(list);
    }
}

fn hook(ev: &ListEvent<'_>) {
    let Some((generation, me)) = ME.with(|m| m.get()) else {
        // not a controlled thread (setup, final observation): untouched
        if let ListEvent::BeforeLock { list, .. } = ev {
            LEARN.with(|l| {
                if let Some(v) = l.borrow_mut().as_mut() {
                    v.push(*list);
                }
            });
        }
        return;
    };
    let mut s = lock_sched();
    if s.generation != generation || s.abort {
        return;
    }
    s.events += 1;
    match ev {
        ListEvent::BeforeLock { list, is_free } => {
            if !s.full_points && !s.shared.contains(list) {
                // a list no other thread can reach: thread-local step
                return;
            }
            let p: *const (dyn Fn() -> bool + '_) = *is_free;
            // SAFETY: only the lifetime is erased; see `Probe`.
            let probe = Probe(unsafe { std::mem::transmute::<*const (dyn Fn() -> bool + '_), *const (dyn Fn() -> bool + 'static)>(p) });
            park(s, generation, me, Point::Lock { list: *list, probe });
        }
        ListEvent::BufferReleased { addr, bytes } => {
            s.releases += 1;
            let hit = s.live.iter().find(|p| p.addr >= *addr && p.addr < *addr + *bytes).cloned();
            if let Some(p) = hit
                && s.stale.is_none()
            {
                let rel = s.threads[me].cur_act;
                s.stale = Some(Stale { esc_thread: p.thread, esc: p.act, rel_thread: me, rel, addr: p.addr, buf: *addr, bytes: *bytes });
            }
        }
    }
}

// ---------------------------------------------------------------------------
// Worker threads
// ---------------------------------------------------------------------------

struct Handles<E: SElem> {
    a: List<E>,
    b: List<E>,
    extra: Vec<List<E>>,
}

impl<E: SElem> Handles<E> {
    fn h(&self, obj: usize) -> &List<E> {
        if obj == 0 { self.extra.last().unwrap_or(&self.a) } else { &self.b }
    }
}

fn exec_act<E: SElem>(h: &mut Handles<E>, act: Act, fns: &Option<Arc<SFns<E>>>) -> Res {
    let script = |f: &mut dyn FnMut(&SFns<E>) -> Res| -> Res {
        let fns = fns.as_ref().expect("script functions compiled");
        IN_SCRIPT.with(|c| c.set(true));
        let r = f(fns);
        IN_SCRIPT.with(|c| c.set(false));
        r
    };
    match act {
        Act::Get { obj, idx, script: false } => Res::Opt(h.h(obj).get(idx).map(|e| e.id())),
        Act::Get { obj, idx, script: true } => {
            let l = h.h(obj).clone();
            let mut l = Some(l);
            script(&mut |f| Res::Opt(f.get.call(l.take().unwrap(), idx as u64).map(|e| e.id())))
        }
        Act::Push { obj, v } => {
            h.h(obj).push(E::mk(v));
            Res::Unit
        }
        Act::Contains { obj, v } => Res::Bool(h.h(obj).contains(&E::mk(v))),
        Act::Swap { obj, i, j } => {
            h.h(obj).swap(i, j);
            Res::Unit
        }
        Act::Concat { x, y, script: false } => {
            let c = h.h(x).concat(h.h(y));
            Res::Seq(c.to_vec().iter().map(|e| e.id()).collect())
        }
        Act::Concat { x, y, script: true } => {
            let mut args = Some((h.h(x).clone(), h.h(y).clone()));
            let mut out = None;
            script(&mut |f| {
                let (p, q) = args.take().unwrap();
                out = Some(f.concat.call(p, q));
                Res::Unit
            });
            Res::Seq(out.unwrap().to_vec().iter().map(|e| e.id()).collect())
        }
        Act::Eq { x, y, script: false } => Res::Bool(h.h(x) == h.h(y)),
        Act::Eq { x, y, script: true } => {
            let mut args = Some((h.h(x).clone(), h.h(y).clone()));
            script(&mut |f| {
                let (p, q) = args.take().unwrap();
                Res::Bool(f.eq.call(p, q))
            })
        }
        Act::Len { obj } => {
            if SELFTEST.load(Ordering::Relaxed) == 1 && ME.with(|m| m.get()).is_some_and(|m| m.1 == 0) {
                loop {
                    std::thread::sleep(Duration::from_secs(3600));
                }
            }
            Res::Num(h.h(obj).len() as u64)
        }
        Act::CloneH => {
            let c = h.h(0).clone();
            h.extra.push(c);
            Res::Unit
        }
        Act::DropH => {
            match h.extra.pop() {
                Some(x) => drop(x),
                None => drop(h.a.clone()),
            }
            Res::Unit
        }
        Act::Snap { .. } => Res::Unit,
    }
}

fn thread_main<E: SElem>(generation: u64, me: usize, prog: Vec<Act>, mut h: Handles<E>, fns: Option<Arc<SFns<E>>>) {
    ME.with(|m| m.set(Some((generation, me))));
    let r = crate::work::catch(|| {
        for (i, act) in prog.iter().enumerate() {
            {
                let mut s = lock_sched();
                if s.generation != generation {
                    return;
                }
                let th = &mut s.threads[me];
                th.cur_op = i;
                th.cur_act = Some(*act);
                th.op_started = false;
                th.woken_locks.clear();
            }
            let res = exec_act(&mut h, *act, &fns);
            {
                let mut s = lock_sched();
                if s.generation != generation {
                    return;
                }
                if !s.threads[me].op_started {
                    // an operation without any hook point
                    s.threads[me].op_started = true;
                    s.clock += 1;
                    s.threads[me].inv = s.clock;
                }
                s.clock += 1;
                let (inv, resp) = (s.threads[me].inv, s.clock);
                s.hist.push(HOp { t: me, i, act: *act, inv, resp, res });
                s.threads[me].cur_act = None;
                match *act {
                    Act::Push { obj, .. } => s.obj_len[obj] += 1,
                    Act::Swap { obj, i, j } => {
                        // hazard (not a C16 verdict): a `List::get` reads its slot without
                        // the lock while this swap wrote it under the lock
                        let len = s.obj_len[obj];
                        if i != j && i < len && j < len {
                            let hz: Vec<Hazard> = s
                                .live
                                .iter()
                                .filter(|p| p.thread != me)
                                .filter(|p| matches!(p.act, Act::Get { obj: o, idx, script: false } if o == obj && (idx == i || idx == j)))
                                .map(|p| Hazard { reader: p.thread, read: p.act, writer: me, write: *act })
                                .collect();
                            s.hazards.extend(hz);
                        }
                    }
                    _ => {}
                }
            }
        }
    });
    drop(h);
    ME.with(|m| m.set(None));
    IN_SCRIPT.with(|c| c.set(false));
    let mut s = lock_sched();
    if s.generation != generation {
        return;
    }
    s.threads[me].exited = true;
    let was_running = !s.abort;
    match r {
        Ok(()) => s.threads[me].state = TState::Finished,
        Err(msg) => {
            if !s.abort {
                // a genuine panic of the code under test while this thread was running
                s.threads[me].panic = Some(msg);
                s.threads[me].state = TState::Finished;
            }
        }
    }
    let mut w = Wake::Nobody;
    if was_running {
        s.running = None;
        w = if s.startup { advance_startup(&mut s, me) } else { decide(&mut s, Some(me)) };
    }
    if s.abort {
        // the controller waits for the threads to leave
        w = Wake::Controller;
    }
    send(s, w);
}

// ---------------------------------------------------------------------------
// Controller: one schedule
// ---------------------------------------------------------------------------

enum Policy {
    Lowest,
    Random(Rng),
}

#[derive(Clone, Debug)]
enum Outcome {
    Complete,
    Deadlock { sig_ops: Vec<String>, blocked: Vec<(usize, String, String)> },
    Stale(Stale),
    Panic(usize, String),
    Watchdog(String),
    Diverged(String),
}

/// One scheduling step: enabled set, chosen thread, what the chosen thread was parked at.
#[derive(Clone, Debug)]
struct Step {
    mask: u8,
    chosen: u8,
    op: usize,
    point: u8, // 0 lock(a), 1 lock(b), 2 lock(private), 3 use-pointer
}

struct SchedOut {
    steps: Vec<Step>,
    outcome: Outcome,
    hist: Vec<HOp>,
    finals: [Vec<u64>; 2],
    events: u64,
    releases: u64,
    hazards: Vec<Hazard>,
    leaked: u64,
}

const WATCHDOG: Duration = Duration::from_secs(10);

/// The scheduling decision. Runs under the scheduler mutex at a moment when NO
/// controlled thread is running (every one is parked or finished): on the thread that
/// just parked / finished, or on the controller after the start-up phase. Either
/// hands the (single) right to run to one enabled thread, or ends the schedule by
/// setting `outcome` (the controller then collects the results / abandons the threads).
#[must_use]
fn decide(s: &mut Sched, caller: Option<usize>) -> Wake {
    debug_assert!(s.running.is_none());
    if s.outcome.is_some() {
        return Wake::Controller;
    }
    let n = s.threads.len();
    let mut fail: Option<Outcome> = None;
    if let Some((t, msg)) = s.threads.iter().enumerate().find_map(|(t, th)| th.panic.clone().map(|m| (t, m))) {
        fail = Some(Outcome::Panic(t, msg));
    } else if let Some(st) = s.stale.clone() {
        fail = Some(Outcome::Stale(st));
    }
    let mut mask = 0u8;
    let mut unfinished = 0;
    if fail.is_none() {
        for t in 0..n {
            match s.threads[t].state {
                TState::Parked(Point::Lock { probe, .. }) => {
                    unfinished += 1;
                    // SAFETY: thread t is parked inside the hook callback that owns the
                    // closure (if t is the calling thread: it is inside that callback)
                    if unsafe { (*probe.0)() } {
                        mask |= 1 << t;
                    }
                }
                TState::Parked(Point::Escaped) => {
                    unfinished += 1;
                    mask |= 1 << t;
                }
                TState::Finished => {}
                TState::NotStarted | TState::Running => {
                    fail = Some(Outcome::Diverged(format!("internal: thread T{t} in an impossible state")));
                }
            }
        }
    }
    if fail.is_none() && unfinished == 0 {
        s.outcome = Some(Outcome::Complete);
        return Wake::Controller;
    }
    let lname = |s: &Sched, l: usize| if l == s.shared[0] { "a" } else if l == s.shared[1] { "b" } else { "private" };
    if fail.is_none() && mask == 0 {
        // deadlock: every unfinished thread waits for a mutex that is not free
        let mut blocked = Vec::new();
        let mut holders = Vec::new();
        for t in 0..n {
            if let TState::Parked(Point::Lock { list, .. }) = s.threads[t].state {
                let act = s.threads[t].cur_act;
                let label = act.map(|a| a.label()).unwrap_or_default();
                let held: Vec<&str> = s.threads[t].woken_locks.iter().map(|l| lname(s, *l)).collect();
                blocked.push((t, label.clone(), format!("acquired {held:?} in this operation, waits for {}", lname(s, list))));
                // a thread that waits while it keeps a shared lock is part of the cycle
                // (only `==` keeps its first lock while it takes the second)
                if matches!(act, Some(Act::Eq { .. })) && !s.threads[t].woken_locks.is_empty() {
                    holders.push(label);
                }
            }
        }
        if holders.is_empty() {
            holders = blocked.iter().map(|b| b.1.clone()).collect();
        }
        holders.sort();
        holders.dedup();
        fail = Some(Outcome::Deadlock { sig_ops: holders, blocked });
    }
    let mut chosen = 0u8;
    if fail.is_none() {
        let step = s.steps.len();
        if step < s.prefix.len() {
            chosen = s.prefix[step];
            if mask & (1 << chosen) == 0 {
                fail = Some(Outcome::Diverged(format!("replay diverged at step {step}: T{chosen} not enabled (enabled mask {mask:#b})")));
            }
        } else {
            chosen = match &mut s.policy {
                Policy::Lowest => mask.trailing_zeros() as u8,
                Policy::Random(rng) => {
                    let k = rng.below(mask.count_ones() as u64);
                    let mut m = mask;
                    for _ in 0..k {
                        m &= m - 1;
                    }
                    m.trailing_zeros() as u8
                }
            };
        }
    }
    if let Some(f) = fail {
        s.outcome = Some(f);
        return Wake::Controller;
    }
    let c = chosen as usize;
    let point = match s.threads[c].state {
        TState::Parked(Point::Lock { list, .. }) => {
            if list == s.shared[0] {
                0
            } else if list == s.shared[1] {
                1
            } else {
                2
            }
        }
        _ => 3,
    };
    let op = s.threads[c].cur_op;
    s.steps.push(Step { mask, chosen, op, point });
    s.threads[c].state = TState::Running;
    s.running = Some(c);
    // (the caller itself notices that it was chosen when it looks at its state)
    if caller == Some(c) { Wake::Nobody } else { Wake::Thread(c) }
}

/// Controller: wait until `cond` holds (with the watchdog deadline).
fn wait_for(mut s: MutexGuard<'static, Sched>, deadline: Instant, cond: impl Fn(&Sched) -> bool) -> Result<MutexGuard<'static, Sched>, String> {
    while !cond(&s) {
        let now = Instant::now();
        if now >= deadline {
            return Err(match s.running {
                Some(t) => format!("thread T{t} neither parked nor finished"),
                None => "the schedule made no progress".to_string(),
            });
        }
        drop(s);
        std::thread::park_timeout(deadline - now);
        s = lock_sched();
    }
    Ok(s)
}

fn run_schedule<E: SElem>(cfg: &Config, acts: &[Vec<Act>], fns: &Option<Arc<SFns<E>>>, prefix: &[u8], policy: Policy, full_points: bool) -> SchedOut {
    let n = acts.len();
    // fresh lists
    let a: List<E> = (0..cfg.init_len).map(|i| E::mk(1 + i as u64)).collect();
    let b: List<E> = (0..cfg.init_len).map(|i| E::mk(1 + i as u64)).collect();
    // learn the mutex addresses of the shared lists
    LEARN.with(|l| *l.borrow_mut() = Some(Vec::new()));
    let _ = a.len();
    let _ = b.len();
    let learned = LEARN.with(|l| l.borrow_mut().take()).unwrap_or_default();
    let mut out = SchedOut {
        steps: Vec::new(),
        outcome: Outcome::Complete,
        hist: Vec::new(),
        finals: [Vec::new(), Vec::new()],
        events: 0,
        releases: 0,
        hazards: Vec::new(),
        leaked: 0,
    };
    if learned.len() != 2 || learned[0] == learned[1] {
        out.outcome = Outcome::Diverged(format!("list hook did not report the two shared lists ({learned:?}); is the hook installed?"));
        return out;
    }
    let generation = {
        let mut s = lock_sched();
        s.generation += 1;
        s.controller = Some(std::thread::current());
        s.abort = false;
        s.startup = true;
        s.running = None;
        s.outcome = None;
        s.steps = Vec::new();
        s.prefix = prefix.to_vec();
        s.policy = policy;
        s.threads = (0..n)
            .map(|_| ThreadSt {
                state: TState::NotStarted,
                cur_op: 0,
                cur_act: None,
                op_started: false,
                inv: 0,
                woken_locks: Vec::new(),
                leaked: false,
                exited: false,
                panic: None,
            })
            .collect();
        s.clock = 0;
        s.events = 0;
        s.releases = 0;
        s.live.clear();
        s.stale = None;
        s.hazards.clear();
        s.hist.clear();
        s.shared = [learned[0], learned[1]];
        s.full_points = full_points;
        s.obj_len = [cfg.init_len, cfg.init_len];
        s.generation
    };
    let deadline = Instant::now() + WATCHDOG;
    let watchdog = |out: &mut SchedOut, why: String| {
        // abandon everything: bump the generation so that stragglers pass through
        // (running ones) or block forever (parked ones); none of them is reused
        let mut s = lock_sched();
        s.generation += 1;
        s.running = None;
        s.start_turn = usize::MAX;
        s.jobs.clear();
        out.steps = std::mem::take(&mut s.steps);
        let mut gone = Vec::new();
        for t in 0..n {
            s.pool_id[t] = 0;
            gone.push(s.handles[t].take());
        }
        drop(s);
        for h in gone.into_iter().flatten() {
            h.unpark();
        }
        LEAKED.fetch_add(n as u64, Ordering::SeqCst);
        out.outcome = Outcome::Watchdog(why);
    };
    // Fresh handles, fresh thread state (the OS threads come from the pool). Start-up:
    // every thread runs up to its first hook point, one at a time in index order (the
    // code before the first hook point is thread-local, no decision is involved); the
    // last one takes the first decision. From then on the threads pass the right to run
    // among themselves (`decide`) and the controller only waits for the outcome.
    let s = {
        let mut s = lock_sched();
        let mut jobs: Vec<Option<Job>> = Vec::new();
        for (t, prog) in acts.iter().enumerate() {
            let h = Handles { a: a.clone(), b: b.clone(), extra: Vec::new() };
            let prog = prog.clone();
            let fns = fns.clone();
            jobs.push(Some(Box::new(move || thread_main::<E>(generation, t, prog, h, fns))));
            pool_ensure(&mut s, t);
        }
        s.jobs = jobs;
        s.start_turn = 0;
        send(s, Wake::Thread(0));
        lock_sched()
    };
    let mut s = match wait_for(s, deadline, |s| s.outcome.is_some()) {
        Ok(s) => s,
        Err(why) => {
            watchdog(&mut out, why);
            return out;
        }
    };
    out.outcome = s.outcome.clone().unwrap_or(Outcome::Complete);
    out.steps = std::mem::take(&mut s.steps);
    out.hist = s.hist.clone();
    out.events = s.events;
    out.releases = s.releases;
    out.hazards = s.hazards.clone();
    // every thread leaves: finished ones have left already, parked ones unwind or
    // (below JIT frames) are leaked
    s.abort = true;
    let everybody_left = s.threads.iter().all(|t| t.exited);
    if !everybody_left {
        send(s, Wake::AllThreads);
        s = lock_sched();
    }
    match wait_for(s, Instant::now() + WATCHDOG, |s| s.threads.iter().all(|t| t.exited || t.leaked)) {
        Ok(s) => {
            let mut s = s;
            for t in 0..n {
                if s.threads[t].leaked {
                    out.leaked += 1;
                    s.pool_id[t] = 0;
                    s.handles[t] = None;
                }
            }
        }
        Err(why) => {
            watchdog(&mut out, why);
            return out;
        }
    }
    if matches!(out.outcome, Outcome::Complete) {
        // every thread has dropped its handles; final observation
        out.finals = [a.to_vec().iter().map(|e| e.id()).collect(), b.to_vec().iter().map(|e| e.id()).collect()];
    }
    out
}

// ---------------------------------------------------------------------------
// Oracle: shared-vector model + linearizability search
// ---------------------------------------------------------------------------

type Model = [Vec<u64>; 2];

fn model_apply(st: &mut Model, act: &Act) -> Res {
    match *act {
        Act::Get { obj, idx, .. } => Res::Opt(st[obj].get(idx).copied()),
        Act::Push { obj, v } => {
            st[obj].push(v);
            Res::Unit
        }
        Act::Contains { obj, v } => Res::Bool(st[obj].contains(&v)),
        Act::Swap { obj, i, j } => {
            if i < st[obj].len() && j < st[obj].len() && SELFTEST.load(Ordering::Relaxed) != 2 {
                st[obj].swap(i, j);
            }
            Res::Unit
        }
        Act::Concat { x, y, .. } => {
            let mut v = st[x].clone();
            v.extend_from_slice(&st[y]);
            Res::Seq(v)
        }
        Act::Eq { x, y, .. } => Res::Bool(x == y || st[x] == st[y]),
        Act::Len { obj } => Res::Num(st[obj].len() as u64),
        Act::CloneH | Act::DropH => Res::Unit,
        Act::Snap { obj } => Res::Seq(st[obj].clone()),
    }
}

/// Is there a total order of `ops` that respects real time (resp < inv) and in which
/// every operation not in `wild` returns what the model returns? Returns the order.
fn linearize(ops: &[HOp], init: &Model, wild: u32) -> Option<Vec<usize>> {
    fn go(ops: &[HOp], st: &Model, done: u32, wild: u32, order: &mut Vec<usize>, dead: &mut HashSet<(u32, Model)>) -> bool {
        if done.count_ones() as usize == ops.len() {
            return true;
        }
        if dead.contains(&(done, st.clone())) {
            return false;
        }
        for (k, o) in ops.iter().enumerate() {
            if done & (1 << k) != 0 {
                continue;
            }
            // minimal: no other pending operation responded before o was invoked
            let minimal = ops.iter().enumerate().all(|(j, p)| j == k || done & (1 << j) != 0 || p.resp >= o.inv);
            if !minimal {
                continue;
            }
            let mut st2 = st.clone();
            let r = model_apply(&mut st2, &o.act);
            if wild & (1 << k) == 0 && r != o.res {
                continue;
            }
            order.push(k);
            if go(ops, &st2, done | (1 << k), wild, order, dead) {
                return true;
            }
            order.pop();
        }
        dead.insert((done, st.clone()));
        false
    }
    let mut order = Vec::new();
    let mut dead = HashSet::new();
    if go(ops, init, 0, wild, &mut order, &mut dead) { Some(order) } else { None }
}

/// Smallest set of operations whose results must be ignored to make the history
/// linearizable (at most 3; None = more).
fn culprits(ops: &[HOp], init: &Model) -> Option<Vec<usize>> {
    let n = ops.len();
    for size in 1..=3usize {
        for m in 1u32..(1u32 << n) {
            if m.count_ones() as usize == size && linearize(ops, init, m).is_some() {
                return Some((0..n).filter(|k| m & (1 << k) != 0).collect());
            }
        }
    }
    None
}

// ---------------------------------------------------------------------------
// The family
// ---------------------------------------------------------------------------

pub struct ListSched {
    rt: Option<Runtime<NoCtx>>,
    fns_u64: Option<Arc<SFns<u64>>>,
    fns_str: Option<Arc<SFns<RotoString>>>,
    /// unordered pairs of Rust programs (indices into `progs`)
    pairs: Vec<(u16, u16)>,
    progs: Vec<Vec<Op>>,
    sprogs: Vec<Vec<Op>>,
    prelude: Vec<Config>,
    sched_cap: u64,
    rand_extra: u64,
    full_points: bool,
    enum_only: bool,
    leak_cap: u64,
}

fn programs(alpha: &[Op]) -> Vec<Vec<Op>> {
    let mut v: Vec<Vec<Op>> = alpha.iter().map(|o| vec![*o]).collect();
    for x in alpha {
        for y in alpha {
            v.push(vec![*x, *y]);
        }
    }
    v
}

fn gcd(a: u64, b: u64) -> u64 {
    if b == 0 { a } else { gcd(b, a % b) }
}

impl ListSched {
    pub fn new(args: &Args) -> ListSched {
        // install the silent panic hook of `work::catch` and the list hook
        let _ = crate::work::catch(|| ());
        set_list_hook(Some(hook));
        let progs = programs(&RUST_OPS);
        let sprogs = programs(&SCRIPT_OPS);
        let mut pairs = Vec::new();
        for i in 0..progs.len() {
            for j in i..progs.len() {
                pairs.push((i as u16, j as u16));
            }
        }
        use Op::*;
        // hand-picked minimal configurations of the interesting classes first, so
        // that every tier meets them
        let shapes: Vec<Vec<Vec<Op>>> = vec![
            vec![vec![Get0], vec![PushA]],
            vec![vec![GetLast], vec![PushA, PushA]],
            vec![vec![SGet0], vec![PushA]],
            vec![vec![SGetLast], vec![PushA, PushA]],
            vec![vec![EqAB], vec![EqBA]],
            vec![vec![SEqAB], vec![EqBA]],
            vec![vec![ConcatAA], vec![PushA]],
            vec![vec![ConcatAB], vec![PushA, PushB]],
            vec![vec![SConcatAB], vec![PushA, PushB]],
            vec![vec![ConcatAB], vec![ConcatAB]],
            vec![vec![Get0], vec![Swap01]],
            vec![vec![ConcatAA], vec![Swap01]],
            vec![vec![EqAB], vec![EqBA], vec![PushA]],
            vec![vec![Get0, Len], vec![PushA, Contains], vec![Swap01, GetLast]],
            vec![vec![Contains, Len], vec![PushA, PushA]],
            vec![vec![EqAB, EqAB], vec![PushA, PushB]],
        ];
        let mut prelude = Vec::new();
        for sh in &shapes {
            for elem in [ElemKind::U64, ElemKind::Str] {
                for init_len in INIT_LENS {
                    prelude.push(Config { elem, init_len, progs: sh.clone(), origin: "prelude" });
                }
            }
        }
        match args.opt("selftest") {
            Some("hang") => SELFTEST.store(1, Ordering::Relaxed),
            Some("model") => SELFTEST.store(2, Ordering::Relaxed),
            _ => {}
        }
        let num = |k: &str, d: u64| args.opt(k).and_then(|v| v.parse().ok()).unwrap_or(d);
        ListSched {
            rt: None,
            fns_u64: None,
            fns_str: None,
            pairs,
            progs,
            sprogs,
            prelude,
            sched_cap: num("sched-cap", if args.thorough() { 5_000 } else { 1_000 }),
            rand_extra: num("rand-extra", if args.thorough() { 2_000 } else { 500 }),
            full_points: args.flag("full-points"),
            enum_only: args.flag("enum-only"),
            leak_cap: num("leak-cap", 4),
        }
    }

    fn n_enum_rust(&self) -> u64 {
        self.pairs.len() as u64 * 6
    }
    fn n_enum_script(&self) -> u64 {
        (self.sprogs.len() * self.progs.len()) as u64 * 6
    }
    fn n_enum(&self) -> u64 {
        self.n_enum_rust() + self.n_enum_script()
    }

    /// Enumerated configuration `e` (0 <= e < n_enum): all assignments of <= 2
    /// operations to 2 threads x element type x initial length.
    fn enum_config(&self, e: u64) -> Config {
        let (variant, progs, origin) = if e < self.n_enum_rust() {
            let (p, q) = self.pairs[(e / 6) as usize];
            (e % 6, vec![self.progs[p as usize].clone(), self.progs[q as usize].clone()], "enum-2x2")
        } else {
            let e = e - self.n_enum_rust();
            let c = e / 6;
            let sp = (c as usize) / self.progs.len();
            let rp = (c as usize) % self.progs.len();
            (e % 6, vec![self.sprogs[sp].clone(), self.progs[rp].clone()], "enum-2x2-script")
        };
        Config { elem: if variant % 2 == 0 { ElemKind::U64 } else { ElemKind::Str }, init_len: INIT_LENS[(variant / 2) as usize], progs, origin }
    }

    fn random_config(&self, rng: &mut Rng) -> Config {
        let (threads, max_ops, origin) = match rng.weighted(&[3, 3, 2]) {
            0 => (2, 3, "random-2x3"),
            1 => (3, 2, "random-3x2"),
            _ => (3, 3, "random-3x3"),
        };
        let script = rng.chance(1, 4);
        // weights of the Rust alphabet: favour operations with scheduling points
        let w: [u32; 13] = [4, 4, 6, 3, 3, 3, 2, 3, 1, 1, 2, 2, 2];
        let mut progs = Vec::new();
        for t in 0..threads {
            let len = if rng.chance(3, 4) { max_ops } else { 1 + rng.usize(max_ops) };
            let mut p = Vec::new();
            for _ in 0..len {
                if script && t == 0 {
                    p.push(*rng.pick(&SCRIPT_OPS));
                } else {
                    p.push(RUST_OPS[rng.weighted(&w)]);
                }
            }
            progs.push(p);
        }
        Config { elem: if rng.bool() { ElemKind::U64 } else { ElemKind::Str }, init_len: *rng.pick(&INIT_LENS), progs, origin }
    }

    /// Case layout: [0, P) hand-picked minimal configurations; then blocks of four
    /// cases: three of the deterministic enumeration (visited in a strided order, so
    /// that every prefix of the case range is spread over the whole enumeration) and
    /// one seeded random 2x3 / 3x2 / 3x3 configuration.
    fn config_for(&self, k: u64, rng: &mut Rng) -> Config {
        let p = self.prelude.len() as u64;
        if k < p {
            return self.prelude[k as usize].clone();
        }
        let k = k - p;
        let total = self.n_enum();
        // `--enum-only 1`: cases P .. P + n_enum are exactly the enumeration
        if self.enum_only || k % 4 != 3 {
            let e = if self.enum_only { k } else { (k / 4) * 3 + k % 4 };
            if e < total {
                let mut stride = 1_000_003u64;
                while gcd(stride, total) != 1 {
                    stride += 2;
                }
                return self.enum_config(((e as u128 * stride as u128) % total as u128) as u64);
            }
        }
        self.random_config(rng)
    }

    fn fns<E: SElem>(rt: &mut Option<Runtime<NoCtx>>, slot: &mut Option<Arc<SFns<E>>>) -> Result<Arc<SFns<E>>, String> {
        if slot.is_none() {
            let rt = rt.get_or_insert_with(crate::host::runtime);
            *slot = Some(Arc::new(SFns::<E>::compile(rt)?));
        }
        Ok(slot.clone().unwrap())
    }
}

fn steps_text(steps: &[Step], acts: &[Vec<Act>]) -> Vec<J> {
    steps
        .iter()
        .map(|s| {
            let t = s.chosen as usize;
            let act = acts[t].get(s.op).map(|a| a.show()).unwrap_or_default();
            let pt = match s.point {
                0 => "lock(a)",
                1 => "lock(b)",
                2 => "lock(private)",
                _ => "use-escaped-pointer",
            };
            J::from(format!("T{t} [{act}] proceeds at {pt}; enabled={:#05b}", s.mask))
        })
        .collect()
}

fn choice_text(steps: &[Step]) -> String {
    steps.iter().map(|s| format!("{}", s.chosen)).collect::<Vec<_>>().join("")
}

fn hist_json(h: &[HOp]) -> J {
    let mut v: Vec<&HOp> = h.iter().collect();
    v.sort_by_key(|o| o.inv);
    J::Arr(v.iter().map(|o| J::from(format!("T{}.{} {} -> {}  [inv {}, resp {}]", o.t, o.i, o.act.show(), o.res.show(), o.inv, o.resp))).collect())
}

struct Stats {
    schedules: u64,
    steps: u64,
    decision_points: u64,
    max_enabled: u32,
    deadlocks: u64,
    stale: u64,
    nonlin: u64,
    hazards: u64,
    events: u64,
    releases: u64,
    leaked: u64,
    finals: HashSet<u64>,
    seen_choice: HashSet<u64>,
}

impl ListSched {
    fn run_case<E: SElem>(&self, cfg: &Config, fns: Option<Arc<SFns<E>>>, rng: &mut Rng, out: &mut CaseOut) {
        let acts = cfg.resolve();
        let init: Model = [(1..=cfg.init_len as u64).collect(), (1..=cfg.init_len as u64).collect()];
        let mut st = Stats {
            schedules: 0,
            steps: 0,
            decision_points: 0,
            max_enabled: 0,
            deadlocks: 0,
            stale: 0,
            nonlin: 0,
            hazards: 0,
            events: 0,
            releases: 0,
            leaked: 0,
            finals: HashSet::new(),
            seen_choice: HashSet::new(),
        };
        let mut reported: HashSet<String> = HashSet::new();
        let mut first_schedule: Option<String> = None;
        let mut exhaustive = false;
        let mut stopped: Option<&'static str> = None;
        let mut prefix: Vec<u8> = Vec::new();
        let mut random_left = 0u64;
        let mut random_phase = false;
        let mut sched_rng = Rng::new(rng.next());
        let process_leak_budget = 1500u64;
        loop {
            let policy = if random_phase { Policy::Random(Rng::new(sched_rng.next())) } else { Policy::Lowest };
            let r = run_schedule::<E>(cfg, &acts, &fns, if random_phase { &[] } else { &prefix }, policy, self.full_points);
            st.schedules += 1;
            st.steps += r.steps.len() as u64;
            st.events += r.events;
            st.releases += r.releases;
            st.leaked += r.leaked;
            for s in &r.steps {
                let e = s.mask.count_ones();
                if e > 1 {
                    st.decision_points += 1;
                }
                st.max_enabled = st.max_enabled.max(e);
            }
            let choice = choice_text(&r.steps);
            st.seen_choice.insert(hash_str(&choice));
            if first_schedule.is_none() {
                first_schedule = Some(choice.clone());
            }
            let detail = |r: &SchedOut| {
                J::obj()
                    .set("config", cfg.to_json())
                    .set("schedule", choice.as_str())
                    .set("steps", J::Arr(steps_text(&r.steps, &acts)))
                    .set("history", hist_json(&r.hist))
            };
            if !r.hazards.is_empty() {
                st.hazards += r.hazards.len() as u64;
                let h = &r.hazards[0];
                let tag = format!("hazard:unlocked-read:{}-vs-{}@{}", h.read.label(), h.write.label(), cfg.elem.name());
                if !out.tags.contains(&tag) {
                    out.tags.push(tag);
                }
            }
            match &r.outcome {
                Outcome::Complete => {
                    // final observation joins the history
                    let mut ops = r.hist.clone();
                    let end = ops.iter().map(|o| o.resp).max().unwrap_or(0);
                    for obj in 0..2 {
                        ops.push(HOp { t: 99, i: obj, act: Act::Snap { obj }, inv: end + 1 + 2 * obj as u64, resp: end + 2 + 2 * obj as u64, res: Res::Seq(r.finals[obj].clone()) });
                    }
                    let fh = hash_str(&format!(
                        "{:?}|{:?}|{}",
                        r.finals[0],
                        r.finals[1],
                        {
                            let mut v: Vec<&HOp> = r.hist.iter().collect();
                            v.sort_by_key(|o| (o.t, o.i));
                            v.iter().map(|o| o.res.show()).collect::<Vec<_>>().join(";")
                        }
                    ));
                    st.finals.insert(fh);
                    if linearize(&ops, &init, 0).is_none() {
                        st.nonlin += 1;
                        // one signature per operation kind whose result cannot be explained
                        let (sigs, why) = match culprits(&ops, &init) {
                            Some(c) => {
                                let mut labels: Vec<String> = c.iter().map(|k| ops[*k].act.label()).collect();
                                labels.sort();
                                labels.dedup();
                                // mutators that overlap a culprit in real time
                                let mut muts: Vec<String> = Vec::new();
                                for k in &c {
                                    for p in &ops {
                                        if p.t != ops[*k].t && matches!(p.act, Act::Push { .. } | Act::Swap { .. }) && p.resp > ops[*k].inv && p.inv < ops[*k].resp {
                                            muts.push(p.act.label());
                                        }
                                    }
                                }
                                muts.sort();
                                muts.dedup();
                                (
                                    labels.iter().map(|l| format!("not-linearizable@{l}")).collect::<Vec<_>>(),
                                    format!(
                                        "no linearization explains the result of {} (concurrent mutators: {})",
                                        c.iter().map(|k| format!("T{}.{} {} -> {}", ops[*k].t, ops[*k].i, ops[*k].act.show(), ops[*k].res.show())).collect::<Vec<_>>().join(", "),
                                        muts.join(",")
                                    ),
                                )
                            }
                            None => (vec!["not-linearizable@many".to_string()], "no linearization, more than 3 results are unexplained".to_string()),
                        };
                        for sig in sigs {
                            if reported.insert(sig.clone()) {
                                out.viol(
                                    sig,
                                    format!("{why}; config {} (elem {}, init len {})", cfg.text(), cfg.elem.name(), cfg.init_len),
                                    detail(&r).set("final_a", format!("{:?}", r.finals[0])).set("final_b", format!("{:?}", r.finals[1])),
                                );
                            }
                        }
                    }
                }
                Outcome::Deadlock { sig_ops, blocked } => {
                    st.deadlocks += 1;
                    let sig = format!("deadlock@{}", sig_ops.join("||"));
                    if reported.insert(sig.clone()) {
                        out.viol(
                            sig,
                            format!(
                                "every unfinished thread waits for a list mutex that is not free: {}; config {} (elem {}, init len {})",
                                blocked.iter().map(|(t, l, w)| format!("T{t} in {l} {w}")).collect::<Vec<_>>().join("; "),
                                cfg.text(),
                                cfg.elem.name(),
                                cfg.init_len
                            ),
                            detail(&r),
                        );
                    }
                }
                Outcome::Stale(sp) => {
                    st.stale += 1;
                    let rel = sp.rel.map(|a| a.label()).unwrap_or_else(|| "drop".into());
                    let sig = format!("stale-pointer:{}-vs-{}@{}", sp.esc.label(), rel, cfg.elem.name());
                    if reported.insert(sig.clone()) {
                        out.viol(
                            sig,
                            format!(
                                "T{} [{}] holds an element pointer {:#x} that escaped its critical section; T{} [{}] released the buffer [{:#x}, +{}) before the pointer was used; config {} (elem {}, init len {})",
                                sp.esc_thread,
                                sp.esc.show(),
                                sp.addr,
                                sp.rel_thread,
                                sp.rel.map(|a| a.show()).unwrap_or_default(),
                                sp.buf,
                                sp.bytes,
                                cfg.text(),
                                cfg.elem.name(),
                                cfg.init_len
                            ),
                            detail(&r),
                        );
                    }
                }
                Outcome::Panic(t, msg) => {
                    let sig = panic_sig(msg);
                    if reported.insert(sig.clone()) {
                        out.viol(sig, format!("T{t} panicked: {msg}; config {}", cfg.text()), detail(&r));
                    }
                }
                Outcome::Watchdog(why) => {
                    out.skipped = Some(format!("scheduler-watchdog: {why}"));
                    stopped = Some("stopped:watchdog");
                }
                Outcome::Diverged(why) => {
                    out.skipped = Some(format!("scheduler-replay: {why}"));
                    stopped = Some("stopped:replay");
                }
            }
            if stopped.is_some() {
                break;
            }
            if st.leaked >= self.leak_cap {
                stopped = Some("stopped:leak-cap");
                break;
            }
            if LEAKED.load(Ordering::SeqCst) >= process_leak_budget {
                out.skipped = Some("leak-budget: too many threads leaked by this worker process".into());
                stopped = Some("stopped:leak-budget");
                break;
            }
            if random_phase {
                random_left -= 1;
                if random_left == 0 {
                    break;
                }
                continue;
            }
            // depth-first: deepest step with an untried enabled thread
            let mut next = None;
            for i in (0..r.steps.len()).rev() {
                let s = &r.steps[i];
                let higher = (s.mask as u32) & !((1u32 << (s.chosen as u32 + 1)) - 1);
                if higher != 0 {
                    next = Some((i, higher.trailing_zeros() as u8));
                    break;
                }
            }
            match next {
                None => {
                    exhaustive = true;
                    break;
                }
                Some((i, c)) => {
                    prefix = r.steps[..i].iter().map(|s| s.chosen).collect();
                    prefix.push(c);
                }
            }
            if st.schedules >= self.sched_cap {
                if self.rand_extra == 0 {
                    break;
                }
                random_phase = true;
                random_left = self.rand_extra;
            }
        }
        out.evals = st.schedules;
        out.events = st.events;
        out.nontrivial = st.seen_choice.len() >= 2;
        out.count("schedules", st.schedules);
        out.count("distinct-schedules", st.seen_choice.len() as u64);
        out.count("steps", st.steps);
        out.count("decision-points", st.decision_points);
        out.count("distinct-final-states", st.finals.len() as u64);
        out.count("max-enabled", st.max_enabled as u64);
        out.count("deadlocks", st.deadlocks);
        out.count("stale-pointer-hits", st.stale);
        out.count("not-linearizable", st.nonlin);
        out.count("buffer-releases", st.releases);
        out.count("hazard-unlocked-read-vs-swap", st.hazards);
        out.count("leaked-threads", st.leaked);
        out.count("exhaustive", exhaustive as u64);
        if let Some(s) = stopped {
            out.count(s, 1);
        }
        out.tags.push(format!("explore:{}", if exhaustive { "exhaustive" } else { "capped" }));
        if st.releases > 0 {
            out.tags.push("buffer:released".into());
        }
        if st.deadlocks > 0 {
            out.tags.push("abort:deadlock".into());
        }
        if st.stale > 0 {
            out.tags.push("abort:stale-pointer".into());
        }
        out.sample = Some(
            J::obj()
                .set("config", cfg.to_json())
                .set("schedule", first_schedule.unwrap_or_default())
                .set("schedules", st.schedules)
                .set("exhaustive", exhaustive),
        );
    }
}

impl Family for ListSched {
    fn n_cases(&self, args: &Args) -> u64 {
        // the whole 2 x <=2 enumeration is covered by prelude + ceil(4/3 * n_enum) cases
        // (`--cases 162440`); the defaults are prefixes of the same strided order
        // (or, with `--enum-only 1`, by prelude + n_enum cases)
        if self.enum_only {
            return self.prelude.len() as u64 + self.n_enum();
        }
        if args.thorough() { self.prelude.len() as u64 + 16_000 } else { self.prelude.len() as u64 + 4_000 }
    }

    fn run(&mut self, k: u64, rng: &mut Rng, _args: &Args) -> CaseOut {
        let cfg = self.config_for(k, rng);
        let mut out = CaseOut { hash: hash_str(&cfg.key()), ..CaseOut::default() };
        let mut ops: Vec<&'static str> = cfg.progs.iter().flatten().map(|o| o.name()).collect();
        ops.sort();
        ops.dedup();
        for o in ops {
            out.tags.push(format!("op:{o}"));
        }
        out.tags.push(format!("threads:{}", cfg.progs.len()));
        out.tags.push(format!("ops:{}", cfg.progs.iter().map(|p| p.len()).max().unwrap_or(0)));
        out.tags.push(format!("shape:{}", cfg.progs.iter().map(|p| p.len().to_string()).collect::<Vec<_>>().join("+")));
        out.tags.push(format!("elem:{}", cfg.elem.name()));
        out.tags.push(format!("init-len:{}", cfg.init_len));
        out.tags.push(format!("origin:{}", cfg.origin));
        let script = cfg.uses_script();
        match cfg.elem {
            ElemKind::U64 => {
                let fns = if script {
                    match Self::fns::<u64>(&mut self.rt, &mut self.fns_u64) {
                        Ok(f) => Some(f),
                        Err(e) => {
                            out.skipped = Some(format!("script functions rejected: {e}"));
                            return out;
                        }
                    }
                } else {
                    None
                };
                self.run_case::<u64>(&cfg, fns, rng, &mut out);
            }
            ElemKind::Str => {
                let fns = if script {
                    match Self::fns::<RotoString>(&mut self.rt, &mut self.fns_str) {
                        Ok(f) => Some(f),
                        Err(e) => {
                            out.skipped = Some(format!("script functions rejected: {e}"));
                            return out;
                        }
                    }
                } else {
                    None
                };
                self.run_case::<RotoString>(&cfg, fns, rng, &mut out);
            }
        }
        out
    }

    fn describe(&mut self, k: u64, rng: &mut Rng, _args: &Args) -> Option<J> {
        Some(self.config_for(k, rng).to_json())
    }
}
