//! C16 — concurrent operations on one list are linearizable w.r.t. the shared-vector
//! model, no element is read through an address obtained before another thread's push
//! relocated / freed the storage, and no interleaving deadlocks.
//!
//! Family `list-sched`: a stateless-exploration controlled scheduler over the REAL
//! `roto::List` code. From roto it only needs the two `verif-hooks` list events
//! `BeforeLock` (schedule point) and `BufferReleased` (a buffer is about to be freed /
//! moved); everything about element reads is observed from OUTSIDE roto, through the
//! element type.
//!
//! How it works
//! ------------
//! * Worker threads T0..Tn-1 execute fixed short programs on shared lists `a` and `b`
//!   (every thread owns clones of both handles made before the threads start).
//! * Yield points (the thread PARKS there until it is scheduled):
//!     - `BeforeLock` — immediately before every lock acquisition of a SHARED list.
//!       Enabled iff the real lock lets the thread in: the probe `is_free()` says so, or
//!       — if the probe says "somebody holds it in some mode" — a trial on the real code
//!       says that this acquisition is compatible with every holder (see "Truthful
//!       enabledness" below; with a plain mutex that is never the case). Probes are only
//!       evaluated while every controlled thread is parked or finished, so the answer
//!       cannot change before the chosen thread really locks.
//!     - element callbacks — element kind `Val` is a registered host type (`Val<Yv>`)
//!       whose `clone`, `==` and `drop` call `elem_event` before they touch the value.
//!       Inside a list operation (Rust API or compiled script function) these are
//!       always-enabled yield points: an operation that scans a list is cut between any
//!       two element accesses, and another thread's push / swap runs in between exactly
//!       if the lock allows it.
//!   Exactly one controlled thread runs at any time. All scheduler state lives under
//!   one mutex (`SCHED`). When the running thread parks or finishes, nobody runs; at
//!   that moment the scheduling decision (`decide`) is taken under the mutex — on the
//!   thread that just parked / finished, which saves two context switches per step —:
//!   it computes the enabled set, picks one thread according to the schedule prefix /
//!   policy, marks it `Running` and unparks it (or simply continues if it picked
//!   itself). Everybody else stays blocked in `std::thread::park()` and re-checks its
//!   state under the mutex after a wake-up. A thread released at `BeforeLock` then
//!   really calls `lock()`, which succeeds at once. The family's `run` (worker main
//!   thread, `run_schedule`) sets a schedule up, starts the threads one at a time up to
//!   their first yield point, then only waits for the outcome (with the watchdog).
//! * Granularity. Lock RELEASE is not a separate yield point: after a release a thread
//!   only executes thread-local code until its next yield point — unless it goes on
//!   reading elements, and every element read (kind `Val`) is a yield point of its own.
//!   Moving a thread-local step across other threads' steps does not change any result,
//!   so this explores every interleaving at lock-acquisition / lock-release granularity
//!   and, for `Val`, at element-access granularity. A lock of a list that no other
//!   thread can reach (the fresh result list inside `concat`) is a thread-local step and
//!   not a yield point (`--full-points 1` parks there as well).
//! * Monitors.
//!   (1) Deadlock: nobody runs, somebody is unfinished, the enabled set is empty.
//!   (2) Stale element read, HOOK-INDEPENDENT: `BufferReleased{addr,bytes}` puts the
//!       range into the set of released ranges; a range leaves the set when a list is seen
//!       to own those addresses again (after every push the pushing thread, still running
//!       alone, asks the list where its elements are: `query_live_buffer`). An element
//!       callback — AFTER its yield, i.e. immediately before the read — checks the
//!       address of `self` / `other` (addresses on the thread's own stack are
//!       temporaries) against the ranges released by OTHER threads: a hit means the
//!       operation is about to read an element through an address into a buffer that a
//!       concurrent push freed or moved => `stale-pointer:<reading op>-vs-<releasing
//!       op>@Val`. The read is never performed (the schedule is abandoned), so the check
//!       is deterministic and harmless. This needs no annotation in roto: it catches any
//!       code path that keeps using element addresses after the guard is gone (`List::get`
//!       cloning after unlock, the script-side get re-locking, a slice built under the
//!       lock and used later in `==` / `to_vec` ...). Backstop: the value read must carry
//!       the live canary and a plausible id (`...-vs-garbage@Val` otherwise). A realloc
//!       that grows in place does not move the storage and is (correctly) not reported.
//!   (3) Linearizability: WGL-style search over the recorded invocation / response
//!       history (plus the final contents of both lists) against `Vec<u64>` per list.
//!   Which build flavour sees what: the plain build decides (1)–(3); element kinds `u64`
//!   and `String` have no callbacks, for them the plain build only has (1) and (3) (a
//!   stale `u64` read shows up, if at all, as an unexplainable value; a stale `String`
//!   clone follows a dangling `Arc` and typically kills the worker — the driver reports
//!   the death with the case). Under the ASan flavour a stale read of ANY kind inside
//!   roto is a hard heap-use-after-free report; TSan/Miri (families of C15/C12) report
//!   the unlocked access as a data race.
//! * Truthful enabledness. "The probe says not free" only means that somebody holds the
//!   lock in some mode. If the lock type ever admits several holders (reader/writer
//!   lock), a push / swap / scan of another thread must be schedulable between two
//!   element callbacks exactly if the real lock lets it in. The harness asks the real
//!   code (`compatible` / `run_trial`): two helper threads replay, on private lists,
//!   the holder's operation up to the point where it sits and the entrant's operation
//!   up to the acquisition in question; the entrant either passes or goes to sleep in
//!   the lock (OS thread state). Answers are cached per process. On the current tree
//!   (plain mutex) every answer is "no", i.e. enabled == probe.
//! * Pairs of lists are locked in address order, so the relative position of `a` and
//!   `b` is part of the configuration (`lock-order:a<b|b<a`, fixed per case).
//! * So is the placement of the HANDLES: an implementation may look at `&self` /
//!   `&other` (e.g. order two locks by the address of the handle instead of the list).
//!   Every thread keeps its handles in one array (`Handles`): the handle of `b` in the
//!   middle, the handle of `a` and its clones (`clone` operation) all below or all above
//!   it, chosen per thread and per case (`handle-order:T<i>:a<b|b<a`, part of the
//!   configuration and of its hash / replay data). Script calls receive their lists by
//!   value; their counterpart is a second script function that takes the operands in
//!   the other parameter order. All combinations are enumerated for the 2-thread
//!   configurations (for the threads that have a two-list operation), random
//!   configurations draw them.
//! * Exploration: depth-first over scheduling choices with replay from a fresh state
//!   for every schedule (fresh lists, fresh handles, fresh scheduler state; the OS
//!   threads are pooled, a thread that was leaked / abandoned is replaced). A schedule
//!   is the sequence of chosen thread indices; after the replayed prefix the policy is
//!   "lowest enabled thread" (or seeded random); the enabled sets recorded at every step
//!   give the next prefix. Configurations whose schedule count exceeds the cap get the
//!   first `cap` schedules in DFS order plus seeded random schedules (`explore:capped`).
//! * Abandoning a schedule (deadlock / stale read): parked threads that are inside
//!   plain Rust frames leave by unwinding with a marker payload (`resume_unwind`, no
//!   panic hook); guards and handles are released by the unwinding. A thread parked
//!   below JIT frames (script call) or inside an element callback (below the `extern
//!   "C"` vtable functions) cannot unwind: it is leaked (blocked forever); the number of
//!   leaked threads is capped per case (`stopped:leak-cap`) and per process. On a tree
//!   without defects no schedule is ever abandoned.
//! * Watchdog: if a schedule does not end within 10 s of wall clock (5 orders of
//!   magnitude above its cost) the case is reported as `skipped: scheduler-watchdog`
//!   (never a violation) and its threads are abandoned. `--selftest hang` exercises this
//!   path, `--selftest model` breaks the model on purpose (the oracle must object).
//! * Signatures: `stale-pointer:<List::get|script-get|eq(a,b)|to_vec|contains|...>-vs-
//!   <push|garbage>@Val`, `deadlock@<sorted labels of the operations in the cycle>`,
//!   `not-linearizable@<operation whose result no linearization explains>`.
//! * Options: `--elems u64,String,Val`, `--sched-cap N`, `--rand-extra N`,
//!   `--leak-cap N`, `--full-points 1`, `--enum-only 1`, `--selftest hang|model`;
//!   `LISTSCHED_DEBUG=1` prints the lock trials.

use std::cell::{Cell, RefCell};
use std::collections::HashSet;
use std::sync::atomic::{AtomicU64, Ordering};
use std::sync::{Arc, Mutex, MutexGuard};
use std::time::{Duration, Instant};

use roto::verif::{ListEvent, set_list_hook};
use roto::{List, NoCtx, RotoString, Runtime, TypedFunc, Val, Value, library};

use crate::jsonw::J;
use crate::rng::Rng;
use crate::work::{Args, CaseOut, Family, hash_str, panic_sig};

// ---------------------------------------------------------------------------
// Element types
// ---------------------------------------------------------------------------

const GARBAGE: u64 = u64::MAX;

/// Element type of the lists under test; elements are made from small unique ids.
pub trait SElem: Value<Transformed: PartialEq> + PartialEq + Clone + Send + Sync + 'static {
    const NAME: &'static str;
    const ROTO: &'static str;
    /// clone / == / drop of an element report to the scheduler
    const CALLBACKS: bool = false;
    fn mk(id: u64) -> Self;
    fn id(&self) -> u64;
}

impl SElem for u64 {
    const NAME: &'static str = "u64";
    const ROTO: &'static str = "u64";
    fn mk(id: u64) -> u64 {
        0x5EED_0000_0000_0000 | id
    }
    fn id(&self) -> u64 {
        if *self >> 48 == 0x5EED { *self & 0xffff_ffff_ffff } else { GARBAGE }
    }
}

impl SElem for RotoString {
    const NAME: &'static str = "String";
    const ROTO: &'static str = "String";
    fn mk(id: u64) -> RotoString {
        RotoString::from(format!("elem-{id:06}-heap-payload"))
    }
    fn id(&self) -> u64 {
        let s: &str = self;
        match s.strip_prefix("elem-").and_then(|r| r.strip_suffix("-heap-payload")) {
            Some(d) => d.parse().unwrap_or(GARBAGE),
            None => GARBAGE,
        }
    }
}

/// The monitored element type: a registered host type (`Val<Yv>`, 16 bytes) whose
/// `clone`, `==` and `drop` report to the scheduler (`elem_event`): they are yield
/// points and check the address they are about to read.
#[derive(Debug)]
pub struct Yv {
    id: u64,
    canary: u64,
}

const CANARY_LIVE: u64 = 0x11fe_c0de_5ced_a11e;
const CANARY_DEAD: u64 = 0xdead_dead_dead_dead;

impl Yv {
    fn new(id: u64) -> Yv {
        Yv { id, canary: CANARY_LIVE }
    }
    /// Called after `elem_event` allowed the read: the bytes must be a live element.
    fn checked_id(&self, what: &'static str) -> u64 {
        let (id, canary) = (self.id, self.canary);
        if canary != CANARY_LIVE || id >= 1_000_000 {
            elem_garbage(what, self as *const Yv as usize, id, canary);
        }
        id
    }
}

impl Clone for Yv {
    fn clone(&self) -> Yv {
        elem_event("clone", self as *const Yv as usize, None);
        Yv::new(self.checked_id("clone"))
    }
}

impl PartialEq for Yv {
    fn eq(&self, o: &Yv) -> bool {
        elem_event("eq", self as *const Yv as usize, Some(o as *const Yv as usize));
        self.checked_id("eq") == o.checked_id("eq")
    }
}

impl Drop for Yv {
    fn drop(&mut self) {
        elem_event("drop", self as *const Yv as usize, None);
        self.canary = CANARY_DEAD;
    }
}

impl SElem for Val<Yv> {
    const NAME: &'static str = "Val";
    const ROTO: &'static str = "Yv";
    const CALLBACKS: bool = true;
    fn mk(id: u64) -> Val<Yv> {
        Val(Yv::new(id))
    }
    fn id(&self) -> u64 {
        // (plain field read: the harness' own observations are not yield points)
        if self.0.canary == CANARY_LIVE { self.0.id } else { GARBAGE }
    }
}

#[derive(Clone, Copy, PartialEq, Eq, Debug)]
enum ElemKind {
    U64,
    Str,
    Val,
}

const ELEM_KINDS: [ElemKind; 3] = [ElemKind::U64, ElemKind::Str, ElemKind::Val];

impl ElemKind {
    fn name(self) -> &'static str {
        match self {
            ElemKind::U64 => "u64",
            ElemKind::Str => "String",
            ElemKind::Val => "Val",
        }
    }
}

// ---------------------------------------------------------------------------
// Operation alphabet and configurations
// ---------------------------------------------------------------------------

/// Operation alphabet. "a" / "b" are the two shared list objects.
#[derive(Clone, Copy, PartialEq, Eq, Debug, Hash)]
enum Op {
    Get0,
    GetLast,
    PushA,
    PushB,
    Contains,
    Swap01,
    ConcatAA,
    ConcatAB,
    CloneH,
    DropH,
    EqAB,
    EqBA,
    Len,
    ToVec,
    // through a compiled script function
    SGet0,
    SGetLast,
    SEqAB,
    SConcatAB,
    SContains,
    SIndex,
}

/// The alphabet of the exhaustive 2 x <=2 enumeration (Rust API).
const RUST_OPS: [Op; 14] = [
    Op::Get0,
    Op::GetLast,
    Op::PushA,
    Op::PushB,
    Op::Contains,
    Op::Swap01,
    Op::ConcatAA,
    Op::ConcatAB,
    Op::CloneH,
    Op::DropH,
    Op::EqAB,
    Op::EqBA,
    Op::Len,
    Op::ToVec,
];
/// Script-side operations (thread 0 of the script family).
const SCRIPT_OPS: [Op; 6] = [Op::SGet0, Op::SGetLast, Op::SEqAB, Op::SConcatAB, Op::SContains, Op::SIndex];
const INIT_LENS: [usize; 3] = [0, 3, 4];

impl Op {
    fn name(self) -> &'static str {
        match self {
            Op::Get0 => "get(0)",
            Op::GetLast => "get(last)",
            Op::PushA => "push",
            Op::PushB => "push(b)",
            Op::Contains => "contains",
            Op::Swap01 => "swap(0,1)",
            Op::ConcatAA => "concat(a,a)",
            Op::ConcatAB => "concat(a,b)",
            Op::CloneH => "clone",
            Op::DropH => "drop",
            Op::EqAB => "eq(a,b)",
            Op::EqBA => "eq(b,a)",
            Op::Len => "len",
            Op::ToVec => "to_vec",
            Op::SContains => "s.contains",
            Op::SIndex => "s.index",
            Op::SGet0 => "s.get(0)",
            Op::SGetLast => "s.get(last)",
            Op::SEqAB => "s.eq(a,b)",
            Op::SConcatAB => "s.concat(a,b)",
        }
    }
    fn is_script(self) -> bool {
        matches!(self, Op::SGet0 | Op::SGetLast | Op::SEqAB | Op::SConcatAB | Op::SContains | Op::SIndex)
    }
}

/// An operation with all parameters resolved (what a thread executes, what the model
/// replays).
#[derive(Clone, Copy, PartialEq, Eq, Debug)]
enum Act {
    Get { obj: usize, idx: usize, script: bool },
    Push { obj: usize, v: u64 },
    Contains { obj: usize, v: u64, script: bool },
    Index { obj: usize, v: u64 },
    ToVec { obj: usize },
    Swap { obj: usize, i: usize, j: usize },
    Concat { x: usize, y: usize, script: bool },
    Eq { x: usize, y: usize, script: bool },
    Len { obj: usize },
    CloneH,
    DropH,
    /// final observation by the controller (not executed by a thread)
    Snap { obj: usize },
}

fn oname(o: usize) -> &'static str {
    if o == 0 { "a" } else { "b" }
}

impl Act {
    /// label used in signatures (independent of indices / values)
    fn label(&self) -> String {
        match *self {
            Act::Get { script: false, .. } => "List::get".into(),
            Act::Get { script: true, .. } => "script-get".into(),
            Act::Push { .. } => "push".into(),
            Act::Contains { script: false, .. } => "contains".into(),
            Act::Contains { script: true, .. } => "s.contains".into(),
            Act::Index { .. } => "s.index".into(),
            Act::ToVec { .. } => "to_vec".into(),
            Act::Swap { .. } => "swap".into(),
            Act::Concat { x, y, script } => format!("{}concat({},{})", if script { "s." } else { "" }, oname(x), oname(y)),
            Act::Eq { x, y, script } => format!("{}eq({},{})", if script { "s." } else { "" }, oname(x), oname(y)),
            Act::Len { .. } => "len".into(),
            Act::CloneH => "clone".into(),
            Act::DropH => "drop".into(),
            Act::Snap { .. } => "final-state".into(),
        }
    }
    fn show(&self) -> String {
        match *self {
            Act::Get { obj, idx, script } => format!("{}{}.get({idx})", if script { "script:" } else { "" }, oname(obj)),
            Act::Push { obj, v } => format!("{}.push(#{v})", oname(obj)),
            Act::Contains { obj, v, script } => format!("{}{}.contains(#{v})", if script { "script:" } else { "" }, oname(obj)),
            Act::Index { obj, v } => format!("script:{}.index(#{v})", oname(obj)),
            Act::ToVec { obj } => format!("{}.to_vec()", oname(obj)),
            Act::Swap { obj, i, j } => format!("{}.swap({i},{j})", oname(obj)),
            Act::Concat { x, y, script } => format!("{}{}.concat({})", if script { "script:" } else { "" }, oname(x), oname(y)),
            Act::Eq { x, y, script } => format!("{}{} == {}", if script { "script:" } else { "" }, oname(x), oname(y)),
            Act::Len { obj } => format!("{}.len()", oname(obj)),
            Act::CloneH => "h = a.clone()".into(),
            Act::DropH => "drop(h)".into(),
            Act::Snap { obj } => format!("final {}.to_vec()", oname(obj)),
        }
    }
    /// what matters for the locks an operation takes: its kind and its lists
    fn lock_key(&self) -> String {
        let objs = match *self {
            Act::Get { obj, .. } | Act::Push { obj, .. } | Act::Contains { obj, .. } | Act::Index { obj, .. } | Act::ToVec { obj } | Act::Swap { obj, .. } | Act::Len { obj } | Act::Snap { obj } => oname(obj),
            _ => "",
        };
        format!("{}{}{}", self.label(), if objs.is_empty() { "" } else { "@" }, objs)
    }
    fn is_script(&self) -> bool {
        matches!(self, Act::Get { script: true, .. } | Act::Concat { script: true, .. } | Act::Eq { script: true, .. } | Act::Contains { script: true, .. } | Act::Index { .. })
    }
}

#[derive(Clone, Debug)]
struct Config {
    elem: ElemKind,
    init_len: usize,
    progs: Vec<Vec<Op>>,
    /// per thread: does the handle of `a` lie below the handle of `b`
    horder: Vec<bool>,
    origin: &'static str,
}

impl Op {
    /// takes the locks of both lists
    fn is_pair(self) -> bool {
        matches!(self, Op::EqAB | Op::EqBA | Op::ConcatAB | Op::SEqAB | Op::SConcatAB)
    }
}

fn horder_text(h: &[bool]) -> String {
    h.iter().enumerate().map(|(t, f)| format!("T{t}:{}", if *f { "a<b" } else { "b<a" })).collect::<Vec<_>>().join(",")
}

impl Config {
    fn text(&self) -> String {
        self.progs
            .iter()
            .enumerate()
            .map(|(t, p)| format!("T{t}: {}", p.iter().map(|o| o.name()).collect::<Vec<_>>().join("; ")))
            .collect::<Vec<_>>()
            .join(" || ")
    }
    fn key(&self) -> String {
        format!("{}/{}/{}/{}", self.elem.name(), self.init_len, self.text(), horder_text(&self.horder))
    }
    fn uses_script(&self) -> bool {
        self.progs.iter().flatten().any(|o| o.is_script())
    }
    fn pushed_value(t: usize, i: usize) -> u64 {
        100 * (t as u64 + 1) + i as u64
    }
    /// Resolve indices and values. Element ids: initial elements 1..=init_len (both
    /// lists start with the same contents, so that `a == b` is not constant), pushed
    /// elements 100*(thread+1)+position: all distinct.
    fn resolve(&self) -> Vec<Vec<Act>> {
        let last = self.init_len.saturating_sub(1);
        // the first value another thread pushes onto `a` (for contains)
        let first_push_a = |me: usize| -> Option<u64> {
            for (t, p) in self.progs.iter().enumerate() {
                if t == me {
                    continue;
                }
                for (i, o) in p.iter().enumerate() {
                    if *o == Op::PushA {
                        return Some(Self::pushed_value(t, i));
                    }
                }
            }
            None
        };
        self.progs
            .iter()
            .enumerate()
            .map(|(t, p)| {
                p.iter()
                    .enumerate()
                    .map(|(i, o)| match o {
                        Op::Get0 => Act::Get { obj: 0, idx: 0, script: false },
                        Op::GetLast => Act::Get { obj: 0, idx: last, script: false },
                        Op::SGet0 => Act::Get { obj: 0, idx: 0, script: true },
                        Op::SGetLast => Act::Get { obj: 0, idx: last, script: true },
                        Op::PushA => Act::Push { obj: 0, v: Self::pushed_value(t, i) },
                        Op::PushB => Act::Push { obj: 1, v: Self::pushed_value(t, i) },
                        Op::Contains => Act::Contains { obj: 0, v: first_push_a(t).unwrap_or(if self.init_len > 0 { last as u64 + 1 } else { 9999 }), script: false },
                        Op::SContains => Act::Contains { obj: 0, v: first_push_a(t).unwrap_or(if self.init_len > 0 { last as u64 + 1 } else { 9999 }), script: true },
                        Op::SIndex => Act::Index { obj: 0, v: first_push_a(t).unwrap_or(if self.init_len > 0 { last as u64 + 1 } else { 9999 }) },
                        Op::ToVec => Act::ToVec { obj: 0 },
                        Op::Swap01 => Act::Swap { obj: 0, i: 0, j: 1 },
                        Op::ConcatAA => Act::Concat { x: 0, y: 0, script: false },
                        Op::ConcatAB => Act::Concat { x: 0, y: 1, script: false },
                        Op::SConcatAB => Act::Concat { x: 0, y: 1, script: true },
                        Op::CloneH => Act::CloneH,
                        Op::DropH => Act::DropH,
                        Op::EqAB => Act::Eq { x: 0, y: 1, script: false },
                        Op::EqBA => Act::Eq { x: 1, y: 0, script: false },
                        Op::SEqAB => Act::Eq { x: 0, y: 1, script: true },
                        Op::Len => Act::Len { obj: 0 },
                    })
                    .collect()
            })
            .collect()
    }
    fn to_json(&self) -> J {
        J::obj()
            .set("elem", self.elem.name())
            .set("init_len", self.init_len as u64)
            .set("origin", self.origin)
            .set("programs", self.text())
            .set("handle_order", horder_text(&self.horder))
            .set(
                "resolved",
                J::Arr(
                    self.resolve()
                        .iter()
                        .map(|p| J::Arr(p.iter().map(|a| J::from(a.show())).collect()))
                        .collect(),
                ),
            )
    }
}

/// Result of one operation (element ids, never the elements themselves).
#[derive(Clone, PartialEq, Eq, Debug)]
enum Res {
    Unit,
    Opt(Option<u64>),
    Bool(bool),
    Num(u64),
    Seq(Vec<u64>),
}

impl Res {
    fn show(&self) -> String {
        match self {
            Res::Unit => "()".into(),
            Res::Opt(None) => "None".into(),
            Res::Opt(Some(v)) => format!("Some(#{v})"),
            Res::Bool(b) => format!("{b}"),
            Res::Num(n) => format!("{n}"),
            Res::Seq(v) => format!("[{}]", v.iter().map(|x| format!("#{x}")).collect::<Vec<_>>().join(",")),
        }
    }
}

// ---------------------------------------------------------------------------
// Script functions
// ---------------------------------------------------------------------------

struct SFns<E: SElem> {
    get: TypedFunc<NoCtx, fn(List<E>, u64) -> Option<E>>,
    eq: TypedFunc<NoCtx, fn(List<E>, List<E>) -> bool>,
    concat: TypedFunc<NoCtx, fn(List<E>, List<E>) -> List<E>>,
    contains: TypedFunc<NoCtx, fn(List<E>, E) -> bool>,
    index: TypedFunc<NoCtx, fn(List<E>, E) -> Option<u64>>,
    /// `q == p` / `q.concat(p)` of `(p, q)`: the operands arrive in the other order
    eq_r: TypedFunc<NoCtx, fn(List<E>, List<E>) -> bool>,
    concat_r: TypedFunc<NoCtx, fn(List<E>, List<E>) -> List<E>>,
}

/// The harness runtime plus the monitored element type.
fn sched_runtime() -> Runtime<NoCtx> {
    let mut rt = crate::host::runtime();
    rt.add(library! {
        /// element type of the C16 scheduler: clone / == / drop are monitored
        #[clone] type Yv = Val<Yv>;
    })
    .expect("Yv registers");
    rt
}

impl<E: SElem> SFns<E> {
    fn compile(rt: &Runtime<NoCtx>) -> Result<SFns<E>, String> {
        let t = E::ROTO;
        let src = format!(
            "fn g(l: List[{t}], i: u64) -> {t}? {{ l.get(i) }}\n\
             fn e(a: List[{t}], b: List[{t}]) -> bool {{ a == b }}\n\
             fn c(a: List[{t}], b: List[{t}]) -> List[{t}] {{ a.concat(b) }}\n\
             fn k(l: List[{t}], x: {t}) -> bool {{ l.contains(x) }}\n\
             fn ix(l: List[{t}], x: {t}) -> u64? {{ l.index(x) }}\n\
             fn er(p: List[{t}], q: List[{t}]) -> bool {{ q == p }}\n\
             fn cr(p: List[{t}], q: List[{t}]) -> List[{t}] {{ q.concat(p) }}\n"
        );
        let mut pkg = crate::exec::compile(&src, rt)?;
        Ok(SFns {
            get: pkg.get_function("g").map_err(|e| format!("get_function(g): {e}"))?,
            eq: pkg.get_function("e").map_err(|e| format!("get_function(e): {e}"))?,
            concat: pkg.get_function("c").map_err(|e| format!("get_function(c): {e}"))?,
            contains: pkg.get_function("k").map_err(|e| format!("get_function(k): {e}"))?,
            index: pkg.get_function("ix").map_err(|e| format!("get_function(ix): {e}"))?,
            eq_r: pkg.get_function("er").map_err(|e| format!("get_function(er): {e}"))?,
            concat_r: pkg.get_function("cr").map_err(|e| format!("get_function(cr): {e}"))?,
        })
    }
}

// ---------------------------------------------------------------------------
// Scheduler state (one global instance; one schedule at a time)
// ---------------------------------------------------------------------------

/// The probe closure of a `BeforeLock` event. It lives on the stack of the thread that
/// is parked inside the hook callback, so it stays valid for as long as that thread is
/// parked; the controller only calls it in that state. The closure captures a
/// `&Mutex<_>` (Sync), so calling it from the controller thread is sound.
#[derive(Clone, Copy)]
struct Probe(*const (dyn Fn() -> bool + 'static));
// SAFETY: see above.
unsafe impl Send for Probe {}

#[derive(Clone, Copy)]
enum Point {
    Lock { list: usize, probe: Probe },
    /// inside `clone` / `==` / `drop` of a monitored element, before it reads
    Elem,
}

#[derive(Clone, Copy)]
enum TState {
    NotStarted,
    Running,
    Parked(Point),
    Finished,
}

struct ThreadSt {
    state: TState,
    cur_op: usize,
    cur_act: Option<Act>,
    op_started: bool,
    inv: u64,
    /// shared lists this thread was woken at (acquired) during the current operation
    woken_locks: Vec<usize>,
    leaked: bool,
    exited: bool,
    panic: Option<String>,
}

/// A buffer range that a list released (freed or moved) and that no list has been
/// seen to own since.
#[derive(Clone, Debug)]
struct Released {
    addr: usize,
    bytes: usize,
    thread: usize,
    act: Option<Act>,
    clock: u64,
}

#[derive(Clone, Debug)]
struct HOp {
    t: usize,
    i: usize,
    act: Act,
    inv: u64,
    resp: u64,
    res: Res,
}

/// An element callback was about to read (or read) memory that is not a live element.
#[derive(Clone, Debug)]
struct Stale {
    /// reading thread, its operation, the callback
    esc_thread: usize,
    esc: Act,
    what: &'static str,
    addr: usize,
    /// the release that made the address stale (None: the bytes read are garbage)
    rel: Option<Released>,
    garbage: Option<(u64, u64)>,
}

struct Sched {
    generation: u64,
    abort: bool,
    running: Option<usize>,
    threads: Vec<ThreadSt>,
    clock: u64,
    events: u64,
    releases: u64,
    /// yields at element callbacks
    elem_yields: u64,
    released: Vec<Released>,
    stale: Option<Stale>,
    hist: Vec<HOp>,
    /// lock compatibility learnt by trials (persists over schedules), see `compatible`
    compat: std::collections::BTreeMap<String, bool>,
    trials: u64,
    /// mutex addresses of the shared lists a, b
    shared: [usize; 2],
    full_points: bool,
    obj_len: [usize; 2],
    /// per thread: handle of `a` below handle of `b`
    horder: Vec<bool>,
    /// start-up phase: parking threads report to the controller instead of deciding
    startup: bool,
    /// replayed choices, then `policy`
    prefix: Vec<u8>,
    policy: Policy,
    steps: Vec<Step>,
    /// set when the schedule is over
    outcome: Option<Outcome>,
    /// start-up: the programs not yet picked up, and whose turn it is
    jobs: Vec<Option<Job>>,
    start_turn: usize,
    /// id of the valid pool thread of every slot (0 = none)
    pool_id: [u64; MAX_THREADS],
    next_pool_id: u64,
    /// whom to unpark: the pool threads and the controller
    handles: [Option<std::thread::Thread>; MAX_THREADS],
    controller: Option<std::thread::Thread>,
}
// SAFETY: `Probe` is Send (see there), `Job` is Send; nothing else is thread-bound.
unsafe impl Send for Sched {}

static SCHED: Mutex<Sched> = Mutex::new(Sched {
    generation: 0,
    abort: false,
    running: None,
    threads: Vec::new(),
    clock: 0,
    events: 0,
    releases: 0,
    elem_yields: 0,
    released: Vec::new(),
    stale: None,
    hist: Vec::new(),
    compat: std::collections::BTreeMap::new(),
    trials: 0,
    shared: [0, 0],
    full_points: false,
    obj_len: [0, 0],
    horder: Vec::new(),
    startup: true,
    prefix: Vec::new(),
    policy: Policy::Lowest,
    steps: Vec::new(),
    outcome: None,
    jobs: Vec::new(),
    start_turn: usize::MAX,
    pool_id: [0; MAX_THREADS],
    next_pool_id: 0,
    handles: [None, None, None, None],
    controller: None,
});
const MAX_THREADS: usize = 4;

/// Hand-off. All scheduler state lives under the one mutex `SCHED`; a thread that has
/// to wait releases the mutex and blocks in `std::thread::park()`, re-checking its
/// condition under the mutex after every wake-up (park tokens make lost wake-ups
/// impossible, spurious ones are harmless). Whoever changes the state unparks the
/// thread concerned AFTER releasing the mutex (`send`), so that the woken thread does
/// not run into a held mutex.
#[derive(Clone, Copy, PartialEq, Eq)]
enum Wake {
    Nobody,
    Thread(usize),
    Controller,
    /// every controlled thread (abandon / watchdog)
    AllThreads,
}

fn send(s: MutexGuard<'static, Sched>, w: Wake) {
    match w {
        Wake::Nobody => {}
        Wake::Thread(t) => {
            let h = s.handles[t].clone();
            drop(s);
            if let Some(h) = h {
                h.unpark();
            }
        }
        Wake::Controller => {
            let h = s.controller.clone();
            drop(s);
            if let Some(h) = h {
                h.unpark();
            }
        }
        Wake::AllThreads => {
            let hs = s.handles.clone();
            drop(s);
            for h in hs.into_iter().flatten() {
                h.unpark();
            }
        }
    }
}

/// Controlled threads are pooled: pool thread `t` executes the program of logical
/// thread `t` of one schedule after the other (every schedule still starts from a
/// fresh state: fresh lists, fresh handles, fresh scheduler state). A thread that was
/// leaked or abandoned is dropped from the pool (its id is invalidated) and replaced.
type Job = Box<dyn FnOnce() + Send + 'static>;

fn pool_thread(t: usize, id: u64) {
    mark_stack_top();
    loop {
        let job = loop {
            let mut s = lock_sched();
            if s.pool_id[t] != id {
                return;
            }
            if s.start_turn == t && s.jobs.get(t).is_some_and(|j| j.is_some()) {
                // start-up phase: it is this thread's turn to run up to its first hook point
                s.threads[t].state = TState::Running;
                s.running = Some(t);
                break s.jobs[t].take().unwrap();
            }
            drop(s);
            std::thread::park();
        };
        job();
    }
}

fn pool_ensure(s: &mut Sched, t: usize) {
    if s.pool_id[t] == 0 {
        s.next_pool_id += 1;
        let id = s.next_pool_id;
        s.pool_id[t] = id;
        let jh = std::thread::Builder::new()
            .name(format!("sched-T{t}"))
            .stack_size(STACK_SIZE)
            .spawn(move || pool_thread(t, id))
            .expect("spawn controlled thread");
        s.handles[t] = Some(jh.thread().clone());
    }
}

/// End of a thread's start-up step: start the next thread, or take the first decision.
#[must_use]
fn advance_startup(s: &mut Sched, caller: usize) -> Wake {
    s.start_turn += 1;
    if s.start_turn < s.threads.len() {
        Wake::Thread(s.start_turn)
    } else {
        s.startup = false;
        s.start_turn = usize::MAX;
        decide(s, Some(caller))
    }
}

/// threads leaked by this process (blocked forever below JIT frames / abandoned)
static LEAKED: AtomicU64 = AtomicU64::new(0);
/// `--selftest hang`  (1): thread 0 never returns from its first `len` (watchdog path);
/// `--selftest model` (2): the model's swap does nothing (the oracle must object).
static SELFTEST: AtomicU64 = AtomicU64::new(0);

thread_local! {
    /// (generation, logical thread index) of a controlled thread
    static ME: Cell<Option<(u64, usize)>> = const { Cell::new(None) };
    /// the thread is inside a compiled script function (cannot unwind)
    static IN_SCRIPT: Cell<bool> = const { Cell::new(false) };
    /// controller: collect the mutex addresses of BeforeLock events
    static LEARN: RefCell<Option<Vec<usize>>> = const { RefCell::new(None) };
    /// the thread is inside a call into roto's list code made by `exec_act` (element
    /// callbacks outside such a call belong to the harness' own bookkeeping)
    static IN_OP: Cell<bool> = const { Cell::new(false) };
    /// harness-internal list work on this thread (set-up, buffer queries, trials):
    /// hook events and element callbacks pass through; callbacks record addresses
    static INTERNAL: Cell<bool> = const { Cell::new(false) };
    static SEEN_ADDRS: RefCell<Option<Vec<usize>>> = const { RefCell::new(None) };
    /// role of a lock-compatibility trial thread
    static CALIB: Cell<Option<CalRole>> = const { Cell::new(None) };
}

fn internal<R>(f: impl FnOnce() -> R) -> R {
    let old = INTERNAL.with(|c| c.replace(true));
    let r = f();
    INTERNAL.with(|c| c.set(old));
    r
}

thread_local! {
    /// address of a local of the thread's entry function (pool and trial threads)
    static STACK_TOP: Cell<usize> = const { Cell::new(0) };
}
const STACK_SIZE: usize = 1 << 20;

#[inline(never)]
fn mark_stack_top() {
    let here = 0u8;
    STACK_TOP.with(|c| c.set(&here as *const u8 as usize));
}

/// An address within the running thread's own stack is a thread-local temporary
/// (operation argument, script stack slot), not list storage. Pool and trial threads
/// have stacks of `STACK_SIZE` whose top was recorded at thread start, so the test is
/// exact for them (a malloc arena may be mapped right next to a stack).
fn on_own_stack(addr: usize) -> bool {
    let top = STACK_TOP.with(|c| c.get());
    if top != 0 {
        return addr <= top + 4096 && addr + STACK_SIZE >= top;
    }
    let here = 0u8;
    addr.abs_diff(&here as *const u8 as usize) < STACK_SIZE
}

fn lock_sched() -> MutexGuard<'static, Sched> {
    SCHED.lock().unwrap_or_else(|e| e.into_inner())
}

/// Payload with which parked threads leave an abandoned schedule.
struct AbortSchedule;

fn block_forever() -> ! {
    LEAKED.fetch_add(1, Ordering::SeqCst);
    loop {
        std::thread::park();
    }
}

/// Leave an abandoned schedule from inside a hook point. Never returns to roto.
fn bail(mut s: MutexGuard<'static, Sched>, me: usize) -> ! {
    let at_elem = matches!(s.threads[me].state, TState::Parked(Point::Elem));
    if IN_SCRIPT.with(|c| c.get()) || at_elem {
        // JIT frames below us, or the `extern "C"` clone_fn / eq_fn / drop_fn of the
        // element vtable: unwinding is impossible, stay parked forever
        s.threads[me].leaked = true;
        send(s, Wake::Controller);
        block_forever()
    } else {
        drop(s);
        std::panic::resume_unwind(Box::new(AbortSchedule))
    }
}

/// Park the calling controlled thread at `point` until the controller schedules it.
fn park(mut s: MutexGuard<'static, Sched>, generation: u64, me: usize, point: Point) -> MutexGuard<'static, Sched> {
    s.threads[me].state = TState::Parked(point);
    s.running = None;
    let w = if s.startup {
        advance_startup(&mut s, me)
    } else {
        // nobody runs now: take the scheduling decision right here (if this thread is
        // chosen again it continues without any context switch)
        decide(&mut s, Some(me))
    };
    if w != Wake::Nobody {
        send(s, w);
        s = lock_sched();
    }
    loop {
        if s.generation != generation {
            // the schedule was abandoned by the watchdog: never touch anything again
            drop(s);
            block_forever();
        }
        if s.abort {
            bail(s, me);
        }
        if matches!(s.threads[me].state, TState::Running) {
            break;
        }
        drop(s);
        std::thread::park();
        s = lock_sched();
    }
    // the first time a thread is scheduled inside an operation is its invocation
    if !s.threads[me].op_started {
        s.threads[me].op_started = true;
        s.clock += 1;
        s.threads[me].inv = s.clock;
    }
    if let Point::Lock { list, .. } = point {
        s.threads[me].woken_locks.push(list);
    }
    s
}

fn hook(ev: &ListEvent<'_>) {
    if INTERNAL.with(|c| c.get()) {
        if let ListEvent::BeforeLock { list, .. } = ev {
            LEARN.with(|l| {
                if let Some(v) = l.borrow_mut().as_mut() {
                    v.push(*list);
                }
            });
        }
        return;
    }
    if let Some(role) = CALIB.with(|c| c.get()) {
        cal_hook(role, ev);
        return;
    }
    let Some((generation, me)) = ME.with(|m| m.get()) else {
        // not a controlled thread (setup, final observation): untouched
        if let ListEvent::BeforeLock { list, .. } = ev {
            LEARN.with(|l| {
                if let Some(v) = l.borrow_mut().as_mut() {
                    v.push(*list);
                }
            });
        }
        return;
    };
    let mut s = lock_sched();
    if s.generation != generation || s.abort {
        return;
    }
    s.events += 1;
    match ev {
        ListEvent::BeforeLock { list, is_free } => {
            if !s.full_points && !s.shared.contains(list) {
                // a list no other thread can reach: thread-local step
                return;
            }
            let p: *const (dyn Fn() -> bool + '_) = *is_free;
            // SAFETY: only the lifetime is erased; see `Probe`.
            let probe = Probe(unsafe { std::mem::transmute::<*const (dyn Fn() -> bool + '_), *const (dyn Fn() -> bool + 'static)>(p) });
            drop(park(s, generation, me, Point::Lock { list: *list, probe }));
        }
        ListEvent::BufferReleased { addr, bytes } => {
            // the range stops being list storage (it is forgotten again when a list is
            // seen to own these addresses, see `note_live_buffer`)
            s.releases += 1;
            let act = s.threads[me].cur_act;
            let clock = s.clock;
            s.released.retain(|r| r.addr + r.bytes <= *addr || *addr + *bytes <= r.addr);
            s.released.push(Released { addr: *addr, bytes: *bytes, thread: me, act, clock });
        }
    }
}

/// Element callback (`what` = clone / eq / drop of a monitored element at `a1`,
/// compared with `a2`). On a controlled thread inside a list operation this is (a) a
/// yield point — always enabled — and then (b) the stale check: the addresses that are
/// about to be read must not lie in a range that another thread's list operation
/// released. The check comes AFTER the yield: from here to the read this thread runs
/// alone. On a stale address the schedule ends here; the read never happens.
fn elem_event(what: &'static str, a1: usize, a2: Option<usize>) {
    if INTERNAL.with(|c| c.get()) {
        if what == "clone" {
            // (`query_live_buffer`: the elements a list hands out are where its buffer is)
            SEEN_ADDRS.with(|l| {
                if let Some(v) = l.borrow_mut().as_mut() {
                    v.push(a1);
                }
            });
        }
        return;
    }
    if let Some(role) = CALIB.with(|c| c.get()) {
        if !(on_own_stack(a1) && a2.is_none_or(on_own_stack)) {
            cal_elem(role);
        }
        return;
    }
    let Some((generation, me)) = ME.with(|m| m.get()) else {
        return;
    };
    if !IN_OP.with(|c| c.get()) || (on_own_stack(a1) && a2.is_none_or(on_own_stack)) {
        return;
    }
    let mut s = lock_sched();
    if s.generation != generation || s.abort {
        return;
    }
    s.events += 1;
    s.elem_yields += 1;
    let mut s = park(s, generation, me, Point::Elem);
    if what == "drop" {
        // (the storage of a value that is dropped is its owner's business)
        return;
    }
    for a in [Some(a1), a2].into_iter().flatten() {
        if on_own_stack(a) {
            continue;
        }
        if let Some(r) = s.released.iter().find(|r| r.thread != me && a >= r.addr && a < r.addr + r.bytes).cloned() {
            let esc = s.threads[me].cur_act.unwrap_or(Act::CloneH);
            s.stale = Some(Stale { esc_thread: me, esc, what, addr: a, rel: Some(r), garbage: None });
            // end of the schedule: this thread never performs the read
            drop(park(s, generation, me, Point::Elem));
            unreachable!("a thread with a stale address is never scheduled again");
        }
    }
}

/// The bytes of an element that `elem_event` let through are not a live element.
fn elem_garbage(what: &'static str, addr: usize, id: u64, canary: u64) {
    if INTERNAL.with(|c| c.get()) || CALIB.with(|c| c.get()).is_some() {
        return;
    }
    let Some((generation, me)) = ME.with(|m| m.get()) else {
        return;
    };
    if !IN_OP.with(|c| c.get()) {
        return;
    }
    let mut s = lock_sched();
    if s.generation != generation || s.abort {
        return;
    }
    let esc = s.threads[me].cur_act.unwrap_or(Act::CloneH);
    s.stale = Some(Stale { esc_thread: me, esc, what, addr, rel: None, garbage: Some((id, canary)) });
    drop(park(s, generation, me, Point::Elem));
    unreachable!("a thread that read garbage is never scheduled again");
}

/// A list was seen to own the elements at `addrs` (all of one buffer): released
/// ranges that overlap them have been allocated again.
fn note_live_buffer(s: &mut Sched, addrs: &[usize], elem_size: usize) {
    let (Some(lo), Some(hi)) = (addrs.iter().min(), addrs.iter().max()) else {
        return;
    };
    let (lo, hi) = (*lo, *hi + elem_size);
    s.released.retain(|r| r.addr + r.bytes <= lo || hi <= r.addr);
}

// ---------------------------------------------------------------------------
// Worker threads
// ---------------------------------------------------------------------------

/// The handle objects of one thread. Where a handle lives is an input of the code
/// under test (an implementation may look at `&self` / `&other`), so it is a dimension
/// of the configuration: all handles of a thread sit in one array, the handle of `b` in
/// the middle, the handle(s) of `a` — the original and the clones made by the `clone`
/// operation — all below it (`a_first`: `&handle_a < &handle_b`) or all above it.
const ARENA: usize = 9;
const MID: usize = ARENA / 2;

struct Handles<E: SElem> {
    arena: [Option<List<E>>; ARENA],
    a_first: bool,
    /// index of the newest handle of `a`
    a_top: usize,
}

impl<E: SElem> Handles<E> {
    fn new(a: List<E>, b: List<E>, a_first: bool) -> Handles<E> {
        let mut arena: [Option<List<E>>; ARENA] = std::array::from_fn(|_| None);
        let a_top = if a_first { MID - 1 } else { MID + 1 };
        arena[MID] = Some(b);
        arena[a_top] = Some(a);
        Handles { arena, a_first, a_top }
    }
    fn h(&self, obj: usize) -> &List<E> {
        self.arena[if obj == 0 { self.a_top } else { MID }].as_ref().expect("handle slot")
    }
    fn base(&self) -> usize {
        if self.a_first { MID - 1 } else { MID + 1 }
    }
    /// `h = a.clone()`: later operations on `a` go through the clone
    fn push_clone(&mut self) {
        let c = self.h(0).clone();
        let next = if self.a_first { self.a_top.checked_sub(1) } else { Some(self.a_top + 1).filter(|i| *i < ARENA) };
        match next {
            Some(i) => {
                self.arena[i] = Some(c);
                self.a_top = i;
            }
            None => drop(c),
        }
    }
    /// `drop(h)`: the newest clone, if there is one; otherwise a temporary clone
    fn pop_clone(&mut self) {
        if self.a_top != self.base() {
            self.arena[self.a_top] = None;
            self.a_top = if self.a_first { self.a_top + 1 } else { self.a_top - 1 };
        } else {
            drop(self.h(0).clone());
        }
    }
}

/// Call into roto's list code: element callbacks in here are yield points.
fn in_op<R>(f: impl FnOnce() -> R) -> R {
    IN_OP.with(|c| c.set(true));
    let r = f();
    IN_OP.with(|c| c.set(false));
    r
}

/// Call a compiled script function (no unwinding through its frames).
fn in_script<R>(f: impl FnOnce() -> R) -> R {
    IN_SCRIPT.with(|c| c.set(true));
    let r = in_op(f);
    IN_SCRIPT.with(|c| c.set(false));
    r
}

fn ids<E: SElem>(v: &[E]) -> Vec<u64> {
    v.iter().map(|e| e.id()).collect()
}

/// pushed onto every concat result (see `exec_act`); no list element has this id
const CONCAT_MARK: u64 = 777_777;

fn exec_act<E: SElem>(h: &mut Handles<E>, act: Act, fns: &Option<Arc<SFns<E>>>) -> Res {
    let f = || fns.as_ref().expect("script functions compiled");
    match act {
        Act::Get { obj, idx, script: false } => {
            let r = in_op(|| h.h(obj).get(idx));
            Res::Opt(r.map(|e| e.id()))
        }
        Act::Get { obj, idx, script: true } => {
            let l = h.h(obj).clone();
            let r = in_script(|| f().get.call(l, idx as u64));
            Res::Opt(r.map(|e| e.id()))
        }
        Act::Push { obj, v } => {
            let e = E::mk(v);
            in_op(|| h.h(obj).push(e));
            Res::Unit
        }
        Act::Contains { obj, v, script: false } => {
            let e = E::mk(v);
            Res::Bool(in_op(|| h.h(obj).contains(&e)))
        }
        Act::Contains { obj, v, script: true } => {
            let (l, e) = (h.h(obj).clone(), E::mk(v));
            Res::Bool(in_script(|| f().contains.call(l, e)))
        }
        Act::Index { obj, v } => {
            let (l, e) = (h.h(obj).clone(), E::mk(v));
            Res::Opt(in_script(|| f().index.call(l, e)))
        }
        Act::ToVec { obj } => {
            let v = in_op(|| h.h(obj).to_vec());
            Res::Seq(ids(&v))
        }
        Act::Swap { obj, i, j } => {
            in_op(|| h.h(obj).swap(i, j));
            Res::Unit
        }
        Act::Concat { x, y, script } => {
            let c = if script {
                // (the script function with the operands in the other parameter order
                // is the scripts' counterpart of the handle placement)
                let (p, q) = (h.h(x).clone(), h.h(y).clone());
                if h.a_first == (x == 0) { in_script(|| f().concat.call(p, q)) } else { in_script(|| f().concat_r.call(q, p)) }
            } else {
                in_op(|| h.h(x).concat(h.h(y)))
            };
            // "a new list": a marker pushed onto the result must show up in the result and
            // nowhere else. If the result is an alias of an operand (e.g. a shortcut for an empty
            // operand) the push and the read are operations on a shared list: they go through the
            // scheduler like any other, and the operand's final contents give the alias away.
            let m = E::mk(CONCAT_MARK);
            in_op(|| c.push(m));
            // reading and dropping the result list is harness work
            internal(|| Res::Seq(ids(&c.to_vec())))
        }
        Act::Eq { x, y, script: false } => Res::Bool(in_op(|| h.h(x) == h.h(y))),
        Act::Eq { x, y, script: true } => {
            let (p, q) = (h.h(x).clone(), h.h(y).clone());
            Res::Bool(if h.a_first == (x == 0) { in_script(|| f().eq.call(p, q)) } else { in_script(|| f().eq_r.call(q, p)) })
        }
        Act::Len { obj } => {
            if SELFTEST.load(Ordering::Relaxed) == 1 && ME.with(|m| m.get()).is_some_and(|m| m.1 == 0) {
                loop {
                    std::thread::sleep(Duration::from_secs(3600));
                }
            }
            Res::Num(in_op(|| h.h(obj).len()) as u64)
        }
        Act::CloneH => {
            h.push_clone();
            Res::Unit
        }
        Act::DropH => {
            h.pop_clone();
            Res::Unit
        }
        Act::Snap { .. } => Res::Unit,
    }
}

/// After a push returned: where does the list keep its elements now? (The thread still
/// runs alone and nobody holds the lock, so `to_vec` cannot block.) Released ranges that
/// overlap the live buffer have been allocated again and are forgotten.
fn query_live_buffer<E: SElem>(l: &List<E>) -> Vec<usize> {
    if !E::CALLBACKS {
        return Vec::new();
    }
    internal(|| {
        SEEN_ADDRS.with(|c| *c.borrow_mut() = Some(Vec::new()));
        drop(l.to_vec());
        SEEN_ADDRS.with(|c| c.borrow_mut().take()).unwrap_or_default()
    })
}

fn thread_main<E: SElem>(generation: u64, me: usize, prog: Vec<Act>, mut h: Handles<E>, fns: Option<Arc<SFns<E>>>) {
    ME.with(|m| m.set(Some((generation, me))));
    let r = crate::work::catch(|| {
        for (i, act) in prog.iter().enumerate() {
            {
                let mut s = lock_sched();
                if s.generation != generation {
                    return;
                }
                let th = &mut s.threads[me];
                th.cur_op = i;
                th.cur_act = Some(*act);
                th.op_started = false;
                th.woken_locks.clear();
            }
            let res = exec_act(&mut h, *act, &fns);
            let live = match *act {
                Act::Push { obj, .. } => query_live_buffer(h.h(obj)),
                _ => Vec::new(),
            };
            {
                let mut s = lock_sched();
                if s.generation != generation {
                    return;
                }
                if !s.threads[me].op_started {
                    // an operation without any hook point
                    s.threads[me].op_started = true;
                    s.clock += 1;
                    s.threads[me].inv = s.clock;
                }
                s.clock += 1;
                let (inv, resp) = (s.threads[me].inv, s.clock);
                s.hist.push(HOp { t: me, i, act: *act, inv, resp, res });
                s.threads[me].cur_act = None;
                if let Act::Push { obj, .. } = *act {
                    s.obj_len[obj] += 1;
                    note_live_buffer(&mut s, &live, std::mem::size_of::<E>());
                }
            }
        }
    });
    IN_OP.with(|c| c.set(false));
    INTERNAL.with(|c| c.set(false));
    drop(h);
    ME.with(|m| m.set(None));
    IN_SCRIPT.with(|c| c.set(false));
    let mut s = lock_sched();
    if s.generation != generation {
        return;
    }
    s.threads[me].exited = true;
    let was_running = !s.abort;
    match r {
        Ok(()) => s.threads[me].state = TState::Finished,
        Err(msg) => {
            if !s.abort {
                // a genuine panic of the code under test while this thread was running
                s.threads[me].panic = Some(msg);
                s.threads[me].state = TState::Finished;
            }
        }
    }
    let mut w = Wake::Nobody;
    if was_running {
        s.running = None;
        w = if s.startup { advance_startup(&mut s, me) } else { decide(&mut s, Some(me)) };
    }
    if s.abort {
        // the controller waits for the threads to leave
        w = Wake::Controller;
    }
    send(s, w);
}

// ---------------------------------------------------------------------------
// Truthful enabledness: lock-compatibility trials
// ---------------------------------------------------------------------------
//
// The probe of `BeforeLock` answers "is the lock free". For a plain mutex that is the
// same as "this acquisition will not wait". It is NOT the same if the lock ever admits
// several holders (e.g. a reader/writer lock whose probe is `try_write`): then a thread
// must be schedulable between two element callbacks of another thread's scan exactly if
// the real lock lets it in. The harness never guesses that: when the probe says "not
// free", the question "can operation E at its k-th lock acquisition enter while
// operation H sits at this point of its critical section" is put to the REAL code once,
// on private lists of the monitored element type, with two helper threads: H runs up to
// the same point (an element callback / its next lock acquisition) and stays there; E
// runs up to the acquisition in question and goes on; E either passes (next event of E,
// or E returns) or goes to sleep in the lock (its OS thread state is `S`; without
// /proc: it did not pass within 50 ms). The answer is a property of the code under test,
// is cached for the process and only ever ENABLES more (a wrong "no" loses interleavings,
// a wrong "yes" would hang the schedule and end as `skipped: scheduler-watchdog`).

#[derive(Clone, Copy, Debug)]
enum CalRole {
    /// stop (holding whatever is held) after `grants` acquisitions of shared lists: at
    /// the first element callback (`at_elem`) or at the next acquisition
    Holder { grants: usize, at_elem: bool },
    /// the acquisition number `gate` (0-based) of a shared list is the one in question
    Entrant { gate: usize },
}

mod cal {
    use std::sync::atomic::{AtomicBool, AtomicU64, AtomicUsize};
    pub static HOLDER_READY: AtomicBool = AtomicBool::new(false);
    pub static HOLDER_DONE: AtomicBool = AtomicBool::new(false);
    pub static RELEASE: AtomicBool = AtomicBool::new(false);
    pub static AT_GATE: AtomicBool = AtomicBool::new(false);
    pub static PASSED: AtomicBool = AtomicBool::new(false);
    pub static ENTRANT_DONE: AtomicBool = AtomicBool::new(false);
    pub static ENTRANT_TID: AtomicU64 = AtomicU64::new(0);
    pub static SHARED: [AtomicUsize; 2] = [AtomicUsize::new(0), AtomicUsize::new(0)];
}

thread_local! {
    /// trial thread: acquisitions of shared lists seen so far / holder already stopped
    static CAL_SEEN: Cell<usize> = const { Cell::new(0) };
    static CAL_STOPPED: Cell<bool> = const { Cell::new(false) };
}

fn cal_stop_here() {
    CAL_STOPPED.with(|c| c.set(true));
    cal::HOLDER_READY.store(true, Ordering::SeqCst);
    while !cal::RELEASE.load(Ordering::SeqCst) {
        std::thread::park_timeout(Duration::from_micros(200));
    }
}

fn cal_hook(role: CalRole, ev: &ListEvent<'_>) {
    let shared = |l: usize| l == cal::SHARED[0].load(Ordering::SeqCst) || l == cal::SHARED[1].load(Ordering::SeqCst);
    match (role, ev) {
        (CalRole::Holder { grants, at_elem }, ListEvent::BeforeLock { list, .. }) if shared(*list) => {
            let seen = CAL_SEEN.with(|c| c.get());
            if !at_elem && seen == grants && !CAL_STOPPED.with(|c| c.get()) {
                cal_stop_here();
            }
            CAL_SEEN.with(|c| c.set(seen + 1));
        }
        (CalRole::Entrant { gate }, ListEvent::BeforeLock { list, .. }) if shared(*list) => {
            let seen = CAL_SEEN.with(|c| c.get());
            if seen == gate {
                cal::AT_GATE.store(true, Ordering::SeqCst);
            } else if seen > gate {
                cal::PASSED.store(true, Ordering::SeqCst);
            }
            CAL_SEEN.with(|c| c.set(seen + 1));
        }
        (CalRole::Entrant { gate }, _) => {
            if CAL_SEEN.with(|c| c.get()) > gate {
                cal::PASSED.store(true, Ordering::SeqCst);
            }
        }
        _ => {}
    }
}

fn cal_elem(role: CalRole) {
    match role {
        CalRole::Holder { grants, at_elem } => {
            if at_elem && CAL_SEEN.with(|c| c.get()) >= grants && grants > 0 && !CAL_STOPPED.with(|c| c.get()) {
                cal_stop_here();
            }
        }
        CalRole::Entrant { gate } => {
            if CAL_SEEN.with(|c| c.get()) > gate {
                cal::PASSED.store(true, Ordering::SeqCst);
            }
        }
    }
}

/// Script functions for the trial lists (set when a case with script operations runs).
static CAL_FNS: Mutex<Option<Arc<SFns<Val<Yv>>>>> = Mutex::new(None);

fn own_tid() -> u64 {
    std::fs::read_link("/proc/thread-self").ok().and_then(|p| p.file_name().and_then(|f| f.to_str().and_then(|f| f.parse().ok()))).unwrap_or(0)
}

/// `S` (sleeping), `R` (running / runnable), ... of a thread of this process.
fn thread_state(tid: u64) -> Option<char> {
    let st = std::fs::read_to_string(format!("/proc/self/task/{tid}/stat")).ok()?;
    st.rsplit_once(") ")?.1.chars().next()
}

/// One trial (see above). `order_ab`: the mutex of `a` lies below that of `b` (pairs
/// of locks are taken in address order, so the trial lists must be laid out alike).
fn run_trial(hact: Act, hrole: CalRole, eact: Act, erole: CalRole, order_ab: bool, horders: (bool, bool)) -> bool {
    let fns = CAL_FNS.lock().unwrap_or_else(|e| e.into_inner()).clone();
    if (hact.is_script() || eact.is_script()) && fns.is_none() {
        return false;
    }
    let (a, b, addrs) = internal(|| {
        let x: List<Val<Yv>> = (1..=5u64).map(<Val<Yv>>::mk).collect();
        let y: List<Val<Yv>> = (1..=5u64).map(<Val<Yv>>::mk).collect();
        LEARN.with(|l| *l.borrow_mut() = Some(Vec::new()));
        let _ = x.len();
        let _ = y.len();
        let ad = LEARN.with(|l| l.borrow_mut().take()).unwrap_or_default();
        if ad.len() == 2 && (ad[0] < ad[1]) != order_ab { (y, x, vec![ad[1], ad[0]]) } else { (x, y, ad) }
    });
    if addrs.len() != 2 {
        return false;
    }
    cal::SHARED[0].store(addrs[0], Ordering::SeqCst);
    cal::SHARED[1].store(addrs[1], Ordering::SeqCst);
    for f in [&cal::HOLDER_READY, &cal::HOLDER_DONE, &cal::RELEASE, &cal::AT_GATE, &cal::PASSED, &cal::ENTRANT_DONE] {
        f.store(false, Ordering::SeqCst);
    }
    cal::ENTRANT_TID.store(0, Ordering::SeqCst);
    let spawn = |role: CalRole, act: Act, done: &'static std::sync::atomic::AtomicBool, entrant: bool| {
        let mut h = Handles::new(a.clone(), b.clone(), if entrant { horders.1 } else { horders.0 });
        let fns = fns.clone();
        std::thread::Builder::new()
            .name("sched-trial".into())
            .stack_size(STACK_SIZE)
            .spawn(move || {
                mark_stack_top();
                if entrant {
                    cal::ENTRANT_TID.store(own_tid().max(1), Ordering::SeqCst);
                }
                CALIB.with(|c| c.set(Some(role)));
                let _ = crate::work::catch(|| exec_act(&mut h, act, &fns));
                CALIB.with(|c| c.set(None));
                if entrant {
                    cal::PASSED.store(true, Ordering::SeqCst);
                }
                internal(|| drop(h));
                done.store(true, Ordering::SeqCst);
            })
            .expect("spawn trial thread")
    };
    let wait = |cond: &dyn Fn() -> bool, limit: Duration| -> bool {
        let end = Instant::now() + limit;
        while !cond() {
            if Instant::now() >= end {
                return false;
            }
            std::thread::sleep(Duration::from_micros(20));
        }
        true
    };
    let holder = spawn(hrole, hact, &cal::HOLDER_DONE, false);
    let mut answer = false;
    let ready = wait(&|| cal::HOLDER_READY.load(Ordering::SeqCst) || cal::HOLDER_DONE.load(Ordering::SeqCst), Duration::from_secs(2));
    let mut entrant = None;
    if ready && cal::HOLDER_READY.load(Ordering::SeqCst) {
        entrant = Some(spawn(erole, eact, &cal::ENTRANT_DONE, true));
        let end = Instant::now() + Duration::from_secs(1);
        let started = Instant::now();
        let mut asleep = 0;
        loop {
            if cal::PASSED.load(Ordering::SeqCst) {
                answer = true;
                break;
            }
            let tid = cal::ENTRANT_TID.load(Ordering::SeqCst);
            match if tid > 1 { thread_state(tid) } else { None } {
                Some('S') => {
                    asleep += 1;
                    if asleep >= 3 {
                        break;
                    }
                }
                Some(_) => asleep = 0,
                None => {
                    // no /proc: give the entrant 50 ms
                    if tid != 0 && started.elapsed() > Duration::from_millis(50) {
                        break;
                    }
                }
            }
            if Instant::now() >= end {
                break;
            }
            std::thread::sleep(Duration::from_micros(30));
        }
        if !answer && cal::PASSED.load(Ordering::SeqCst) {
            answer = true;
        }
    }
    cal::RELEASE.store(true, Ordering::SeqCst);
    holder.thread().unpark();
    let all_done = wait(&|| cal::HOLDER_DONE.load(Ordering::SeqCst) && (entrant.is_none() || cal::ENTRANT_DONE.load(Ordering::SeqCst)), Duration::from_secs(2));
    if all_done {
        let _ = holder.join();
        if let Some(e) = entrant {
            let _ = e.join();
        }
        internal(|| drop((a, b)));
    } else {
        // the two operations block each other for good (a genuine lock-order problem
        // of the code under test; the scheduler itself reports it as a deadlock)
        LEAKED.fetch_add(2, Ordering::SeqCst);
        std::mem::forget((a, b));
    }
    answer
}

/// Thread `t` is parked before the acquisition of `list` and the probe says "not
/// free": may it enter nevertheless? Only if every thread that was let into `list` in
/// its current operation (and is therefore possibly still inside) is compatible.
fn compatible(s: &mut Sched, t: usize, list: usize) -> bool {
    if !s.shared.contains(&list) {
        return false;
    }
    let Some(eact) = s.threads[t].cur_act else {
        return false;
    };
    let shared = s.shared;
    let count = |th: &ThreadSt| th.woken_locks.iter().filter(|l| shared.contains(l)).count();
    let gate = count(&s.threads[t]);
    let holders: Vec<usize> = (0..s.threads.len()).filter(|c| *c != t && !matches!(s.threads[*c].state, TState::Finished) && s.threads[*c].woken_locks.contains(&list)).collect();
    if holders.is_empty() {
        return false;
    }
    for c in holders {
        let Some(hact) = s.threads[c].cur_act else {
            return false;
        };
        let grants = count(&s.threads[c]);
        let at_elem = matches!(s.threads[c].state, TState::Parked(Point::Elem));
        let horders = (s.horder.get(c).copied().unwrap_or(true), s.horder.get(t).copied().unwrap_or(true));
        let key = format!("{}#{grants}{}|{}#{gate}|{}|{:?}", hact.lock_key(), if at_elem { "e" } else { "l" }, eact.lock_key(), shared[0] < shared[1], horders);
        let ok = match s.compat.get(&key) {
            Some(v) => *v,
            None => {
                let v = run_trial(hact, CalRole::Holder { grants, at_elem }, eact, CalRole::Entrant { gate }, shared[0] < shared[1], horders);
                if std::env::var_os("LISTSCHED_DEBUG").is_some() {
                    eprintln!("list-sched: lock trial {key} -> {v}");
                }
                s.compat.insert(key, v);
                s.trials += 1;
                v
            }
        };
        if !ok {
            return false;
        }
    }
    true
}

// ---------------------------------------------------------------------------
// Controller: one schedule
// ---------------------------------------------------------------------------

enum Policy {
    Lowest,
    Random(Rng),
}

#[derive(Clone, Debug)]
enum Outcome {
    Complete,
    Deadlock { sig_ops: Vec<String>, blocked: Vec<(usize, String, String)> },
    Stale(Stale),
    Panic(usize, String),
    Watchdog(String),
    Diverged(String),
}

/// One scheduling step: enabled set, chosen thread, what the chosen thread was parked at.
#[derive(Clone, Debug)]
struct Step {
    mask: u8,
    chosen: u8,
    op: usize,
    point: u8, // 0 lock(a), 1 lock(b), 2 lock(private), 3 element callback
}

struct SchedOut {
    steps: Vec<Step>,
    outcome: Outcome,
    hist: Vec<HOp>,
    finals: [Vec<u64>; 2],
    events: u64,
    releases: u64,
    elem_yields: u64,
    leaked: u64,
}

const WATCHDOG: Duration = Duration::from_secs(10);

/// The scheduling decision. Runs under the scheduler mutex at a moment when NO
/// controlled thread is running (every one is parked or finished): on the thread that
/// just parked / finished, or on the controller after the start-up phase. Either
/// hands the (single) right to run to one enabled thread, or ends the schedule by
/// setting `outcome` (the controller then collects the results / abandons the threads).
#[must_use]
fn decide(s: &mut Sched, caller: Option<usize>) -> Wake {
    debug_assert!(s.running.is_none());
    if s.outcome.is_some() {
        return Wake::Controller;
    }
    let n = s.threads.len();
    let mut fail: Option<Outcome> = None;
    if let Some((t, msg)) = s.threads.iter().enumerate().find_map(|(t, th)| th.panic.clone().map(|m| (t, m))) {
        fail = Some(Outcome::Panic(t, msg));
    } else if let Some(st) = s.stale.clone() {
        fail = Some(Outcome::Stale(st));
    }
    let mut mask = 0u8;
    let mut unfinished = 0;
    if fail.is_none() {
        for t in 0..n {
            match s.threads[t].state {
                TState::Parked(Point::Lock { probe, list }) => {
                    unfinished += 1;
                    // SAFETY: thread t is parked inside the hook callback that owns the
                    // closure (if t is the calling thread: it is inside that callback)
                    let free = unsafe { (*probe.0)() };
                    // "not free" only means that somebody holds the lock in some mode;
                    // whether THIS acquisition has to wait is asked of the real lock
                    if free || compatible(s, t, list) {
                        mask |= 1 << t;
                    }
                }
                TState::Parked(Point::Elem) => {
                    unfinished += 1;
                    mask |= 1 << t;
                }
                TState::Finished => {}
                TState::NotStarted | TState::Running => {
                    fail = Some(Outcome::Diverged(format!("internal: thread T{t} in an impossible state")));
                }
            }
        }
    }
    if fail.is_none() && unfinished == 0 {
        s.outcome = Some(Outcome::Complete);
        return Wake::Controller;
    }
    let lname = |s: &Sched, l: usize| if l == s.shared[0] { "a" } else if l == s.shared[1] { "b" } else { "private" };
    if fail.is_none() && mask == 0 {
        // deadlock: every unfinished thread waits for a lock that does not let it in
        let mut blocked = Vec::new();
        let mut waits: Vec<(usize, usize)> = Vec::new();
        for t in 0..n {
            if let TState::Parked(Point::Lock { list, .. }) = s.threads[t].state {
                let label = s.threads[t].cur_act.map(|a| a.label()).unwrap_or_default();
                let held: Vec<&str> = s.threads[t].woken_locks.iter().map(|l| lname(s, *l)).collect();
                blocked.push((t, label, format!("acquired {held:?} in this operation, waits for {}", lname(s, list))));
                waits.push((t, list));
            }
        }
        // the signature names the operations in the cycle: the blocked threads that were
        // let into a list which another blocked thread waits for
        let mut holders: Vec<String> = blocked
            .iter()
            .filter(|(t, _, _)| waits.iter().any(|(u, l)| u != t && s.threads[*t].woken_locks.contains(l)))
            .map(|b| b.1.clone())
            .collect();
        if holders.is_empty() {
            holders = blocked.iter().map(|b| b.1.clone()).collect();
        }
        holders.sort();
        holders.dedup();
        fail = Some(Outcome::Deadlock { sig_ops: holders, blocked });
    }
    let mut chosen = 0u8;
    if fail.is_none() {
        let step = s.steps.len();
        if step < s.prefix.len() {
            chosen = s.prefix[step];
            if mask & (1 << chosen) == 0 {
                fail = Some(Outcome::Diverged(format!("replay diverged at step {step}: T{chosen} not enabled (enabled mask {mask:#b})")));
            }
        } else {
            chosen = match &mut s.policy {
                Policy::Lowest => mask.trailing_zeros() as u8,
                Policy::Random(rng) => {
                    let k = rng.below(mask.count_ones() as u64);
                    let mut m = mask;
                    for _ in 0..k {
                        m &= m - 1;
                    }
                    m.trailing_zeros() as u8
                }
            };
        }
    }
    if let Some(f) = fail {
        s.outcome = Some(f);
        return Wake::Controller;
    }
    let c = chosen as usize;
    let point = match s.threads[c].state {
        TState::Parked(Point::Lock { list, .. }) => {
            if list == s.shared[0] {
                0
            } else if list == s.shared[1] {
                1
            } else {
                2
            }
        }
        _ => 3,
    };
    let op = s.threads[c].cur_op;
    s.steps.push(Step { mask, chosen, op, point });
    s.threads[c].state = TState::Running;
    s.running = Some(c);
    // (the caller itself notices that it was chosen when it looks at its state)
    if caller == Some(c) { Wake::Nobody } else { Wake::Thread(c) }
}

/// Controller: wait until `cond` holds (with the watchdog deadline).
fn wait_for(mut s: MutexGuard<'static, Sched>, deadline: Instant, cond: impl Fn(&Sched) -> bool) -> Result<MutexGuard<'static, Sched>, String> {
    while !cond(&s) {
        let now = Instant::now();
        if now >= deadline {
            return Err(match s.running {
                Some(t) => format!("thread T{t} neither parked nor finished"),
                None => "the schedule made no progress".to_string(),
            });
        }
        drop(s);
        std::thread::park_timeout(deadline - now);
        s = lock_sched();
    }
    Ok(s)
}

fn run_schedule<E: SElem>(cfg: &Config, acts: &[Vec<Act>], fns: &Option<Arc<SFns<E>>>, prefix: &[u8], policy: Policy, full_points: bool, order_ab: bool) -> SchedOut {
    let n = acts.len();
    // fresh lists
    let a: List<E> = (0..cfg.init_len).map(|i| E::mk(1 + i as u64)).collect();
    let b: List<E> = (0..cfg.init_len).map(|i| E::mk(1 + i as u64)).collect();
    // learn the mutex addresses of the shared lists
    LEARN.with(|l| *l.borrow_mut() = Some(Vec::new()));
    let _ = a.len();
    let _ = b.len();
    let mut learned = LEARN.with(|l| l.borrow_mut().take()).unwrap_or_default();
    // Pairs of lists are locked in address order, so the relative position of the two
    // (equal) lists is part of the configuration: it is fixed per case, otherwise the
    // replay of a schedule prefix would depend on the allocator.
    let (a, b) = if learned.len() == 2 && (learned[0] < learned[1]) != order_ab {
        learned.swap(0, 1);
        (b, a)
    } else {
        (a, b)
    };
    let mut out = SchedOut {
        steps: Vec::new(),
        outcome: Outcome::Complete,
        hist: Vec::new(),
        finals: [Vec::new(), Vec::new()],
        events: 0,
        releases: 0,
        elem_yields: 0,
        leaked: 0,
    };
    if learned.len() != 2 || learned[0] == learned[1] {
        out.outcome = Outcome::Diverged(format!("list hook did not report the two shared lists ({learned:?}); is the hook installed?"));
        return out;
    }
    let generation = {
        let mut s = lock_sched();
        s.generation += 1;
        s.controller = Some(std::thread::current());
        s.abort = false;
        s.startup = true;
        s.running = None;
        s.outcome = None;
        s.steps = Vec::new();
        s.prefix = prefix.to_vec();
        s.policy = policy;
        s.threads = (0..n)
            .map(|_| ThreadSt {
                state: TState::NotStarted,
                cur_op: 0,
                cur_act: None,
                op_started: false,
                inv: 0,
                woken_locks: Vec::new(),
                leaked: false,
                exited: false,
                panic: None,
            })
            .collect();
        s.clock = 0;
        s.events = 0;
        s.releases = 0;
        s.elem_yields = 0;
        s.released.clear();
        s.stale = None;
        s.hist.clear();
        s.shared = [learned[0], learned[1]];
        s.full_points = full_points;
        s.obj_len = [cfg.init_len, cfg.init_len];
        s.horder = cfg.horder.clone();
        s.generation
    };
    let deadline = Instant::now() + WATCHDOG;
    let watchdog = |out: &mut SchedOut, why: String| {
        // abandon everything: bump the generation so that stragglers pass through
        // (running ones) or block forever (parked ones); none of them is reused
        let mut s = lock_sched();
        s.generation += 1;
        s.running = None;
        s.start_turn = usize::MAX;
        s.jobs.clear();
        out.steps = std::mem::take(&mut s.steps);
        let mut gone = Vec::new();
        for t in 0..n {
            s.pool_id[t] = 0;
            gone.push(s.handles[t].take());
        }
        drop(s);
        for h in gone.into_iter().flatten() {
            h.unpark();
        }
        LEAKED.fetch_add(n as u64, Ordering::SeqCst);
        out.outcome = Outcome::Watchdog(why);
    };
    // Fresh handles, fresh thread state (the OS threads come from the pool). Start-up:
    // every thread runs up to its first hook point, one at a time in index order (the
    // code before the first hook point is thread-local, no decision is involved); the
    // last one takes the first decision. From then on the threads pass the right to run
    // among themselves (`decide`) and the controller only waits for the outcome.
    let s = {
        let mut s = lock_sched();
        let mut jobs: Vec<Option<Job>> = Vec::new();
        for (t, prog) in acts.iter().enumerate() {
            let h = Handles::new(a.clone(), b.clone(), cfg.horder.get(t).copied().unwrap_or(true));
            let prog = prog.clone();
            let fns = fns.clone();
            jobs.push(Some(Box::new(move || thread_main::<E>(generation, t, prog, h, fns))));
            pool_ensure(&mut s, t);
        }
        s.jobs = jobs;
        s.start_turn = 0;
        send(s, Wake::Thread(0));
        lock_sched()
    };
    let mut s = match wait_for(s, deadline, |s| s.outcome.is_some()) {
        Ok(s) => s,
        Err(why) => {
            watchdog(&mut out, why);
            return out;
        }
    };
    out.outcome = s.outcome.clone().unwrap_or(Outcome::Complete);
    out.steps = std::mem::take(&mut s.steps);
    out.hist = s.hist.clone();
    out.events = s.events;
    out.releases = s.releases;
    out.elem_yields = s.elem_yields;
    // every thread leaves: finished ones have left already, parked ones unwind or
    // (below JIT frames) are leaked
    s.abort = true;
    let everybody_left = s.threads.iter().all(|t| t.exited);
    if !everybody_left {
        send(s, Wake::AllThreads);
        s = lock_sched();
    }
    match wait_for(s, Instant::now() + WATCHDOG, |s| s.threads.iter().all(|t| t.exited || t.leaked)) {
        Ok(s) => {
            let mut s = s;
            for t in 0..n {
                if s.threads[t].leaked {
                    out.leaked += 1;
                    s.pool_id[t] = 0;
                    s.handles[t] = None;
                }
            }
        }
        Err(why) => {
            watchdog(&mut out, why);
            return out;
        }
    }
    if matches!(out.outcome, Outcome::Complete) {
        // every thread has dropped its handles; final observation
        out.finals = [a.to_vec().iter().map(|e| e.id()).collect(), b.to_vec().iter().map(|e| e.id()).collect()];
    }
    out
}

// ---------------------------------------------------------------------------
// Oracle: shared-vector model + linearizability search
// ---------------------------------------------------------------------------

type Model = [Vec<u64>; 2];

fn model_apply(st: &mut Model, act: &Act) -> Res {
    match *act {
        Act::Get { obj, idx, .. } => Res::Opt(st[obj].get(idx).copied()),
        Act::Push { obj, v } => {
            st[obj].push(v);
            Res::Unit
        }
        Act::Contains { obj, v, .. } => Res::Bool(st[obj].contains(&v)),
        Act::Index { obj, v } => Res::Opt(st[obj].iter().position(|x| *x == v).map(|i| i as u64)),
        Act::ToVec { obj } => Res::Seq(st[obj].clone()),
        Act::Swap { obj, i, j } => {
            if i < st[obj].len() && j < st[obj].len() && SELFTEST.load(Ordering::Relaxed) != 2 {
                st[obj].swap(i, j);
            }
            Res::Unit
        }
        Act::Concat { x, y, .. } => {
            let mut v = st[x].clone();
            v.extend_from_slice(&st[y]);
            // the marker the harness pushes onto the (new) result list
            v.push(CONCAT_MARK);
            Res::Seq(v)
        }
        Act::Eq { x, y, .. } => Res::Bool(x == y || st[x] == st[y]),
        Act::Len { obj } => Res::Num(st[obj].len() as u64),
        Act::CloneH | Act::DropH => Res::Unit,
        Act::Snap { obj } => Res::Seq(st[obj].clone()),
    }
}

/// Is there a total order of `ops` that respects real time (resp < inv) and in which
/// every operation not in `wild` returns what the model returns? Returns the order.
fn linearize(ops: &[HOp], init: &Model, wild: u32) -> Option<Vec<usize>> {
    fn go(ops: &[HOp], st: &Model, done: u32, wild: u32, order: &mut Vec<usize>, dead: &mut HashSet<(u32, Model)>) -> bool {
        if done.count_ones() as usize == ops.len() {
            return true;
        }
        if dead.contains(&(done, st.clone())) {
            return false;
        }
        for (k, o) in ops.iter().enumerate() {
            if done & (1 << k) != 0 {
                continue;
            }
            // minimal: no other pending operation responded before o was invoked
            let minimal = ops.iter().enumerate().all(|(j, p)| j == k || done & (1 << j) != 0 || p.resp >= o.inv);
            if !minimal {
                continue;
            }
            let mut st2 = st.clone();
            let r = model_apply(&mut st2, &o.act);
            if wild & (1 << k) == 0 && r != o.res {
                continue;
            }
            order.push(k);
            if go(ops, &st2, done | (1 << k), wild, order, dead) {
                return true;
            }
            order.pop();
        }
        dead.insert((done, st.clone()));
        false
    }
    let mut order = Vec::new();
    let mut dead = HashSet::new();
    if go(ops, init, 0, wild, &mut order, &mut dead) { Some(order) } else { None }
}

/// Smallest set of operations whose results must be ignored to make the history
/// linearizable (at most 3; None = more).
fn culprits(ops: &[HOp], init: &Model) -> Option<Vec<usize>> {
    let n = ops.len();
    for size in 1..=3usize {
        for m in 1u32..(1u32 << n) {
            if m.count_ones() as usize == size && linearize(ops, init, m).is_some() {
                return Some((0..n).filter(|k| m & (1 << k) != 0).collect());
            }
        }
    }
    None
}

// ---------------------------------------------------------------------------
// The family
// ---------------------------------------------------------------------------

pub struct ListSched {
    rt: Option<Runtime<NoCtx>>,
    fns_u64: Option<Arc<SFns<u64>>>,
    fns_str: Option<Arc<SFns<RotoString>>>,
    /// the enumerated program pairs: (program of T0, program of T1, T0 is a script
    /// program); Rust/Rust pairs are unordered. `cum[i]` = number of (pair, handle
    /// placement) combinations before entry i (one more element than `entries`)
    entries: Vec<(u16, u16, bool)>,
    cum: Vec<u64>,
    progs: Vec<Vec<Op>>,
    sprogs: Vec<Vec<Op>>,
    prelude: Vec<Config>,
    sched_cap: u64,
    rand_extra: u64,
    full_points: bool,
    enum_only: bool,
    leak_cap: u64,
    elems: Vec<ElemKind>,
    fns_val: Option<Arc<SFns<Val<Yv>>>>,
}

fn programs(alpha: &[Op]) -> Vec<Vec<Op>> {
    let mut v: Vec<Vec<Op>> = alpha.iter().map(|o| vec![*o]).collect();
    for x in alpha {
        for y in alpha {
            v.push(vec![*x, *y]);
        }
    }
    v
}

fn gcd(a: u64, b: u64) -> u64 {
    if b == 0 { a } else { gcd(b, a % b) }
}

impl ListSched {
    pub fn new(args: &Args) -> ListSched {
        // install the silent panic hook of `work::catch` and the list hook
        let _ = crate::work::catch(|| ());
        set_list_hook(Some(hook));
        let progs = programs(&RUST_OPS);
        let sprogs = programs(&SCRIPT_OPS);
        let mut entries = Vec::new();
        for i in 0..progs.len() {
            for j in i..progs.len() {
                entries.push((i as u16, j as u16, false));
            }
        }
        for i in 0..sprogs.len() {
            for j in 0..progs.len() {
                entries.push((i as u16, j as u16, true));
            }
        }
        let mut cum = vec![0u64];
        for (p, q, script) in &entries {
            let p0 = if *script { &sprogs[*p as usize] } else { &progs[*p as usize] };
            let k = [p0, &progs[*q as usize]].iter().filter(|pr| pr.iter().any(|o| o.is_pair())).count();
            cum.push(cum.last().unwrap() + (1u64 << k));
        }
        use Op::*;
        // hand-picked minimal configurations of the interesting classes first, so
        // that every tier meets them
        let shapes: Vec<Vec<Vec<Op>>> = vec![
            vec![vec![Get0], vec![PushA]],
            vec![vec![GetLast], vec![PushA, PushA]],
            vec![vec![SGet0], vec![PushA]],
            vec![vec![SGetLast], vec![PushA, PushA]],
            vec![vec![EqAB], vec![EqBA]],
            vec![vec![SEqAB], vec![EqBA]],
            vec![vec![ConcatAA], vec![PushA]],
            vec![vec![ConcatAB], vec![PushA, PushB]],
            vec![vec![SConcatAB], vec![PushA, PushB]],
            vec![vec![ConcatAB], vec![ConcatAB]],
            vec![vec![Get0], vec![Swap01]],
            vec![vec![ConcatAA], vec![Swap01]],
            vec![vec![EqAB], vec![EqBA], vec![PushA]],
            vec![vec![Get0, Len], vec![PushA, Contains], vec![Swap01, GetLast]],
            vec![vec![Contains, Len], vec![PushA, PushA]],
            vec![vec![EqAB, EqAB], vec![PushA, PushB]],
            // scans that another thread's push / swap must not be able to cut in two
            vec![vec![ToVec], vec![PushA]],
            vec![vec![ToVec], vec![PushA, PushA]],
            vec![vec![ToVec], vec![Swap01]],
            vec![vec![EqAB], vec![PushA]],
            vec![vec![EqAB], vec![PushA, PushA]],
            vec![vec![EqAB], vec![Swap01, Swap01]],
            vec![vec![Contains], vec![Swap01]],
            vec![vec![Contains], vec![PushA, PushA]],
            vec![vec![SContains], vec![PushA, PushA]],
            vec![vec![SIndex], vec![PushA, PushA]],
            vec![vec![SIndex], vec![Swap01]],
            vec![vec![SEqAB], vec![PushA, PushA]],
            vec![vec![SConcatAB], vec![Swap01]],
            vec![vec![ConcatAB], vec![PushA, PushA]],
            vec![vec![ToVec, Len], vec![Swap01, PushA], vec![GetLast]],
        ];
        // `--elems u64,String,Val` restricts the element types (default: all)
        let elems: Vec<ElemKind> = match args.opt("elems") {
            Some(l) => ELEM_KINDS.iter().copied().filter(|k| l.split(',').any(|x| x.eq_ignore_ascii_case(k.name()))).collect(),
            None => ELEM_KINDS.to_vec(),
        };
        let elems = if elems.is_empty() { ELEM_KINDS.to_vec() } else { elems };
        let mut prelude = Vec::new();
        for sh in &shapes {
            for elem in elems.iter().copied() {
                for init_len in INIT_LENS {
                    prelude.push(Config { elem, init_len, progs: sh.clone(), horder: vec![true; sh.len()], origin: "prelude" });
                }
            }
        }
        // two-list operations against each other under every handle placement
        let pair_shapes: Vec<Vec<Vec<Op>>> = vec![
            vec![vec![EqAB], vec![EqAB]],
            vec![vec![EqAB], vec![EqBA]],
            vec![vec![ConcatAB], vec![EqAB]],
            vec![vec![ConcatAB], vec![ConcatAB]],
            vec![vec![SEqAB], vec![EqAB]],
            vec![vec![SConcatAB], vec![EqBA]],
            vec![vec![CloneH, EqAB], vec![CloneH, EqAB]],
        ];
        for sh in &pair_shapes {
            for bits in 0..4u32 {
                for elem in elems.iter().copied() {
                    prelude.push(Config { elem, init_len: 3, progs: sh.clone(), horder: vec![bits & 1 == 0, bits & 2 == 0], origin: "prelude" });
                }
            }
        }
        match args.opt("selftest") {
            Some("hang") => SELFTEST.store(1, Ordering::Relaxed),
            Some("model") => SELFTEST.store(2, Ordering::Relaxed),
            _ => {}
        }
        let num = |k: &str, d: u64| args.opt(k).and_then(|v| v.parse().ok()).unwrap_or(d);
        ListSched {
            rt: None,
            fns_u64: None,
            fns_str: None,
            entries,
            cum,
            progs,
            sprogs,
            prelude,
            sched_cap: num("sched-cap", if args.thorough() { 5_000 } else { 1_000 }),
            rand_extra: num("rand-extra", if args.thorough() { 2_000 } else { 500 }),
            full_points: args.flag("full-points"),
            enum_only: args.flag("enum-only"),
            elems,
            fns_val: None,
            leak_cap: num("leak-cap", 4),
        }
    }

    /// element type x initial length
    fn n_variants(&self) -> u64 {
        (self.elems.len() * INIT_LENS.len()) as u64
    }
    fn n_enum(&self) -> u64 {
        *self.cum.last().unwrap_or(&0) * self.n_variants()
    }

    /// Enumerated configuration `e` (0 <= e < n_enum): all assignments of <= 2
    /// operations to 2 threads x handle placement (every combination, for the threads
    /// that have an operation on both lists) x element type x initial length.
    fn enum_config(&self, e: u64) -> Config {
        let nv = self.n_variants();
        let (variant, c) = (e % nv, e / nv);
        // entry i covers cum[i] .. cum[i + 1]
        let i = self.cum.partition_point(|x| *x <= c) - 1;
        let (p, q, script) = self.entries[i];
        let progs = vec![if script { self.sprogs[p as usize].clone() } else { self.progs[p as usize].clone() }, self.progs[q as usize].clone()];
        let mut bits = c - self.cum[i];
        let horder: Vec<bool> = progs
            .iter()
            .map(|pr| {
                if pr.iter().any(|o| o.is_pair()) {
                    let f = bits & 1 == 0;
                    bits >>= 1;
                    f
                } else {
                    true
                }
            })
            .collect();
        let ne = self.elems.len() as u64;
        Config {
            elem: self.elems[(variant % ne) as usize],
            init_len: INIT_LENS[(variant / ne) as usize],
            progs,
            horder,
            origin: if script { "enum-2x2-script" } else { "enum-2x2" },
        }
    }

    fn random_config(&self, rng: &mut Rng) -> Config {
        let (threads, max_ops, origin) = match rng.weighted(&[3, 3, 2]) {
            0 => (2, 3, "random-2x3"),
            1 => (3, 2, "random-3x2"),
            _ => (3, 3, "random-3x3"),
        };
        let script = rng.chance(1, 4);
        // weights of the Rust alphabet: favour operations with scheduling points
        let w: [u32; 14] = [4, 4, 6, 3, 3, 3, 2, 3, 1, 1, 2, 2, 2, 2];
        let mut progs = Vec::new();
        for t in 0..threads {
            let len = if rng.chance(3, 4) { max_ops } else { 1 + rng.usize(max_ops) };
            let mut p = Vec::new();
            for _ in 0..len {
                if script && t == 0 {
                    p.push(*rng.pick(&SCRIPT_OPS));
                } else {
                    p.push(RUST_OPS[rng.weighted(&w)]);
                }
            }
            progs.push(p);
        }
        let horder = (0..threads).map(|_| rng.bool()).collect();
        Config { elem: *rng.pick(&self.elems), init_len: *rng.pick(&INIT_LENS), progs, horder, origin }
    }

    /// Case layout: [0, P) hand-picked minimal configurations; then blocks of four
    /// cases: three of the deterministic enumeration (visited in a strided order, so
    /// that every prefix of the case range is spread over the whole enumeration) and
    /// one seeded random 2x3 / 3x2 / 3x3 configuration.
    fn config_for(&self, k: u64, rng: &mut Rng) -> Config {
        let p = self.prelude.len() as u64;
        if k < p {
            return self.prelude[k as usize].clone();
        }
        let k = k - p;
        let total = self.n_enum();
        // `--enum-only 1`: cases P .. P + n_enum are exactly the enumeration
        if self.enum_only || k % 4 != 3 {
            let e = if self.enum_only { k } else { (k / 4) * 3 + k % 4 };
            if e < total {
                let mut stride = 1_000_003u64;
                while gcd(stride, total) != 1 {
                    stride += 2;
                }
                return self.enum_config(((e as u128 * stride as u128) % total as u128) as u64);
            }
        }
        self.random_config(rng)
    }

    fn fns<E: SElem>(rt: &mut Option<Runtime<NoCtx>>, slot: &mut Option<Arc<SFns<E>>>) -> Result<Arc<SFns<E>>, String> {
        if slot.is_none() {
            let rt = rt.get_or_insert_with(sched_runtime);
            *slot = Some(Arc::new(SFns::<E>::compile(rt)?));
        }
        Ok(slot.clone().unwrap())
    }
}

fn steps_text(steps: &[Step], acts: &[Vec<Act>]) -> Vec<J> {
    steps
        .iter()
        .map(|s| {
            let t = s.chosen as usize;
            let act = acts[t].get(s.op).map(|a| a.show()).unwrap_or_default();
            let pt = match s.point {
                0 => "lock(a)",
                1 => "lock(b)",
                2 => "lock(private)",
                _ => "element-callback",
            };
            J::from(format!("T{t} [{act}] proceeds at {pt}; enabled={:#05b}", s.mask))
        })
        .collect()
}

fn choice_text(steps: &[Step]) -> String {
    steps.iter().map(|s| format!("{}", s.chosen)).collect::<Vec<_>>().join("")
}

fn hist_json(h: &[HOp]) -> J {
    let mut v: Vec<&HOp> = h.iter().collect();
    v.sort_by_key(|o| o.inv);
    J::Arr(v.iter().map(|o| J::from(format!("T{}.{} {} -> {}  [inv {}, resp {}]", o.t, o.i, o.act.show(), o.res.show(), o.inv, o.resp))).collect())
}

struct Stats {
    schedules: u64,
    steps: u64,
    decision_points: u64,
    max_enabled: u32,
    deadlocks: u64,
    stale: u64,
    nonlin: u64,
    elem_yields: u64,
    events: u64,
    releases: u64,
    leaked: u64,
    finals: HashSet<u64>,
    seen_choice: HashSet<u64>,
}

impl ListSched {
    fn run_case<E: SElem>(&self, cfg: &Config, fns: Option<Arc<SFns<E>>>, rng: &mut Rng, out: &mut CaseOut) {
        let acts = cfg.resolve();
        let init: Model = [(1..=cfg.init_len as u64).collect(), (1..=cfg.init_len as u64).collect()];
        let mut st = Stats {
            schedules: 0,
            steps: 0,
            decision_points: 0,
            max_enabled: 0,
            deadlocks: 0,
            stale: 0,
            nonlin: 0,
            elem_yields: 0,
            events: 0,
            releases: 0,
            leaked: 0,
            finals: HashSet::new(),
            seen_choice: HashSet::new(),
        };
        let mut reported: HashSet<String> = HashSet::new();
        let order_ab = hash_str(&cfg.key()) & 1 == 0;
        let trials_before = lock_sched().trials;
        out.tags.push(format!("lock-order:{}", if order_ab { "a<b" } else { "b<a" }));
        let mut first_schedule: Option<String> = None;
        let mut exhaustive = false;
        let mut stopped: Option<&'static str> = None;
        let mut prefix: Vec<u8> = Vec::new();
        let mut random_left = 0u64;
        let mut random_phase = false;
        let mut sched_rng = Rng::new(rng.next());
        let process_leak_budget = 1500u64;
        loop {
            let policy = if random_phase { Policy::Random(Rng::new(sched_rng.next())) } else { Policy::Lowest };
            let r = run_schedule::<E>(cfg, &acts, &fns, if random_phase { &[] } else { &prefix }, policy, self.full_points, order_ab);
            st.schedules += 1;
            st.steps += r.steps.len() as u64;
            st.events += r.events;
            st.releases += r.releases;
            st.elem_yields += r.elem_yields;
            st.leaked += r.leaked;
            for s in &r.steps {
                let e = s.mask.count_ones();
                if e > 1 {
                    st.decision_points += 1;
                }
                st.max_enabled = st.max_enabled.max(e);
            }
            let choice = choice_text(&r.steps);
            st.seen_choice.insert(hash_str(&choice));
            if first_schedule.is_none() {
                first_schedule = Some(choice.clone());
            }
            let detail = |r: &SchedOut| {
                J::obj()
                    .set("config", cfg.to_json())
                    .set("schedule", choice.as_str())
                    .set("steps", J::Arr(steps_text(&r.steps, &acts)))
                    .set("history", hist_json(&r.hist))
            };
            match &r.outcome {
                Outcome::Complete => {
                    // final observation joins the history
                    let mut ops = r.hist.clone();
                    let end = ops.iter().map(|o| o.resp).max().unwrap_or(0);
                    for obj in 0..2 {
                        ops.push(HOp { t: 99, i: obj, act: Act::Snap { obj }, inv: end + 1 + 2 * obj as u64, resp: end + 2 + 2 * obj as u64, res: Res::Seq(r.finals[obj].clone()) });
                    }
                    let fh = hash_str(&format!(
                        "{:?}|{:?}|{}",
                        r.finals[0],
                        r.finals[1],
                        {
                            let mut v: Vec<&HOp> = r.hist.iter().collect();
                            v.sort_by_key(|o| (o.t, o.i));
                            v.iter().map(|o| o.res.show()).collect::<Vec<_>>().join(";")
                        }
                    ));
                    st.finals.insert(fh);
                    if linearize(&ops, &init, 0).is_none() {
                        st.nonlin += 1;
                        // one signature per operation kind whose result cannot be explained
                        let (sigs, why) = match culprits(&ops, &init) {
                            Some(c) => {
                                let mut labels: Vec<String> = c.iter().map(|k| ops[*k].act.label()).collect();
                                labels.sort();
                                labels.dedup();
                                // mutators that overlap a culprit in real time
                                let mut muts: Vec<String> = Vec::new();
                                for k in &c {
                                    for p in &ops {
                                        if p.t != ops[*k].t && matches!(p.act, Act::Push { .. } | Act::Swap { .. }) && p.resp > ops[*k].inv && p.inv < ops[*k].resp {
                                            muts.push(p.act.label());
                                        }
                                    }
                                }
                                muts.sort();
                                muts.dedup();
                                (
                                    labels.iter().map(|l| format!("not-linearizable@{l}")).collect::<Vec<_>>(),
                                    format!(
                                        "no linearization explains the result of {} (concurrent mutators: {})",
                                        c.iter().map(|k| format!("T{}.{} {} -> {}", ops[*k].t, ops[*k].i, ops[*k].act.show(), ops[*k].res.show())).collect::<Vec<_>>().join(", "),
                                        muts.join(",")
                                    ),
                                )
                            }
                            None => (vec!["not-linearizable@many".to_string()], "no linearization, more than 3 results are unexplained".to_string()),
                        };
                        for sig in sigs {
                            if reported.insert(sig.clone()) {
                                out.viol(
                                    sig,
                                    format!("{why}; config {} (elem {}, init len {})", cfg.text(), cfg.elem.name(), cfg.init_len),
                                    detail(&r).set("final_a", format!("{:?}", r.finals[0])).set("final_b", format!("{:?}", r.finals[1])),
                                );
                            }
                        }
                    }
                }
                Outcome::Deadlock { sig_ops, blocked } => {
                    st.deadlocks += 1;
                    let sig = format!("deadlock@{}", sig_ops.join("||"));
                    if reported.insert(sig.clone()) {
                        out.viol(
                            sig,
                            format!(
                                "every unfinished thread waits for a list mutex that is not free: {}; config {} (elem {}, init len {})",
                                blocked.iter().map(|(t, l, w)| format!("T{t} in {l} {w}")).collect::<Vec<_>>().join("; "),
                                cfg.text(),
                                cfg.elem.name(),
                                cfg.init_len
                            ),
                            detail(&r),
                        );
                    }
                }
                Outcome::Stale(sp) => {
                    st.stale += 1;
                    let rel = match &sp.rel {
                        Some(r) => r.act.map(|a| a.label()).unwrap_or_else(|| "drop".into()),
                        None => "garbage".into(),
                    };
                    let sig = format!("stale-pointer:{}-vs-{}@{}", sp.esc.label(), rel, cfg.elem.name());
                    if reported.insert(sig.clone()) {
                        let why = match (&sp.rel, sp.garbage) {
                            (Some(r), _) => format!(
                                "the address lies in the buffer [{:#x}, +{}) that T{} [{}] released (freed or moved) at clock {} and that no list has owned since",
                                r.addr,
                                r.bytes,
                                r.thread,
                                r.act.map(|a| a.show()).unwrap_or_default(),
                                r.clock
                            ),
                            (None, Some((id, canary))) => format!("the bytes there are not a live element (id {id:#x}, canary {canary:#x})"),
                            _ => String::new(),
                        };
                        out.viol(
                            sig,
                            format!(
                                "T{} [{}] was about to read an element at {:#x} (element `{}`): {why}; config {} (elem {}, init len {})",
                                sp.esc_thread,
                                sp.esc.show(),
                                sp.addr,
                                sp.what,
                                cfg.text(),
                                cfg.elem.name(),
                                cfg.init_len
                            ),
                            detail(&r),
                        );
                    }
                }
                Outcome::Panic(t, msg) => {
                    let sig = panic_sig(msg);
                    if reported.insert(sig.clone()) {
                        out.viol(sig, format!("T{t} panicked: {msg}; config {}", cfg.text()), detail(&r));
                    }
                }
                Outcome::Watchdog(why) => {
                    out.skipped = Some(format!("scheduler-watchdog: {why}"));
                    stopped = Some("stopped:watchdog");
                }
                Outcome::Diverged(why) => {
                    out.skipped = Some(format!("scheduler-replay: {why}"));
                    stopped = Some("stopped:replay");
                }
            }
            if stopped.is_some() {
                break;
            }
            if st.leaked >= self.leak_cap {
                stopped = Some("stopped:leak-cap");
                break;
            }
            if LEAKED.load(Ordering::SeqCst) >= process_leak_budget {
                out.skipped = Some("leak-budget: too many threads leaked by this worker process".into());
                stopped = Some("stopped:leak-budget");
                break;
            }
            if random_phase {
                random_left -= 1;
                if random_left == 0 {
                    break;
                }
                continue;
            }
            // depth-first: deepest step with an untried enabled thread
            let mut next = None;
            for i in (0..r.steps.len()).rev() {
                let s = &r.steps[i];
                let higher = (s.mask as u32) & !((1u32 << (s.chosen as u32 + 1)) - 1);
                if higher != 0 {
                    next = Some((i, higher.trailing_zeros() as u8));
                    break;
                }
            }
            match next {
                None => {
                    exhaustive = true;
                    break;
                }
                Some((i, c)) => {
                    prefix = r.steps[..i].iter().map(|s| s.chosen).collect();
                    prefix.push(c);
                }
            }
            if st.schedules >= self.sched_cap {
                if self.rand_extra == 0 {
                    break;
                }
                random_phase = true;
                random_left = self.rand_extra;
            }
        }
        out.evals = st.schedules;
        out.events = st.events;
        out.nontrivial = st.seen_choice.len() >= 2;
        out.count("schedules", st.schedules);
        out.count("distinct-schedules", st.seen_choice.len() as u64);
        out.count("steps", st.steps);
        out.count("decision-points", st.decision_points);
        out.count("distinct-final-states", st.finals.len() as u64);
        out.count("max-enabled", st.max_enabled as u64);
        out.count("deadlocks", st.deadlocks);
        out.count("stale-pointer-hits", st.stale);
        out.count("not-linearizable", st.nonlin);
        out.count("buffer-releases", st.releases);
        out.count("elem-yields", st.elem_yields);
        out.count("lock-trials", lock_sched().trials - trials_before);
        out.count("leaked-threads", st.leaked);
        out.count("exhaustive", exhaustive as u64);
        if let Some(s) = stopped {
            out.count(s, 1);
        }
        out.tags.push(format!("explore:{}", if exhaustive { "exhaustive" } else { "capped" }));
        if st.releases > 0 {
            out.tags.push("buffer:released".into());
        }
        if st.deadlocks > 0 {
            out.tags.push("abort:deadlock".into());
        }
        if st.stale > 0 {
            out.tags.push("abort:stale-pointer".into());
        }
        out.sample = Some(
            J::obj()
                .set("config", cfg.to_json())
                .set("schedule", first_schedule.unwrap_or_default())
                .set("schedules", st.schedules)
                .set("exhaustive", exhaustive),
        );
    }
}

impl Family for ListSched {
    fn n_cases(&self, args: &Args) -> u64 {
        // the whole 2 x <=2 enumeration is covered by prelude + ceil(4/3 * n_enum) cases
        // (the `hello` line of `--enum-only 1` says how many that is); the defaults are
        // prefixes of the same strided order
        // (or, with `--enum-only 1`, by prelude + n_enum cases)
        if self.enum_only {
            return self.prelude.len() as u64 + self.n_enum();
        }
        (if args.thorough() { 16_096 } else { 4_096 }).max(self.prelude.len() as u64)
    }

    fn run(&mut self, k: u64, rng: &mut Rng, _args: &Args) -> CaseOut {
        let cfg = self.config_for(k, rng);
        let mut out = CaseOut { hash: hash_str(&cfg.key()), ..CaseOut::default() };
        let mut ops: Vec<&'static str> = cfg.progs.iter().flatten().map(|o| o.name()).collect();
        ops.sort();
        ops.dedup();
        for o in ops {
            out.tags.push(format!("op:{o}"));
        }
        out.tags.push(format!("threads:{}", cfg.progs.len()));
        out.tags.push(format!("ops:{}", cfg.progs.iter().map(|p| p.len()).max().unwrap_or(0)));
        out.tags.push(format!("shape:{}", cfg.progs.iter().map(|p| p.len().to_string()).collect::<Vec<_>>().join("+")));
        out.tags.push(format!("elem:{}", cfg.elem.name()));
        out.tags.push(format!("init-len:{}", cfg.init_len));
        out.tags.push(format!("origin:{}", cfg.origin));
        for (t, f) in cfg.horder.iter().enumerate() {
            out.tags.push(format!("handle-order:T{t}:{}", if *f { "a<b" } else { "b<a" }));
        }
        let script = cfg.uses_script();
        if script && CAL_FNS.lock().unwrap_or_else(|e| e.into_inner()).is_none() {
            match Self::fns::<Val<Yv>>(&mut self.rt, &mut self.fns_val) {
                Ok(f) => *CAL_FNS.lock().unwrap_or_else(|e| e.into_inner()) = Some(f),
                Err(e) => {
                    out.skipped = Some(format!("script functions rejected: {e}"));
                    return out;
                }
            }
        }
        match cfg.elem {
            ElemKind::U64 => {
                let fns = if script {
                    match Self::fns::<u64>(&mut self.rt, &mut self.fns_u64) {
                        Ok(f) => Some(f),
                        Err(e) => {
                            out.skipped = Some(format!("script functions rejected: {e}"));
                            return out;
                        }
                    }
                } else {
                    None
                };
                self.run_case::<u64>(&cfg, fns, rng, &mut out);
            }
            ElemKind::Str => {
                let fns = if script {
                    match Self::fns::<RotoString>(&mut self.rt, &mut self.fns_str) {
                        Ok(f) => Some(f),
                        Err(e) => {
                            out.skipped = Some(format!("script functions rejected: {e}"));
                            return out;
                        }
                    }
                } else {
                    None
                };
                self.run_case::<RotoString>(&cfg, fns, rng, &mut out);
            }
            ElemKind::Val => {
                let fns = if script {
                    match Self::fns::<Val<Yv>>(&mut self.rt, &mut self.fns_val) {
                        Ok(f) => Some(f),
                        Err(e) => {
                            out.skipped = Some(format!("script functions rejected: {e}"));
                            return out;
                        }
                    }
                } else {
                    None
                };
                self.run_case::<Val<Yv>>(&cfg, fns, rng, &mut out);
            }
        }
        out
    }

    fn describe(&mut self, k: u64, rng: &mut Rng, _args: &Args) -> Option<J> {
        Some(self.config_for(k, rng).to_json())
    }
}
