//! C19 — the test runner and the command line front end report truthfully.
//!
//! Two families share one generator of *packages* (1-4 modules, 0-12 `test` blocks,
//! helper functions, entry functions, items whose names collide with test names):
//!
//! * `tests-inproc`: compile in memory against a runtime with the logging host function
//!   `mark(k: u32)`, call `Package::run_tests` / `get_tests` / `get_function`.
//! * `tests-cli`: write the package to a temp dir and run the stock `roto` binary
//!   (markers are `print("@M<k>;")` lines on stdout) or `cli_host` (a CLI generated with
//!   `Runtime::cli()` whose `mark(k)` appends to the file named by RVMON_MARK_FILE) with the
//!   subcommands `check`, `test`, `run [fn]`.
//!
//! The oracle is the generator's own knowledge: every condition in a generated body is
//! a constant or a call of a helper whose result the generator can compute, so the
//! sequence of markers and the verdict of every test and entry function is known
//! (`Model`). Nothing about the *order* of tests is assumed except determinism: the docs
//! do not state an order (the implementation sorts by qualified name; this is counted,
//! not asserted).

use std::cell::RefCell;
use std::collections::{BTreeMap, BTreeSet};
use std::io::{Read, Seek, SeekFrom, Write};
use std::path::{Path, PathBuf};
use std::process::{Command, Stdio};

use roto::{FileSpec, FileTree, NoCtx, Package, Runtime, SourceFile, Verdict, library};

use crate::jsonw::J;
use crate::rng::Rng;
use crate::work::{Args, CaseOut, Family, catch, hash_str, panic_sig};

// ---------------------------------------------------------------------------
// in-process marker log
// ---------------------------------------------------------------------------

thread_local! {
    static MARKS: RefCell<Vec<u32>> = const { RefCell::new(Vec::new()) };
}

fn marks_take() -> Vec<u32> {
    MARKS.with(|m| std::mem::take(&mut *m.borrow_mut()))
}

fn inproc_runtime() -> Runtime<NoCtx> {
    let mut rt = Runtime::new();
    rt.add_io_functions();
    rt.add(library! {
        /// Log the marker `k`
        fn mark(k: u32) {
            MARKS.with(|m| m.borrow_mut().push(k));
        }
    })
    .expect("mark registers");
    rt
}

// ---------------------------------------------------------------------------
// stdout capture (run_tests prints its report with println!)
// ---------------------------------------------------------------------------

unsafe extern "C" {
    fn dup(fd: i32) -> i32;
    fn dup2(old: i32, new: i32) -> i32;
    fn close(fd: i32) -> i32;
}

struct Capture {
    file: std::fs::File,
}

impl Capture {
    fn new() -> Option<Capture> {
        let path = std::env::temp_dir().join(format!("rvmon-c19-out-{}", std::process::id()));
        let file = std::fs::OpenOptions::new().read(true).write(true).create(true).truncate(true).open(&path).ok()?;
        let _ = std::fs::remove_file(&path);
        Some(Capture { file })
    }

    /// Run `f` with fd 1 pointing at the capture file. `f` must not unwind.
    fn run<R>(&mut self, f: impl FnOnce() -> R) -> (R, String) {
        use std::os::fd::AsRawFd;
        let _ = std::io::stdout().flush();
        let _ = self.file.set_len(0);
        let _ = self.file.seek(SeekFrom::Start(0));
        let saved = unsafe { dup(1) };
        if saved < 0 {
            return (f(), String::new());
        }
        unsafe { dup2(self.file.as_raw_fd(), 1) };
        let r = f();
        let _ = std::io::stdout().flush();
        unsafe {
            dup2(saved, 1);
            close(saved);
        }
        let mut s = String::new();
        let _ = self.file.seek(SeekFrom::Start(0));
        let mut bytes = Vec::new();
        let _ = self.file.read_to_end(&mut bytes);
        s.push_str(&String::from_utf8_lossy(&bytes));
        (r, s)
    }
}

// ---------------------------------------------------------------------------
// package model
// ---------------------------------------------------------------------------

#[derive(Clone, Copy, PartialEq, Eq, Debug)]
enum Mode {
    /// markers are `mark(k);`
    Host,
    /// markers are `print("@M<k>;");` (stock binary: no `mark`)
    Stock,
}

#[derive(Clone, Debug)]
struct ModDef {
    name: String,
    parent: Option<usize>,
    /// qualified path including the leading `pkg`
    path: Vec<String>,
    has_children: bool,
}

#[derive(Clone, Debug)]
enum HBody {
    Gt(u32),
    Eq(u32),
    Even,
    NotLt(u32),
    /// calls helper `to` with `x + add`
    Chain { to: usize, add: u32 },
    /// member of a group of mutually recursive helpers: below `limit` it calls the next member
    /// of the cycle (`peer`, a helper declared before or AFTER it) with `x + step`
    Rec { peer: usize, limit: u32, step: u32 },
}

#[derive(Clone, Debug)]
struct Helper {
    name: String,
    module: usize,
    marker: u32,
    body: HBody,
}

#[derive(Clone, Copy, Debug, PartialEq)]
enum CollKind {
    /// `fn name() -> Verdict[(), ()]` with the given outcome
    Verdict(bool),
    /// `fn name()`
    Unit,
    /// `fn name(x: u32) -> u32`
    Other,
}

#[derive(Clone, Debug)]
struct CollFn {
    name: String,
    module: usize,
    marker: u32,
    kind: CollKind,
}

#[derive(Clone, Debug)]
enum Cond {
    Lit(bool),
    Call(usize, u32),
    Var(String),
    Cmp(u32, &'static str, u32),
    Not(Box<Cond>),
}

#[derive(Clone, Debug)]
struct Ret {
    accept: bool,
    /// 0 `accept` (block tail) 1 `accept;` 2 `return Verdict.Accept(());` 3 `return Verdict.Accept(())`
    syn: u8,
}

#[derive(Clone, Debug, Default)]
struct Block {
    stmts: Vec<Stmt>,
    ret: Option<Ret>,
}

#[derive(Clone, Debug)]
enum Stmt {
    Mark(u32),
    Let { var: String, h: usize, arg: u32 },
    CallColl { c: usize, var: String, arg: u32 },
    If { cond: Cond, then: Block, els: Option<Block> },
}

#[derive(Clone, Debug)]
enum Tail {
    /// `accept` / `reject`
    Kw(bool),
    /// `return Verdict.Accept(())`
    RetPath(bool),
    /// `Verdict.Accept(())`
    Path(bool),
    /// `if c { accept } else { reject }` (then-verdict given)
    IfElse(Cond, bool),
    /// the verdict of a same-named or other colliding function: `foo()`
    CallColl(usize),
}

#[derive(Clone, Debug)]
struct TestBlock {
    name: String,
    module: usize,
    head: u32,
    body: Block,
    tail: Tail,
    coll: &'static str,
    /// index of the colliding function, if the collision is a function
    coll_fn: Option<usize>,
    exp_marks: Vec<u32>,
    exp_accept: bool,
}

#[derive(Clone, Copy, Debug, PartialEq)]
enum EntryKind {
    Ok,
    Ret,
    Arg,
    VerdictRet,
}

#[derive(Clone, Debug)]
struct Entry {
    name: String,
    kind: EntryKind,
    marker: u32,
    body: Block,
    exp_marks: Vec<u32>,
}

struct Pkg {
    mode: Mode,
    mods: Vec<ModDef>,
    helpers: Vec<Helper>,
    colls: Vec<CollFn>,
    tests: Vec<TestBlock>,
    entries: Vec<Entry>,
    /// consts, records: (module, source)
    extra: Vec<(usize, String)>,
    /// helper indices imported per module
    imports: Vec<BTreeSet<usize>>,
    /// per module: 0 absolute imports, 1 prefer relative (`super.` / child) forms
    import_style: Vec<u8>,
    /// item order seed per module
    order_seed: Vec<u64>,
}

impl Pkg {
    fn qual(&self, module: usize, name: &str) -> String {
        format!("{}.{}", self.mods[module].path.join("."), name)
    }
    /// name relative to `pkg` (what `get_function` and `roto run` take)
    fn rel(&self, module: usize, name: &str) -> String {
        let mut p: Vec<&str> = self.mods[module].path[1..].iter().map(|s| s.as_str()).collect();
        p.push(name);
        p.join(".")
    }
    fn shape(&self) -> &'static str {
        if self.mods.len() == 1 { "single" } else { "multi-module" }
    }
    /// file path of a module relative to the package directory
    fn disk_path(&self, i: usize) -> String {
        if i == 0 {
            return "pkg.roto".into();
        }
        let m = &self.mods[i];
        let mut dirs: Vec<String> = m.path[1..m.path.len() - 1].to_vec();
        if m.has_children {
            dirs.push(m.name.clone());
            dirs.push("mod.roto".into());
        } else {
            dirs.push(format!("{}.roto", m.name));
        }
        dirs.join("/")
    }
}

// ---------------------------------------------------------------------------
// the model: what a body logs and returns
// ---------------------------------------------------------------------------

struct Model<'a> {
    helpers: &'a [Helper],
    colls: &'a [CollFn],
    log: Vec<u32>,
}

impl Model<'_> {
    fn helper(&mut self, h: usize, x: u32) -> bool {
        let hd = &self.helpers[h];
        self.log.push(hd.marker);
        match hd.body {
            HBody::Gt(c) => x > c,
            HBody::Eq(c) => x == c,
            HBody::Even => x % 2 == 0,
            HBody::NotLt(c) => !(x < c),
            HBody::Chain { to, add } => self.helper(to, x + add),
            HBody::Rec { peer, limit, step } => {
                if x >= limit {
                    x % 2 == 0
                } else {
                    self.helper(peer, x + step)
                }
            }
        }
    }
    fn coll(&mut self, c: usize) -> Option<bool> {
        let cd = &self.colls[c];
        self.log.push(cd.marker);
        match cd.kind {
            CollKind::Verdict(b) => Some(b),
            _ => None,
        }
    }
    fn cond(&mut self, c: &Cond, env: &BTreeMap<String, bool>) -> bool {
        match c {
            Cond::Lit(b) => *b,
            Cond::Call(h, x) => self.helper(*h, *x),
            Cond::Var(v) => env[v],
            Cond::Cmp(a, op, b) => match *op {
                "<" => a < b,
                "<=" => a <= b,
                ">" => a > b,
                ">=" => a >= b,
                "==" => a == b,
                _ => a != b,
            },
            Cond::Not(c) => !self.cond(c, env),
        }
    }
    /// Some(verdict) if the block returned
    fn block(&mut self, b: &Block, env: &mut BTreeMap<String, bool>) -> Option<bool> {
        for s in &b.stmts {
            match s {
                Stmt::Mark(k) => self.log.push(*k),
                Stmt::Let { var, h, arg } => {
                    let v = self.helper(*h, *arg);
                    env.insert(var.clone(), v);
                }
                Stmt::CallColl { c, .. } => {
                    self.coll(*c);
                }
                Stmt::If { cond, then, els } => {
                    let r = if self.cond(cond, env) {
                        self.block(then, env)
                    } else if let Some(e) = els {
                        self.block(e, env)
                    } else {
                        None
                    };
                    if r.is_some() {
                        return r;
                    }
                }
            }
        }
        b.ret.as_ref().map(|r| r.accept)
    }
    fn test(&mut self, head: u32, body: &Block, tail: &Tail) -> bool {
        self.log.push(head);
        let mut env = BTreeMap::new();
        if let Some(v) = self.block(body, &mut env) {
            return v;
        }
        match tail {
            Tail::Kw(b) | Tail::RetPath(b) | Tail::Path(b) => *b,
            Tail::IfElse(c, then_accept) => {
                if self.cond(c, &env) {
                    *then_accept
                } else {
                    !*then_accept
                }
            }
            Tail::CallColl(c) => self.coll(*c).unwrap_or(false),
        }
    }
}

// ---------------------------------------------------------------------------
// generator
// ---------------------------------------------------------------------------

const TEST_NAMES: &[&str] = &[
    "foo", "bar", "baz", "t1", "check_add", "zz", "x", "alpha_test", "Foo", "_u", "t_9", "testfoo", "test_",
    "tests", "Test", "accept_it", "rejects", "verdict", "is_ok", "q7", "a_very_long_test_name_with_many_words",
];
const MOD_NAMES: &[&str] = &["m1", "util", "alpha", "sub", "core", "zmod", "a", "lib2"];
const TYPE_NAMES: &[&str] = &["u32", "String", "bool", "Verdict", "Option", "i64"];

struct G<'a> {
    rng: &'a mut Rng,
    next_marker: u32,
    next_var: u32,
}

impl G<'_> {
    fn marker(&mut self) -> u32 {
        self.next_marker += 1 + self.rng.below(4) as u32;
        self.next_marker
    }
    fn var(&mut self, p: &str) -> String {
        self.next_var += 1;
        format!("{p}{}", self.next_var)
    }

    fn cond(&mut self, pkg: &mut Pkg, module: usize, vars: &[String], depth: u32) -> Cond {
        let mut w = vec![2u32, 0, 0, 3, 0];
        if !pkg.helpers.is_empty() {
            w[1] = 4;
        }
        if !vars.is_empty() {
            w[2] = 3;
        }
        if depth < 2 {
            w[4] = 2;
        }
        match self.rng.weighted(&w) {
            0 => Cond::Lit(self.rng.bool()),
            1 => {
                let h = self.rng.usize(pkg.helpers.len());
                self.use_helper(pkg, module, h);
                Cond::Call(h, self.rng.below(21) as u32)
            }
            2 => Cond::Var(self.rng.pick(vars).clone()),
            3 => {
                let op = *self.rng.pick(&["<", "<=", ">", ">=", "==", "!="]);
                Cond::Cmp(self.rng.below(8) as u32, op, self.rng.below(8) as u32)
            }
            _ => Cond::Not(Box::new(self.cond(pkg, module, vars, depth + 1))),
        }
    }

    fn use_helper(&mut self, pkg: &mut Pkg, module: usize, h: usize) {
        if pkg.helpers[h].module != module {
            pkg.imports[module].insert(h);
        }
    }

    fn block(&mut self, pkg: &mut Pkg, module: usize, vars: &mut Vec<String>, depth: u32, allow_ret: bool) -> Block {
        let n = if depth == 0 { self.rng.below(4) } else { self.rng.below(3) };
        let scope_len = vars.len();
        let mut b = Block::default();
        let local_colls: Vec<usize> = (0..pkg.colls.len()).filter(|c| pkg.colls[*c].module == module).collect();
        for _ in 0..n {
            let mut w = vec![3u32, 0, 0, 0];
            if !pkg.helpers.is_empty() {
                w[1] = 3;
            }
            if !local_colls.is_empty() {
                w[2] = 2;
            }
            if depth < 2 {
                w[3] = 4;
            }
            match self.rng.weighted(&w) {
                0 => b.stmts.push(Stmt::Mark(self.marker())),
                1 => {
                    let h = self.rng.usize(pkg.helpers.len());
                    self.use_helper(pkg, module, h);
                    let var = self.var("b");
                    b.stmts.push(Stmt::Let { var: var.clone(), h, arg: self.rng.below(21) as u32 });
                    vars.push(var);
                }
                2 => {
                    let c = *self.rng.pick(&local_colls);
                    b.stmts.push(Stmt::CallColl { c, var: self.var("v"), arg: self.rng.below(9) as u32 });
                }
                _ => {
                    let cond = self.cond(pkg, module, vars, 0);
                    let then = self.block(pkg, module, vars, depth + 1, allow_ret);
                    let els = if self.rng.chance(2, 5) {
                        Some(self.block(pkg, module, vars, depth + 1, allow_ret))
                    } else {
                        None
                    };
                    b.stmts.push(Stmt::If { cond, then, els });
                }
            }
        }
        if allow_ret && depth > 0 && self.rng.chance(2, 5) {
            b.ret = Some(Ret { accept: self.rng.chance(1, 3), syn: self.rng.below(4) as u8 });
        }
        vars.truncate(scope_len);
        b
    }
}

fn gen_pkg(rng: &mut Rng, mode: Mode) -> Pkg {
    let start = 1 + rng.below(900) as u32;
    let mut g = G { rng, next_marker: start, next_var: 0 };

    // modules
    let n_mods = 1 + g.rng.weighted(&[5, 3, 3, 3]);
    let mut names: Vec<&str> = MOD_NAMES.to_vec();
    g.rng.shuffle(&mut names);
    let mut mods = vec![ModDef { name: "pkg".into(), parent: None, path: vec!["pkg".into()], has_children: false }];
    for i in 1..n_mods {
        let parent = g.rng.usize(i);
        let mut path = mods[parent].path.clone();
        path.push(names[i].to_string());
        mods[parent].has_children = true;
        mods.push(ModDef { name: names[i].into(), parent: Some(parent), path, has_children: false });
    }
    let mut pkg = Pkg {
        mode,
        helpers: Vec::new(),
        colls: Vec::new(),
        tests: Vec::new(),
        entries: Vec::new(),
        extra: Vec::new(),
        imports: vec![BTreeSet::new(); n_mods],
        import_style: (0..n_mods).map(|_| g.rng.below(2) as u8).collect(),
        order_seed: (0..n_mods).map(|_| g.rng.next()).collect(),
        mods,
    };

    // helpers
    let n_helpers = g.rng.weighted(&[1, 2, 3, 3, 2]);
    for i in 0..n_helpers {
        let module = g.rng.usize(n_mods);
        let body = if i > 0 && g.rng.chance(1, 4) {
            let to = g.rng.usize(i);
            if pkg.helpers[to].module != module {
                pkg.imports[module].insert(to);
            }
            HBody::Chain { to, add: g.rng.below(4) as u32 }
        } else {
            match g.rng.below(4) {
                0 => HBody::Gt(g.rng.below(21) as u32),
                1 => HBody::Eq(g.rng.below(21) as u32),
                2 => HBody::Even,
                _ => HBody::NotLt(g.rng.below(21) as u32),
            }
        };
        let marker = g.marker();
        pkg.helpers.push(Helper { name: format!("h{}", i + 1), module, marker, body });
    }
    // a group of 2-3 mutually recursive helpers (one strongly connected component of the call
    // graph): tests, entry functions and other helpers call any member of it, not only the one
    // a traversal happens to enter first
    if g.rng.chance(1, 3) {
        let size = 2 + g.rng.usize(2);
        let first = pkg.helpers.len();
        let same_module = g.rng.chance(2, 3);
        let home = g.rng.usize(n_mods);
        for j in 0..size {
            let module = if same_module { home } else { g.rng.usize(n_mods) };
            let peer = first + (j + 1) % size;
            let marker = g.marker();
            pkg.helpers.push(Helper {
                name: format!("r{}", j + 1),
                module,
                marker,
                body: HBody::Rec { peer, limit: 2 + g.rng.below(6) as u32, step: 1 + g.rng.below(3) as u32 },
            });
        }
        for j in 0..size {
            let (me, peer) = (first + j, first + (j + 1) % size);
            if pkg.helpers[peer].module != pkg.helpers[me].module {
                let m = pkg.helpers[me].module;
                pkg.imports[m].insert(peer);
            }
        }
    }

    let has_main = g.rng.chance(3, 4);

    // tests: choose names and collisions first (collision functions may be called from bodies)
    let n_tests = match g.rng.weighted(&[1, 6, 6, 2]) {
        0 => 0,
        1 => 1 + g.rng.usize(3),
        2 => 4 + g.rng.usize(4),
        _ => 8 + g.rng.usize(5),
    };
    struct Plan {
        name: String,
        module: usize,
        coll: &'static str,
        coll_fn: Option<usize>,
        first_helper: Option<usize>,
    }
    let mut plans: Vec<Plan> = Vec::new();
    let mut used: Vec<BTreeSet<String>> = vec![BTreeSet::new(); n_mods];
    let mut fresh_ctr = 0;
    for _ in 0..n_tests {
        let module = g.rng.usize(n_mods);
        let mut fresh = |g: &mut G, used: &BTreeSet<String>| -> String {
            for _ in 0..6 {
                let n = *g.rng.pick(TEST_NAMES);
                if !used.contains(n) {
                    return n.to_string();
                }
            }
            loop {
                fresh_ctr += 1;
                let n = format!("gen_t{fresh_ctr}");
                if !used.contains(&n) {
                    return n;
                }
            }
        };
        let foreign_helpers: Vec<usize> = (0..pkg.helpers.len())
            .filter(|h| pkg.helpers[*h].module != module && !used[module].contains(&pkg.helpers[*h].name))
            .collect();
        let local_helpers: Vec<usize> = (0..pkg.helpers.len())
            .filter(|h| pkg.helpers[*h].module == module && !used[module].contains(&pkg.helpers[*h].name))
            .collect();
        let cross: Vec<String> = plans
            .iter()
            .filter(|p| p.module != module && !used[module].contains(&p.name) && p.name != "main")
            .filter(|p| !p.name.starts_with('h') || !pkg.helpers.iter().any(|h| h.name == p.name))
            .filter(|p| !MOD_NAMES.contains(&p.name.as_str()))
            .map(|p| p.name.clone())
            .collect();
        let mod_names: Vec<String> =
            pkg.mods[1..].iter().map(|m| m.name.clone()).filter(|n| !used[module].contains(n)).collect();
        let rt_fn = if mode == Mode::Host { "mark" } else { "print" };
        let w = [
            6u32,
            3,
            2,
            1,
            1,
            1,
            if mod_names.is_empty() { 0 } else { 2 },
            if foreign_helpers.is_empty() { 0 } else { 2 },
            if used[module].contains(rt_fn) { 0 } else { 1 },
            1,
            if cross.is_empty() { 0 } else { 3 },
            if module == 0 && has_main && !used[0].contains("main") { 2 } else { 0 },
            if local_helpers.is_empty() { 0 } else { 1 },
        ];
        let mut plan = Plan { name: String::new(), module, coll: "none", coll_fn: None, first_helper: None };
        let new_coll = |g: &mut G, pkg: &mut Pkg, name: &str, kind: CollKind| -> usize {
            let marker = g.marker();
            pkg.colls.push(CollFn { name: name.to_string(), module, marker, kind });
            pkg.colls.len() - 1
        };
        match g.rng.weighted(&w) {
            0 => plan.name = fresh(&mut g, &used[module]),
            1 => {
                plan.name = fresh(&mut g, &used[module]);
                plan.coll = "fn-verdict";
                // the outcome is fixed later to be the opposite of the test's
                plan.coll_fn = Some(new_coll(&mut g, &mut pkg, &plan.name, CollKind::Verdict(true)));
            }
            2 => {
                plan.name = fresh(&mut g, &used[module]);
                plan.coll = "fn-unit";
                plan.coll_fn = Some(new_coll(&mut g, &mut pkg, &plan.name, CollKind::Unit));
            }
            3 => {
                plan.name = fresh(&mut g, &used[module]);
                plan.coll = "fn-other";
                plan.coll_fn = Some(new_coll(&mut g, &mut pkg, &plan.name, CollKind::Other));
            }
            4 => {
                plan.name = fresh(&mut g, &used[module]);
                plan.coll = "const";
                pkg.extra.push((module, format!("const {}: u32 = {};", plan.name, g.rng.below(100))));
            }
            5 => {
                plan.name = fresh(&mut g, &used[module]);
                plan.coll = "record";
                pkg.extra.push((module, format!("record {} {{ a: u32, b: bool }}", plan.name)));
            }
            6 => {
                plan.name = g.rng.pick(&mod_names).clone();
                plan.coll = "module";
            }
            7 => {
                let h = *g.rng.pick(&foreign_helpers);
                plan.name = pkg.helpers[h].name.clone();
                plan.coll = "import";
                plan.first_helper = Some(h);
            }
            8 => {
                plan.name = rt_fn.to_string();
                plan.coll = "runtime-fn";
            }
            9 => {
                let cands: Vec<&str> = TYPE_NAMES.iter().copied().filter(|n| !used[module].contains(*n)).collect();
                if cands.is_empty() {
                    plan.name = fresh(&mut g, &used[module]);
                } else {
                    plan.name = g.rng.pick(&cands).to_string();
                    plan.coll = "type";
                }
            }
            10 => {
                plan.name = g.rng.pick(&cross).clone();
                plan.coll = "cross-module";
            }
            11 => {
                plan.name = "main".into();
                plan.coll = "entry";
            }
            _ => {
                let h = *g.rng.pick(&local_helpers);
                plan.name = pkg.helpers[h].name.clone();
                plan.coll = "fn-helper";
                plan.first_helper = Some(h);
            }
        }
        used[module].insert(plan.name.clone());
        plans.push(plan);
    }

    // test bodies
    for plan in plans {
        let head = g.marker();
        let mut vars = Vec::new();
        let mut body = Block::default();
        if let Some(h) = plan.first_helper {
            g.use_helper(&mut pkg, plan.module, h);
            let var = g.var("b");
            body.stmts.push(Stmt::Let { var: var.clone(), h, arg: g.rng.below(21) as u32 });
            vars.push(var);
        }
        let rest = g.block(&mut pkg, plan.module, &mut vars.clone(), 0, true);
        // variables bound at the top level of the body stay visible for the tail
        for s in &rest.stmts {
            if let Stmt::Let { var, .. } = s {
                vars.push(var.clone());
            }
        }
        body.stmts.extend(rest.stmts);
        let verdict_colls: Vec<usize> = (0..pkg.colls.len())
            .filter(|c| {
                pkg.colls[*c].module == plan.module
                    && matches!(pkg.colls[*c].kind, CollKind::Verdict(_))
                    && Some(*c) != plan.coll_fn
            })
            .collect();
        let tail = match g.rng.weighted(&[5, 1, 1, 3, if verdict_colls.is_empty() { 0 } else { 2 }]) {
            0 => Tail::Kw(g.rng.chance(3, 4)),
            1 => Tail::RetPath(g.rng.chance(3, 4)),
            2 => Tail::Path(g.rng.chance(3, 4)),
            3 => {
                let c = g.cond(&mut pkg, plan.module, &vars, 0);
                Tail::IfElse(c, g.rng.bool())
            }
            _ => Tail::CallColl(*g.rng.pick(&verdict_colls)),
        };
        pkg.tests.push(TestBlock {
            name: plan.name,
            module: plan.module,
            head,
            body,
            tail,
            coll: plan.coll,
            coll_fn: plan.coll_fn,
            exp_marks: Vec::new(),
            exp_accept: false,
        });
    }

    // entries (all in the root module)
    if has_main {
        let body = g.block(&mut pkg, 0, &mut Vec::new(), 0, false);
        let marker = g.marker();
        pkg.entries.push(Entry { name: "main".into(), kind: EntryKind::Ok, marker, body, exp_marks: Vec::new() });
    }
    for (name, kind) in [
        ("e_ok", EntryKind::Ok),
        ("e_ret", EntryKind::Ret),
        ("e_arg", EntryKind::Arg),
        ("e_verdict", EntryKind::VerdictRet),
    ] {
        if g.rng.chance(1, 2) {
            let body = if kind == EntryKind::Ok { g.block(&mut pkg, 0, &mut Vec::new(), 0, false) } else { Block::default() };
            let marker = g.marker();
            pkg.entries.push(Entry { name: name.into(), kind, marker, body, exp_marks: Vec::new() });
        }
    }

    // Evaluate the model. The verdict of a same-named `fn` is made the opposite of the
    // test's own verdict, so that running the function in place of the test is visible
    // in the result as well as in the markers. A test never calls its own namesake in the
    // tail (see `verdict_colls`), but other tests may; iterate to a fixed point (the
    // dependency "tail calls coll of another test" may form chains, rarely cycles).
    for _round in 0..8 {
        let mut changed = false;
        for i in 0..pkg.tests.len() {
            let mut m = Model { helpers: &pkg.helpers, colls: &pkg.colls, log: Vec::new() };
            let t = &pkg.tests[i];
            let acc = m.test(t.head, &t.body, &t.tail);
            let log = m.log;
            let t = &mut pkg.tests[i];
            if t.exp_accept != acc || t.exp_marks != log {
                changed = true;
            }
            t.exp_accept = acc;
            t.exp_marks = log;
            if let Some(c) = t.coll_fn
                && let CollKind::Verdict(b) = pkg.colls[c].kind
                && b == acc
            {
                pkg.colls[c].kind = CollKind::Verdict(!acc);
                changed = true;
            }
        }
        if !changed {
            break;
        }
    }
    for i in 0..pkg.entries.len() {
        let mut m = Model { helpers: &pkg.helpers, colls: &pkg.colls, log: Vec::new() };
        let e = &pkg.entries[i];
        m.log.push(e.marker);
        if e.kind == EntryKind::Ok {
            m.block(&e.body, &mut BTreeMap::new());
        }
        pkg.entries[i].exp_marks = m.log;
    }
    pkg
}

/// The model is only trusted when the opposite-verdict fix-up converged.
fn model_consistent(pkg: &Pkg) -> bool {
    for t in &pkg.tests {
        let mut m = Model { helpers: &pkg.helpers, colls: &pkg.colls, log: Vec::new() };
        let acc = m.test(t.head, &t.body, &t.tail);
        if acc != t.exp_accept || m.log != t.exp_marks {
            return false;
        }
    }
    true
}

// ---------------------------------------------------------------------------
// rendering
// ---------------------------------------------------------------------------

fn mark_src(mode: Mode, k: u32) -> String {
    match mode {
        Mode::Host => format!("mark({k});"),
        Mode::Stock => format!("print(\"@M{k};\");"),
    }
}

fn cond_src(pkg: &Pkg, c: &Cond) -> String {
    match c {
        Cond::Lit(b) => b.to_string(),
        Cond::Call(h, x) => format!("{}({x})", pkg.helpers[*h].name),
        Cond::Var(v) => v.clone(),
        Cond::Cmp(a, op, b) => format!("{a} {op} {b}"),
        Cond::Not(c) => format!("!({})", cond_src(pkg, c)),
    }
}

fn verdict_path(accept: bool) -> &'static str {
    if accept { "Verdict.Accept(())" } else { "Verdict.Reject(())" }
}

fn block_src(pkg: &Pkg, b: &Block, ind: usize, out: &mut String) {
    let pad = "    ".repeat(ind);
    for s in &b.stmts {
        match s {
            Stmt::Mark(k) => out.push_str(&format!("{pad}{}\n", mark_src(pkg.mode, *k))),
            Stmt::Let { var, h, arg } => out.push_str(&format!("{pad}let {var} = {}({arg});\n", pkg.helpers[*h].name)),
            Stmt::CallColl { c, var, arg } => {
                let cd = &pkg.colls[*c];
                match cd.kind {
                    CollKind::Verdict(_) => out.push_str(&format!("{pad}let {var} = {}();\n", cd.name)),
                    CollKind::Unit => out.push_str(&format!("{pad}{}();\n", cd.name)),
                    CollKind::Other => out.push_str(&format!("{pad}let {var} = {}({arg});\n", cd.name)),
                }
            }
            Stmt::If { cond, then, els } => {
                out.push_str(&format!("{pad}if {} {{\n", cond_src(pkg, cond)));
                block_src(pkg, then, ind + 1, out);
                if let Some(e) = els {
                    out.push_str(&format!("{pad}}} else {{\n"));
                    block_src(pkg, e, ind + 1, out);
                }
                out.push_str(&format!("{pad}}}\n"));
            }
        }
    }
    if let Some(r) = &b.ret {
        let kw = if r.accept { "accept" } else { "reject" };
        let line = match r.syn {
            0 => kw.to_string(),
            1 => format!("{kw};"),
            2 => format!("return {};", verdict_path(r.accept)),
            _ => format!("return {}", verdict_path(r.accept)),
        };
        out.push_str(&format!("{pad}{line}\n"));
    }
}

fn test_src(pkg: &Pkg, t: &TestBlock) -> String {
    let mut s = format!("test {} {{\n    {}\n", t.name, mark_src(pkg.mode, t.head));
    block_src(pkg, &t.body, 1, &mut s);
    if t.head % 3 == 0 {
        // a type-checking obligation that is only resolved after the body was checked
        // (interpolated values must be printable); no effect on markers or verdict
        s.push_str(&format!("    let note{} = f\"test {{{}}} done: {{true}}\";\n", t.head, t.head));
    }
    let tail = match &t.tail {
        Tail::Kw(b) => (if *b { "accept" } else { "reject" }).to_string(),
        Tail::RetPath(b) => format!("return {}", verdict_path(*b)),
        Tail::Path(b) => verdict_path(*b).to_string(),
        Tail::IfElse(c, then_accept) => {
            let (a, b) = if *then_accept { ("accept", "reject") } else { ("reject", "accept") };
            format!("if {} {{\n        {a}\n    }} else {{\n        {b}\n    }}", cond_src(pkg, c))
        }
        Tail::CallColl(c) => format!("{}()", pkg.colls[*c].name),
    };
    s.push_str(&format!("    {tail}\n}}\n"));
    s
}

fn import_src(pkg: &Pkg, module: usize, h: usize) -> String {
    let hm = pkg.helpers[h].module;
    let name = &pkg.helpers[h].name;
    let from = &pkg.mods[module].path;
    let to = &pkg.mods[hm].path;
    if pkg.import_style[module] == 1 {
        // child form: `import child.grandchild.h;`
        if to.len() > from.len() && to[..from.len()] == from[..] {
            return format!("import {}.{name};", to[from.len()..].join("."));
        }
        // parent form: `import super[.sibling].h;`
        if from.len() > 1 {
            let parent = &from[..from.len() - 1];
            if to.len() >= parent.len() && to[..parent.len()] == parent[..] {
                let mut segs = vec!["super".to_string()];
                segs.extend(to[parent.len()..].iter().cloned());
                return format!("import {}.{name};", segs.join("."));
            }
        }
    }
    format!("import {}.{name};", to.join("."))
}

fn module_src(pkg: &Pkg, module: usize) -> String {
    let mut items: Vec<String> = Vec::new();
    for h in pkg.helpers.iter().filter(|h| h.module == module) {
        let expr = match h.body {
            HBody::Gt(c) => format!("x > {c}"),
            HBody::Eq(c) => format!("x == {c}"),
            HBody::Even => "x % 2 == 0".to_string(),
            HBody::NotLt(c) => format!("!(x < {c})"),
            HBody::Chain { to, add } => format!("{}(x + {add})", pkg.helpers[to].name),
            HBody::Rec { peer, limit, step } => {
                format!("if x >= {limit} {{ x % 2 == 0 }} else {{ {}(x + {step}) }}", pkg.helpers[peer].name)
            }
        };
        items.push(format!("fn {}(x: u32) -> bool {{\n    {}\n    {expr}\n}}\n", h.name, mark_src(pkg.mode, h.marker)));
    }
    for c in pkg.colls.iter().filter(|c| c.module == module) {
        let m = mark_src(pkg.mode, c.marker);
        items.push(match c.kind {
            CollKind::Verdict(b) => {
                let kw = if b { "accept" } else { "reject" };
                if c.marker % 2 == 1 {
                    // the same thing spelled as a filtermap
                    format!("filtermap {}() {{\n    {m}\n    {kw}\n}}\n", c.name)
                } else {
                    format!("fn {}() -> Verdict[(), ()] {{\n    {m}\n    {kw}\n}}\n", c.name)
                }
            }
            CollKind::Unit => format!("fn {}() {{\n    {m}\n}}\n", c.name),
            CollKind::Other => format!("fn {}(x: u32) -> u32 {{\n    {m}\n    x + 1\n}}\n", c.name),
        });
    }
    for t in pkg.tests.iter().filter(|t| t.module == module) {
        items.push(test_src(pkg, t));
    }
    for (m, src) in &pkg.extra {
        if *m == module {
            items.push(format!("{src}\n"));
        }
    }
    if module == 0 {
        for e in &pkg.entries {
            let m = mark_src(pkg.mode, e.marker);
            items.push(match e.kind {
                EntryKind::Ok => {
                    let mut s = format!("fn {}() {{\n    {m}\n", e.name);
                    block_src(pkg, &e.body, 1, &mut s);
                    s.push_str("}\n");
                    s
                }
                EntryKind::Ret => format!("fn {}() -> u32 {{\n    {m}\n    7\n}}\n", e.name),
                EntryKind::Arg => format!("fn {}(x: u32) {{\n    {m}\n}}\n", e.name),
                EntryKind::VerdictRet => format!("fn {}() -> Verdict[(), ()] {{\n    {m}\n    accept\n}}\n", e.name),
            });
        }
    }
    let mut r = Rng::new(pkg.order_seed[module]);
    r.shuffle(&mut items);
    let mut s = String::new();
    for h in &pkg.imports[module] {
        s.push_str(&import_src(pkg, module, *h));
        s.push('\n');
    }
    for it in items {
        s.push_str(&it);
        s.push('\n');
    }
    s
}

/// By-construction invalid variants. Returns (kind, module edited) or None if the kind
/// is not applicable to this package.
fn break_pkg(rng: &mut Rng, pkg: &Pkg, srcs: &mut [String]) -> Option<(&'static str, usize)> {
    let m = rng.usize(srcs.len());
    let plain: Vec<usize> =
        (0..pkg.tests.len()).filter(|t| matches!(pkg.tests[*t].coll, "none" | "cross-module")).collect();
    let kinds = [
        "unknown-ident", "unknown-ident-in-test", "type-mismatch", "test-not-verdict", "test-no-tail", "accept-value",
        "missing-brace", "extra-brace", "dup-test", "call-test", "call-test-from-test", "import-test", "test-with-params",
        "stray-char-top-level", "stray-token-top-level",
    ];
    let kind = *rng.pick(&kinds);
    match kind {
        "unknown-ident" => srcs[m].push_str("fn brk_fn() -> u32 {\n    undefined_zz\n}\n"),
        "unknown-ident-in-test" => srcs[m].push_str("test brk_t {\n    let q = undefined_zz;\n    accept\n}\n"),
        "type-mismatch" => srcs[m].push_str("fn brk_fn() -> u32 {\n    true\n}\n"),
        "test-not-verdict" => srcs[m].push_str("test brk_t {\n    1\n}\n"),
        "test-no-tail" => srcs[m].push_str("test brk_t {\n    let q = 1;\n}\n"),
        "accept-value" => srcs[m].push_str("test brk_t {\n    accept 1\n}\n"),
        "missing-brace" => {
            let i = srcs[m].rfind('}')?;
            srcs[m].truncate(i);
        }
        "extra-brace" => srcs[m].push_str("}\n"),
        "stray-char-top-level" | "stray-token-top-level" => {
            // something that is not an item between two top-level items (or before the
            // first / after the last one): a character that is no token at all, or a token
            // that cannot start an item
            let what: &str = if kind == "stray-char-top-level" {
                *rng.pick(&["@", "$", "~", "\u{20ac}", "`", "&", "\\", "\u{a7}"])
            } else {
                *rng.pick(&[")", "]", "?", "123", "=>", "==", "\"text\"", ".", ","])
            };
            // top-level positions: start, end, and after every line that is just `}`
            let mut pos: Vec<usize> = vec![0, srcs[m].len()];
            let mut off = 0;
            for line in srcs[m].split_inclusive('\n') {
                off += line.len();
                if line.trim_end() == "}" {
                    pos.push(off);
                }
            }
            let at = *rng.pick(&pos);
            let ins = match rng.below(3) {
                0 => format!("{what}\n"),
                1 => format!("  {what}  \n"),
                _ => format!("\n{what}"),
            };
            srcs[m].insert_str(at, &ins);
        }
        "test-with-params" => srcs[m].push_str("test brk_t() {\n    accept\n}\n"),
        "dup-test" => {
            let t = &pkg.tests.get(rng.usize(pkg.tests.len().max(1)))?;
            srcs[t.module].push_str(&format!("test {} {{\n    accept\n}}\n", t.name));
            return Some((kind, t.module));
        }
        "call-test" | "call-test-from-test" => {
            let t = &pkg.tests[*plain.get(rng.usize(plain.len().max(1)))?];
            if kind == "call-test" {
                srcs[t.module].push_str(&format!("fn brk_fn() -> Verdict[(), ()] {{\n    {}()\n}}\n", t.name));
            } else {
                srcs[t.module].push_str(&format!("test brk_t {{\n    {}()\n}}\n", t.name));
            }
            return Some((kind, t.module));
        }
        _ => {
            // import a test of another module
            let t = &pkg.tests[*plain.get(rng.usize(plain.len().max(1)))?];
            let others: Vec<usize> = (0..srcs.len())
                .filter(|i| *i != t.module && !pkg.tests.iter().any(|u| u.module == *i && u.name == t.name))
                .collect();
            let into = *others.get(rng.usize(others.len().max(1)))?;
            // `into` must not already know a callable of that name
            if pkg.colls.iter().any(|c| c.module == into && c.name == t.name) {
                return None;
            }
            srcs[into] = format!(
                "import {}.{};\n{}fn brk_fn() -> Verdict[(), ()] {{\n    {}()\n}}\n",
                pkg.mods[t.module].path.join("."),
                t.name,
                srcs[into],
                t.name
            );
            return Some((kind, into));
        }
    }
    Some((kind, m))
}

fn file_spec(pkg: &Pkg, srcs: &[String]) -> FileSpec {
    fn node(pkg: &Pkg, srcs: &[String], i: usize) -> FileSpec {
        let sf = SourceFile {
            name: pkg.disk_path(i),
            module_name: pkg.mods[i].name.clone(),
            contents: srcs[i].clone(),
            location_offset: 0,
            children: Vec::new(),
        };
        let kids: Vec<usize> = (0..pkg.mods.len()).filter(|k| pkg.mods[*k].parent == Some(i)).collect();
        if kids.is_empty() && i != 0 {
            FileSpec::File(sf)
        } else if kids.is_empty() {
            FileSpec::File(sf)
        } else {
            FileSpec::Directory(sf, kids.into_iter().map(|k| node(pkg, srcs, k)).collect())
        }
    }
    node(pkg, srcs, 0)
}

fn compile(pkg: &Pkg, srcs: &[String], rt: &Runtime<NoCtx>) -> Result<Result<Package<NoCtx>, String>, String> {
    catch(|| {
        let tree = FileTree::file_spec(file_spec(pkg, srcs));
        match tree.compile(rt) {
            Ok(p) => Ok(p),
            Err(e) => {
                let mut s = String::new();
                let _ = e.write(&mut s, false);
                Err(s)
            }
        }
    })
}

fn sample(pkg: &Pkg, srcs: &[String], broken: &Option<(&'static str, usize)>) -> J {
    let mods: Vec<J> = (0..srcs.len())
        .map(|i| {
            J::obj().set("file", pkg.disk_path(i)).set("module", pkg.mods[i].path.join(".")).set("source", srcs[i].as_str())
        })
        .collect();
    let tests: Vec<J> = pkg
        .tests
        .iter()
        .map(|t| {
            J::obj()
                .set("name", pkg.qual(t.module, &t.name))
                .set("collision", t.coll)
                .set("accept", t.exp_accept)
                .set("marks", t.exp_marks.clone())
        })
        .collect();
    let entries: Vec<J> = pkg
        .entries
        .iter()
        .map(|e| J::obj().set("name", e.name.as_str()).set("kind", format!("{:?}", e.kind)).set("marks", e.exp_marks.clone()))
        .collect();
    let mut j = J::obj().set("modules", J::Arr(mods)).set("tests", J::Arr(tests)).set("entries", J::Arr(entries));
    if let Some((k, m)) = broken {
        j.put("broken", J::obj().set("kind", *k).set("module", pkg.mods[*m].path.join(".")));
    }
    j
}

fn first_line(s: &str) -> String {
    strip_ansi(s).lines().find(|l| !l.trim().is_empty()).unwrap_or("").chars().take(200).collect()
}

fn strip_ansi(s: &str) -> String {
    let mut out = String::new();
    let mut it = s.chars().peekable();
    while let Some(c) = it.next() {
        if c == '\x1b' && it.peek() == Some(&'[') {
            it.next();
            for d in it.by_ref() {
                if d.is_ascii_alphabetic() {
                    break;
                }
            }
        } else {
            out.push(c);
        }
    }
    out
}

/// Split a marker log into the tests that ran: every test must appear as one
/// contiguous block that starts with its head marker and equals its expected sequence.
/// Returns the order (test indices) or a (what, message).
fn segment(pkg: &Pkg, log: &[u32]) -> Result<Vec<usize>, (&'static str, String)> {
    let mut order = Vec::new();
    let mut seen = vec![0u32; pkg.tests.len()];
    let mut i = 0;
    while i < log.len() {
        let Some(t) = pkg.tests.iter().position(|t| t.head == log[i]) else {
            return Err(("marker-seq", format!("marker {} at position {i} does not start a test block; log {log:?}", log[i])));
        };
        seen[t] += 1;
        let exp = &pkg.tests[t].exp_marks;
        let got = &log[i..(i + exp.len()).min(log.len())];
        if got != exp.as_slice() {
            // make sure a repeated test is reported as such
            if seen[t] > 1 {
                break;
            }
            return Err((
                "marker-seq",
                format!("test {} logged {got:?}..., expected {exp:?}; log {log:?}", pkg.qual(pkg.tests[t].module, &pkg.tests[t].name)),
            ));
        }
        order.push(t);
        i += exp.len();
    }
    for (t, n) in seen.iter().enumerate() {
        if *n != 1 {
            return Err((
                "marker-count",
                format!(
                    "test {} ran {n} times (head marker {}); log {log:?}",
                    pkg.qual(pkg.tests[t].module, &pkg.tests[t].name),
                    pkg.tests[t].head
                ),
            ));
        }
    }
    Ok(order)
}

/// Parse the report printed by `run_tests`: per test (name, ok) and the summary
/// (total, succeeded, failed). Lenient: None when the format is not recognised.
fn parse_report(out: &str) -> (Vec<(String, bool)>, Option<(u64, u64, u64)>) {
    let clean = strip_ansi(out);
    let mut lines = Vec::new();
    let mut summary = None;
    for l in clean.lines() {
        let l = l.trim();
        if let Some(rest) = l.strip_prefix("Test ")
            && let Some((_, rest)) = rest.split_once(": ")
            && let Some((name, tail)) = rest.split_once("... ")
        {
            let tail = tail.trim();
            if tail.ends_with("ok") {
                lines.push((name.to_string(), true));
            } else if tail.ends_with("fail") {
                lines.push((name.to_string(), false));
            }
        } else if let Some(rest) = l.strip_prefix("Ran ") {
            let nums: Vec<u64> = rest.split(|c: char| !c.is_ascii_digit()).filter(|s| !s.is_empty()).filter_map(|s| s.parse().ok()).collect();
            if nums.len() == 3 {
                summary = Some((nums[0], nums[1], nums[2]));
            }
        }
    }
    (lines, summary)
}

fn common_tags(pkg: &Pkg, out: &mut CaseOut) {
    out.tags.push(format!("tests:{}", pkg.tests.len()));
    out.tags.push(format!("modules:{}", pkg.mods.len()));
    let depth = pkg.mods.iter().map(|m| m.path.len()).max().unwrap_or(1);
    out.tags.push(format!("module-depth:{depth}"));
    for t in &pkg.tests {
        out.tags.push(format!("collision:{}", t.coll));
        if let Some(c) = t.coll_fn
            && matches!(pkg.colls[c].kind, CollKind::Verdict(_))
            && pkg.colls[c].marker % 2 == 1
        {
            out.tags.push("collision:filtermap".into());
        }
        out.tags.push(format!("outcome:{}", if t.exp_accept { "accept" } else { "reject" }));
        out.tags.push(
            match &t.tail {
                Tail::Kw(_) => "tail:keyword",
                Tail::RetPath(_) => "tail:return-path",
                Tail::Path(_) => "tail:path",
                Tail::IfElse(..) => "tail:if-else",
                Tail::CallColl(_) => "tail:call-fn",
            }
            .to_string(),
        );
        if t.exp_marks.len() > 1 {
            out.tags.push("body:calls-marking-code".into());
        }
        if early_return_taken(pkg, t) {
            out.tags.push("body:early-return-taken".into());
        }
    }
    let rejects = pkg.tests.iter().filter(|t| !t.exp_accept).count();
    out.tags.push(
        match (pkg.tests.len(), rejects) {
            (0, _) => "verdicts:no-tests",
            (_, 0) => "verdicts:all-accept",
            (n, r) if n == r => "verdicts:all-reject",
            (_, 1) => "verdicts:one-reject",
            _ => "verdicts:mixed",
        }
        .to_string(),
    );
}

fn early_return_taken(pkg: &Pkg, t: &TestBlock) -> bool {
    let mut m = Model { helpers: &pkg.helpers, colls: &pkg.colls, log: Vec::new() };
    m.block(&t.body, &mut BTreeMap::new()).is_some()
}

// ---------------------------------------------------------------------------
// the family
// ---------------------------------------------------------------------------

pub struct TestRunner {
    cli: bool,
    rt: Option<Runtime<NoCtx>>,
    cap: Option<Capture>,
    roto_bin: PathBuf,
    cli_host: PathBuf,
    inject: Option<String>,
}

impl TestRunner {
    pub fn new(which: &str, args: &Args) -> TestRunner {
        let cli = which == "cli";
        TestRunner {
            cli,
            rt: if cli { None } else { Some(inproc_runtime()) },
            cap: if cli || args.flag("no-capture") { None } else { Capture::new() },
            roto_bin: PathBuf::from(args.opt("roto-bin").unwrap_or("/repo/target/debug/roto")),
            cli_host: PathBuf::from(args.opt("cli-host").unwrap_or("/verif/harness/target-clihost/debug/cli_host")),
            inject: args.opt("inject").map(|s| s.to_string()),
        }
    }
}

struct Prepared {
    pkg: Pkg,
    srcs: Vec<String>,
    broken: Option<(&'static str, usize)>,
}

/// `inject` (option `--inject verdict|marks|entry|valid`) falsifies the *model* after the
/// sources were rendered. It exists to demonstrate that the monitors fire: with it every
/// affected case must report a violation.
fn prepare(rng: &mut Rng, mode: Mode, break_chance: (u64, u64), inject: Option<&str>) -> Prepared {
    let mut pkg = gen_pkg(rng, mode);
    let mut srcs: Vec<String> = (0..pkg.mods.len()).map(|i| module_src(&pkg, i)).collect();
    let mut broken = if rng.chance(break_chance.0, break_chance.1) { break_pkg(rng, &pkg, &mut srcs) } else { None };
    match inject {
        Some("verdict") => {
            // the model claims the opposite outcome for the first test (a constant tail is flipped
            // so that the model stays self-consistent)
            if let Some(t) = pkg.tests.iter_mut().find(|t| matches!(t.tail, Tail::Kw(_)) && t.body.stmts.is_empty()) {
                if let Tail::Kw(b) = &mut t.tail {
                    *b = !*b;
                }
                t.exp_accept = !t.exp_accept;
            }
        }
        Some("marks") => {
            if let Some(t) = pkg.tests.first_mut() {
                t.body.stmts.push(Stmt::Mark(4_000_000));
                let mut m = Model { helpers: &pkg.helpers, colls: &pkg.colls, log: Vec::new() };
                t.exp_accept = m.test(t.head, &t.body, &t.tail);
                t.exp_marks = m.log;
            }
        }
        Some("entry") => {
            for e in &mut pkg.entries {
                e.exp_marks.push(e.marker);
            }
        }
        Some("valid") => broken = None,
        _ => {}
    }
    Prepared { pkg, srcs, broken }
}

impl Family for TestRunner {
    fn n_cases(&self, args: &Args) -> u64 {
        match (self.cli, args.thorough()) {
            (false, false) => 3000,
            (false, true) => 30000,
            (true, false) => 600,
            (true, true) => 6000,
        }
    }

    fn describe(&mut self, _k: u64, rng: &mut Rng, _args: &Args) -> Option<J> {
        if self.cli {
            let mode = if rng.bool() { Mode::Stock } else { Mode::Host };
            let p = prepare(rng, mode, (7, 20), None);
            Some(sample(&p.pkg, &p.srcs, &p.broken))
        } else {
            let p = prepare(rng, Mode::Host, (0, 1), None);
            Some(sample(&p.pkg, &p.srcs, &p.broken))
        }
    }

    fn run(&mut self, k: u64, rng: &mut Rng, _args: &Args) -> CaseOut {
        if self.cli { self.run_cli(k, rng) } else { self.run_inproc(rng) }
    }
}

impl TestRunner {
    fn run_inproc(&mut self, rng: &mut Rng) -> CaseOut {
        let mut out = CaseOut::default();
        let p = prepare(rng, Mode::Host, (0, 1), self.inject.as_deref());
        let (pkg, srcs) = (&p.pkg, &p.srcs);
        out.hash = hash_str(&srcs.join("\u{1}"));
        out.nontrivial = !pkg.tests.is_empty();
        common_tags(pkg, &mut out);
        let shape = pkg.shape();
        let mut smp = sample(pkg, srcs, &None);
        if !model_consistent(pkg) {
            out.skipped = Some("generator: verdict fix-up did not converge".into());
            out.sample = Some(smp);
            return out;
        }
        let rt = self.rt.as_ref().unwrap();
        let all_accept = pkg.tests.iter().all(|t| t.exp_accept);

        // --- compile twice, independently
        let mut pkgs: Vec<Package<NoCtx>> = Vec::new();
        for _ in 0..2 {
            match compile(pkg, srcs, rt) {
                Err(pm) => {
                    out.viol(panic_sig(&pm), format!("compiling a valid package panicked: {pm}"), J::Null);
                    out.sample = Some(smp);
                    return out;
                }
                Ok(Err(rep)) => {
                    out.viol(
                        format!("tests:valid-script-rejected@{shape}"),
                        format!("valid package rejected: {}", first_line(&rep)),
                        J::obj().set("report", strip_ansi(&rep)),
                    );
                    out.sample = Some(smp);
                    return out;
                }
                Ok(Ok(p)) => pkgs.push(p),
            }
        }

        // --- run_tests: twice on the first package, once on the second
        let mut runs: Vec<(Result<(), ()>, Vec<u32>, String)> = Vec::new();
        for which in [0usize, 0, 1] {
            marks_take();
            let pk = &mut pkgs[which];
            let mut f = || catch(|| pk.run_tests());
            let (r, text) = match &mut self.cap {
                Some(c) => c.run(f),
                None => (f(), String::new()),
            };
            let log = marks_take();
            out.evals += 1;
            out.events += log.len() as u64 + 1;
            match r {
                Err(pm) => {
                    out.viol(panic_sig(&pm), format!("run_tests panicked: {pm}"), J::Null);
                    out.sample = Some(smp);
                    return out;
                }
                Ok(r) => runs.push((r, log, text)),
            }
        }
        let (r1, log1, text1) = &runs[0];
        let order = match segment(pkg, log1) {
            Ok(o) => Some(o),
            Err((what, msg)) => {
                out.viol(format!("tests:{what}@{shape}"), msg, J::Null);
                None
            }
        };
        if r1.is_ok() != all_accept {
            let what = if r1.is_ok() { "result-ok-but-reject" } else { "result-err-but-all-accept" };
            out.viol(
                format!("tests:{what}@{shape}"),
                format!("run_tests returned {r1:?}, {} of {} tests reject", pkg.tests.iter().filter(|t| !t.exp_accept).count(), pkg.tests.len()),
                J::Null,
            );
        }
        if runs[1].1 != *log1 || runs[1].0 != *r1 {
            out.viol(
                format!("tests:order-rerun@{shape}"),
                format!("second run_tests on the same package differs: {:?} {:?} vs {:?} {:?}", r1, log1, runs[1].0, runs[1].1),
                J::Null,
            );
        }
        if runs[2].1 != *log1 || runs[2].0 != *r1 {
            out.viol(
                format!("tests:order-recompile@{shape}"),
                format!("run_tests on an independent compilation differs: {:?} {:?} vs {:?} {:?}", r1, log1, runs[2].0, runs[2].1),
                J::Null,
            );
        }
        // the printed report
        if self.cap.is_some()
            && let Some(order) = &order
        {
            let (lines, summary) = parse_report(text1);
            let rejects = pkg.tests.iter().filter(|t| !t.exp_accept).count() as u64;
            let n = pkg.tests.len() as u64;
            if let Some(s) = summary {
                out.events += 1;
                if s != (n, n - rejects, rejects) {
                    out.viol(
                        format!("tests:report-summary@{shape}"),
                        format!("report says {s:?} (total, succeeded, failed), expected ({n}, {}, {rejects})", n - rejects),
                        J::obj().set("stdout", strip_ansi(text1)),
                    );
                }
            } else {
                out.count("report-summary-unparsed", 1);
            }
            if lines.len() == order.len() {
                for ((name, ok), t) in lines.iter().zip(order) {
                    let t = &pkg.tests[*t];
                    out.events += 1;
                    if *ok != t.exp_accept || *name != pkg.qual(t.module, &t.name) {
                        out.viol(
                            format!("tests:report-line@{shape}"),
                            format!("report line `{name}` {} for test {} which {}", if *ok { "ok" } else { "fail" }, pkg.qual(t.module, &t.name), if t.exp_accept { "accepts" } else { "rejects" }),
                            J::obj().set("stdout", strip_ansi(text1)),
                        );
                        break;
                    }
                }
            } else {
                out.count("report-lines-unparsed", 1);
            }
        }
        if let Some(order) = &order {
            let names: Vec<String> = order.iter().map(|t| pkg.qual(pkg.tests[*t].module, &pkg.tests[*t].name)).collect();
            let mut sorted = names.clone();
            sorted.sort();
            out.count(if names == sorted { "order-sorted-by-qualified-name" } else { "order-not-sorted-by-qualified-name" }, 1);
            smp.put("order", J::Arr(names.into_iter().map(J::from).collect()));
        }

        // --- get_tests: one TestCase per block; each one alone
        {
            let pk = &mut pkgs[0];
            let r = catch(|| {
                let cases: Vec<_> = pk.get_tests().collect();
                let mut res = Vec::new();
                for tc in &cases {
                    marks_take();
                    let r = tc.run(&mut NoCtx);
                    res.push((tc.name().to_string(), r.is_ok(), marks_take()));
                }
                res
            });
            match r {
                Err(pm) => out.viol(panic_sig(&pm), format!("get_tests / TestCase::run panicked: {pm}"), J::Null),
                Ok(res) => {
                    out.evals += res.len() as u64;
                    if res.len() != pkg.tests.len() {
                        out.viol(
                            format!("tests:get-tests-count@{shape}"),
                            format!("get_tests yields {} cases for {} test blocks", res.len(), pkg.tests.len()),
                            J::Null,
                        );
                    }
                    let mut got_order = Vec::new();
                    for (name, ok, log) in &res {
                        out.events += log.len() as u64 + 1;
                        let Some(t) = log.first().and_then(|h| pkg.tests.iter().position(|t| t.head == *h)) else {
                            out.viol(
                                format!("tests:testcase-unknown@{shape}"),
                                format!("TestCase `{name}` logged {log:?}, which is no test block's marker sequence"),
                                J::Null,
                            );
                            continue;
                        };
                        got_order.push(t);
                        let tb = &pkg.tests[t];
                        let q = pkg.qual(tb.module, &tb.name);
                        if *log != tb.exp_marks {
                            out.viol(format!("tests:testcase-marks@{shape}"), format!("TestCase `{name}` logged {log:?}, expected {:?}", tb.exp_marks), J::Null);
                        }
                        if *ok != tb.exp_accept {
                            out.viol(
                                format!("tests:testcase-result@{shape}"),
                                format!("TestCase `{name}` returned {}, the block {}", if *ok { "Ok" } else { "Err" }, if tb.exp_accept { "accepts" } else { "rejects" }),
                                J::Null,
                            );
                        }
                        // the name identifies the block: its identifier, qualified by the module path
                        if *name != q {
                            out.viol(format!("tests:testcase-name@{}", tb.coll), format!("TestCase for block {q} is named `{name}`"), J::Null);
                        }
                    }
                    if let Some(order) = &order
                        && got_order.len() == order.len()
                        && got_order != *order
                    {
                        out.viol(format!("tests:order-get-vs-run@{shape}"), format!("get_tests order {got_order:?} differs from run_tests order {order:?}"), J::Null);
                    }
                }
            }
        }

        // --- a test is not reachable under the function's name
        for t in &pkg.tests {
            let rel = pkg.rel(t.module, &t.name);
            let pk = &mut pkgs[0];
            let r = catch(|| match pk.get_function::<fn() -> Verdict<(), ()>>(&rel) {
                Ok(f) => {
                    marks_take();
                    let v = f.call();
                    Some((matches!(v, Verdict::Accept(())), marks_take()))
                }
                Err(_) => None,
            });
            out.events += 1;
            match r {
                Err(pm) => out.viol(panic_sig(&pm), format!("get_function({rel}) panicked: {pm}"), J::Null),
                Ok(None) => {
                    if t.coll == "fn-verdict" {
                        out.viol(
                            format!("tests:function-hidden-by-test@{}", t.coll),
                            format!("get_function(\"{rel}\") fails although `fn {}() -> Verdict[(), ()]` exists next to `test {}`", t.name, t.name),
                            J::Null,
                        );
                    }
                }
                Ok(Some((acc, log))) => {
                    out.evals += 1;
                    let exp = t.coll_fn.map(|c| &pkg.colls[c]).filter(|c| matches!(c.kind, CollKind::Verdict(_)));
                    match exp {
                        None => out.viol(
                            format!("tests:get-function-returns-test@{}", t.coll),
                            format!("get_function(\"{rel}\") succeeds although no such function exists (only `test {}`); it logged {log:?}", t.name),
                            J::Null,
                        ),
                        Some(c) => {
                            if log != vec![c.marker] || CollKind::Verdict(acc) != c.kind {
                                out.viol(
                                    format!("tests:test-shadows-function@{}", t.coll),
                                    format!("get_function(\"{rel}\") logged {log:?} accept={acc}, the function logs [{}] and is {:?}", c.marker, c.kind),
                                    J::Null,
                                );
                            }
                        }
                    }
                }
            }
        }
        drop(pkgs);

        // --- invalid variants: a script cannot call, import or redeclare a test
        if rng.chance(1, 2) {
            let mut bsrcs = srcs.clone();
            if let Some((kind, m)) = break_pkg(rng, pkg, &mut bsrcs) {
                out.tags.push(format!("invalid:{kind}"));
                out.evals += 1;
                match compile(pkg, &bsrcs, rt) {
                    Err(pm) => out.viol(panic_sig(&pm), format!("compiling the invalid variant `{kind}` panicked: {pm}"), sample(pkg, &bsrcs, &Some((kind, m)))),
                    Ok(Err(_)) => {}
                    Ok(Ok(mut bp)) => {
                        marks_take();
                        let mut f = || catch(|| bp.run_tests());
                        let _ = match &mut self.cap {
                            Some(c) => c.run(f).0,
                            None => f(),
                        };
                        let what = match kind {
                            "call-test" | "call-test-from-test" | "import-test" => "test-callable",
                            "dup-test" => "duplicate-test-accepted",
                            _ => "invalid-accepted",
                        };
                        out.viol(
                            format!("tests:{what}@{kind}"),
                            format!("the invalid variant `{kind}` compiles; run_tests logs {:?}", marks_take()),
                            sample(pkg, &bsrcs, &Some((kind, m))),
                        );
                    }
                }
            }
        }
        out.sample = Some(smp);
        out
    }

    // -----------------------------------------------------------------------

    fn run_cli(&mut self, k: u64, rng: &mut Rng) -> CaseOut {
        let mut out = CaseOut::default();
        let mode = if rng.bool() { Mode::Stock } else { Mode::Host };
        let p = prepare(rng, mode, (7, 20), self.inject.as_deref());
        let (pkg, srcs, broken) = (&p.pkg, &p.srcs, &p.broken);
        out.hash = hash_str(&format!("{mode:?}\u{1}{}", srcs.join("\u{1}")));
        out.nontrivial = !pkg.tests.is_empty() || broken.is_some();
        common_tags(pkg, &mut out);
        out.tags.push(format!("binary:{}", if mode == Mode::Stock { "roto" } else { "cli_host" }));
        let mut smp = sample(pkg, srcs, broken);
        if !model_consistent(pkg) {
            out.skipped = Some("generator: verdict fix-up did not converge".into());
            out.sample = Some(smp);
            return out;
        }
        let bin = if mode == Mode::Stock { self.roto_bin.clone() } else { self.cli_host.clone() };
        if !bin.is_file() {
            out.skipped = Some(format!("binary-missing:{}", bin.display()));
            return out;
        }
        // on disk
        let root = std::env::temp_dir().join(format!("rvmon-c19-{}-{k}", std::process::id()));
        let _ = std::fs::remove_dir_all(&root);
        let single_file = pkg.mods.len() == 1 && rng.chance(3, 5);
        let script: PathBuf = if single_file {
            let name = *rng.pick(&["script", "pkg", "main", "x", "mod"]);
            root.join(format!("{name}.roto"))
        } else {
            root.join("package")
        };
        out.tags.push(format!("path:{}", if single_file { "file" } else { "directory" }));
        let write = || -> std::io::Result<()> {
            std::fs::create_dir_all(&root)?;
            if single_file {
                std::fs::write(&script, &srcs[0])?;
            } else {
                for i in 0..srcs.len() {
                    let f = script.join(pkg.disk_path(i));
                    std::fs::create_dir_all(f.parent().unwrap())?;
                    std::fs::write(f, &srcs[i])?;
                }
            }
            Ok(())
        };
        if let Err(e) = write() {
            out.skipped = Some(format!("cannot write the package: {e}"));
            let _ = std::fs::remove_dir_all(&root);
            return out;
        }
        let valid = broken.is_none();
        let class = match broken {
            None => "valid".to_string(),
            Some((k, _)) => format!("broken:{k}"),
        };
        if let Some((k, _)) = broken {
            out.tags.push(format!("invalid:{k}"));
        }
        let all_accept = pkg.tests.iter().all(|t| t.exp_accept);
        let shape = pkg.shape();
        let mark_file = root.join("marks.txt");
        let mut runs: Vec<J> = Vec::new();
        let mut first_test_log: Option<Vec<u32>> = None;

        // (subcommand, extra arg, path, expected ok, expected markers (None = test-runner segmentation), class)
        struct Inv {
            sub: &'static str,
            func: Option<String>,
            path: PathBuf,
            ok: bool,
            marks: Option<Vec<u32>>,
            class: String,
        }
        let mut invs: Vec<Inv> = Vec::new();
        invs.push(Inv { sub: "check", func: None, path: script.clone(), ok: valid, marks: Some(vec![]), class: class.clone() });
        invs.push(Inv {
            sub: "test",
            func: None,
            path: script.clone(),
            ok: valid && all_accept,
            marks: if valid { None } else { Some(vec![]) },
            class: class.clone(),
        });
        // a second `test` run in a fresh process: same order (hash seeds differ per process)
        let again = valid && pkg.tests.len() >= 2 && rng.chance(1, 2);
        if again {
            invs.push(Inv { sub: "test", func: None, path: script.clone(), ok: all_accept, marks: None, class: "valid-again".into() });
        }
        // run: default entry
        let main = pkg.entries.iter().find(|e| e.name == "main");
        invs.push(Inv {
            sub: "run",
            func: None,
            path: script.clone(),
            ok: valid && main.is_some(),
            marks: Some(if valid { main.map(|e| e.exp_marks.clone()).unwrap_or_default() } else { vec![] }),
            class: if valid { (if main.is_some() { "entry-default" } else { "entry-default-missing" }).to_string() } else { class.clone() },
        });
        // run: named entries
        let mut cands: Vec<(String, bool, Vec<u32>, String)> = Vec::new();
        for e in &pkg.entries {
            let (ok, cl) = match e.kind {
                EntryKind::Ok => (true, "entry-ok"),
                EntryKind::Ret => (false, "entry-mistyped-return"),
                EntryKind::Arg => (false, "entry-mistyped-argument"),
                EntryKind::VerdictRet => (false, "entry-mistyped-verdict"),
            };
            cands.push((e.name.clone(), ok, if ok { e.exp_marks.clone() } else { vec![] }, cl.into()));
        }
        cands.push(("nope_zz".into(), false, vec![], "entry-missing".into()));
        for t in pkg.tests.iter().filter(|t| t.module == 0) {
            let unit = t.coll_fn.map(|c| &pkg.colls[c]).filter(|c| c.kind == CollKind::Unit);
            if t.name == "main" {
                continue; // covered by the entry `main`
            }
            match unit {
                Some(c) => cands.push((t.name.clone(), true, vec![c.marker], "entry-shares-test-name".into())),
                None => {
                    let fn_exists = t.coll_fn.is_some() || matches!(t.coll, "fn-helper" | "runtime-fn");
                    cands.push((
                        t.name.clone(),
                        false,
                        vec![],
                        (if fn_exists { "entry-mistyped-shares-test-name" } else { "entry-is-test-only" }).into(),
                    ));
                    cands.push((format!("test#{}", t.name), false, vec![], "entry-internal-test-name".into()));
                }
            }
        }
        let n_named = 1 + rng.usize(2);
        for _ in 0..n_named {
            let (name, ok, marks, cl) = rng.pick(&cands).clone();
            invs.push(Inv {
                sub: "run",
                func: Some(name),
                path: script.clone(),
                ok: valid && ok,
                marks: Some(if valid { marks } else { vec![] }),
                class: if valid { cl } else { class.clone() },
            });
        }
        if rng.chance(1, 6) {
            let sub = *rng.pick(&["check", "test", "run"]);
            invs.push(Inv { sub, func: None, path: root.join("does_not_exist.roto"), ok: false, marks: Some(vec![]), class: "missing-file".into() });
        }

        for inv in &invs {
            let _ = std::fs::remove_file(&mark_file);
            let mut cmd = Command::new(&bin);
            cmd.arg(inv.sub).arg(&inv.path);
            if let Some(f) = &inv.func {
                cmd.arg(f);
            }
            cmd.env("RVMON_MARK_FILE", &mark_file).env("NO_COLOR", "1").env_remove("RUST_LOG").stdin(Stdio::null());
            let cmdline = format!(
                "{} {} {}{}",
                bin.file_name().unwrap().to_string_lossy(),
                inv.sub,
                inv.path.strip_prefix(&root).unwrap_or(&inv.path).display(),
                inv.func.as_ref().map(|f| format!(" {f}")).unwrap_or_default()
            );
            let res = match cmd.output() {
                Ok(r) => r,
                Err(e) => {
                    out.skipped = Some(format!("cannot start {}: {e}", bin.display()));
                    break;
                }
            };
            out.evals += 1;
            let stdout = String::from_utf8_lossy(&res.stdout).to_string();
            let stderr = String::from_utf8_lossy(&res.stderr).to_string();
            let marks: Vec<u32> = if mode == Mode::Host {
                std::fs::read_to_string(&mark_file).unwrap_or_default().lines().filter_map(|l| l.trim().parse().ok()).collect()
            } else {
                stock_marks(&stdout)
            };
            out.events += marks.len() as u64 + 1;
            let exp_s = if inv.ok { "ok" } else { "fail" };
            out.tags.push(format!("cli:{}:{}", inv.sub, exp_s));
            out.tags.push(format!("cli-class:{}:{}", inv.sub, inv.class.split(':').next().unwrap_or("")));
            let detail = || {
                J::obj()
                    .set("cmd", cmdline.as_str())
                    .set("exit", res.status.code().map(|c| c as i64))
                    .set("stdout", strip_ansi(&stdout).chars().take(2000).collect::<String>())
                    .set("stderr", strip_ansi(&stderr).chars().take(2000).collect::<String>())
            };
            let got_s = match res.status.code() {
                Some(0) => "ok",
                Some(101) | None => "crash",
                Some(_) => "fail",
            };
            runs.push(J::obj().set("cmd", cmdline.as_str()).set("expected", exp_s).set("got", got_s).set("marks", marks.clone()));
            if got_s == "crash" {
                let loc = strip_ansi(&stderr)
                    .lines()
                    .find_map(|l| l.split_once("panicked at ").map(|x| x.1.trim_end_matches(':').to_string()))
                    .unwrap_or_else(|| format!("{:?}", res.status));
                let loc = loc.trim_start_matches("/repo/").to_string();
                out.viol(format!("cli:{}:crash@{loc}", inv.sub), format!("`{cmdline}` crashed: {:?}", res.status), detail());
                continue;
            }
            if got_s != exp_s {
                out.viol(
                    format!("cli:{}:exit@{exp_s}-got-{got_s}/{}", inv.sub, inv.class),
                    format!("`{cmdline}` exited with {:?}, expected {}", res.status.code(), if inv.ok { "success" } else { "failure" }),
                    detail(),
                );
            }
            match &inv.marks {
                Some(exp) => {
                    if marks != *exp {
                        let what = if !valid {
                            format!("ran-on-invalid@{}", inv.class)
                        } else if inv.sub == "run" {
                            format!("marker-count@{}", inv.class)
                        } else {
                            format!("executed-code@{}", inv.class)
                        };
                        out.viol(format!("cli:{}:{what}", inv.sub), format!("`{cmdline}` logged markers {marks:?}, expected {exp:?}"), detail());
                    }
                }
                None => match segment(pkg, &marks) {
                    Err((what, msg)) => out.viol(format!("cli:test:{what}@{shape}"), format!("`{cmdline}`: {msg}"), detail()),
                    Ok(_) => {
                        match &first_test_log {
                            None => first_test_log = Some(marks.clone()),
                            Some(first) => {
                                out.events += 1;
                                if *first != marks {
                                    out.viol(
                                        format!("cli:test:order-across-processes@{shape}"),
                                        format!("`{cmdline}` ran the tests in a different order in a second process: {first:?} vs {marks:?}"),
                                        detail(),
                                    );
                                }
                            }
                        }
                        let (_, summary) = parse_report(&stdout);
                        let n = pkg.tests.len() as u64;
                        let rej = pkg.tests.iter().filter(|t| !t.exp_accept).count() as u64;
                        if let Some(s) = summary {
                            out.events += 1;
                            if s != (n, n - rej, rej) {
                                out.viol(
                                    format!("cli:test:report-summary@{shape}"),
                                    format!("`{cmdline}` reports {s:?} (total, succeeded, failed), expected ({n}, {}, {rej})", n - rej),
                                    detail(),
                                );
                            }
                        } else {
                            out.count("report-summary-unparsed", 1);
                        }
                    }
                },
            }
        }
        let _ = std::fs::remove_dir_all(&root);
        smp.put("binary", bin.display().to_string());
        smp.put("script", script.strip_prefix(&root).unwrap_or(Path::new("")).display().to_string());
        smp.put("invocations", J::Arr(runs));
        out.sample = Some(smp);
        out
    }
}

/// Markers printed by the stock binary: every `@M<digits>;` on stdout.
fn stock_marks(stdout: &str) -> Vec<u32> {
    let mut v = Vec::new();
    let mut rest = stdout;
    while let Some(i) = rest.find("@M") {
        rest = &rest[i + 2..];
        let digits: String = rest.chars().take_while(|c| c.is_ascii_digit()).collect();
        if !digits.is_empty() && rest[digits.len()..].starts_with(';') {
            if let Ok(n) = digits.parse() {
                v.push(n);
            }
        }
    }
    v
}
