//! C06: compilation is total. Inputs of eight classes (five original ones plus
//! `truncated`, `infer` and `chains` from totality_more.rs) are compiled stage by
//! stage; panics are caught (violation), process deaths and hangs are seen by the
//! driver, both renderings of an error report must succeed and every cited span
//! must lie inside its file on character boundaries.

use roto::{FileSpec, FileTree, NoCtx, Runtime, SourceFile};

use crate::fam::illtyped::gen_base;
use crate::host;
use crate::jsonw::J;
use crate::rg::mutate;
use crate::rg::print;
use crate::rng::Rng;
use crate::work::{Args, CaseOut, Family, catch, hash_str, panic_sig};

#[path = "totality_more.rs"]
mod more;

/// Nesting bound of the family (DESIGN.md C06: "nesting depth bounded by 48"). Chains
/// that nest in the syntax tree stay at or below it; `--chain-max N` overrides it.
const MAX_NEST: usize = 48;

pub struct Totality {
    rt: Runtime<NoCtx>,
}

fn phase(p: &str) {
    // death attribution: the driver remembers the last phase line of a worker
    println!("{{\"t\":\"phase\",\"phase\":\"{p}\"}}");
}

fn const_hook(begin: bool, _name: &str) {
    phase(if begin { "const-eval" } else { "codegen" });
}

impl Totality {
    pub fn new(_args: &Args) -> Totality {
        roto::verif::set_const_eval_hook(Some(const_hook));
        Totality { rt: host::runtime() }
    }
}

const KEYWORDS: [&str; 24] = [
    "accept", "const", "dep", "else", "enum", "filter", "filtermap", "for", "fn", "if", "import", "in", "let", "match",
    "pkg", "record", "reject", "return", "std", "super", "test", "while", "true", "false",
];
const PUNCT: [&str; 44] = [
    "&&", "<=", ">=", "->", "!", "!=", ":", ",", "=", "==", "=>", "#", "-", "--", ".", "|", "||", "+", "?", ";", "/", "/*",
    "*", "%", "+=", "-=", "*=", "/=", "%=", "<", ">", "{", "}", "(", ")", "[", "]", "{", "}", "(", ")", ";", ",", ".",
];
const LITS: [&str; 40] = [
    "0", "1", "255u8", "300u8", "0xFF", "0x", "1_000", "1__0_", "9223372036854775807", "9223372036854775808", "10i64",
    "10q7", "1.5", "10.", "1e5", "5E-5", "1e", "1.5f32", "2.0f64", "1e400", "\"str\"", "\"a\\nb\"", "\"\\q\"", "\"unterminated",
    "'a'", "'\\n'", "'ab'", "'", "f\"x{1}\"", "f\"{{}}\"", "f\"{\"", "f\"é{1}\"", "1.2.3.4", "1.2.3.4/8", "::", "2001:db8::1",
    "1.2.3", "AS1234", "AS99999999999", "()",
];
const IDENTS: [&str; 22] = [
    "x", "y", "main", "foo", "_a", "T", "Option", "Some", "None", "String", "u8", "i32", "List", "Verdict", "print", "é",
    "Straße", "東京", "a1", "_", "len", "push",
];
const UNI: [&str; 12] = ["é", "ß", "東", "ж", "𝄞", "\u{a0}", "\u{301}", "🙂", "ñ", "\u{200b}", "Ω", "\u{feff}"];

fn rand_token(rng: &mut Rng) -> String {
    match rng.below(10) {
        0..=2 => KEYWORDS[rng.usize(KEYWORDS.len())].to_string(),
        3..=5 => PUNCT[rng.usize(PUNCT.len())].to_string(),
        6..=7 => IDENTS[rng.usize(IDENTS.len())].to_string(),
        8 => LITS[rng.usize(LITS.len())].to_string(),
        _ => UNI[rng.usize(UNI.len())].to_string(),
    }
}

/// Family 1: token soup with a grammar-shaped bias.
fn token_soup(rng: &mut Rng) -> String {
    let mut s = String::new();
    let items = 1 + rng.usize(3);
    for _ in 0..items {
        if rng.chance(3, 4) {
            // function-shaped prefix
            s.push_str(match rng.below(5) {
                0 => "fn f(a: i32) -> i32 {",
                1 => "filtermap m(x: u8) {",
                2 => "fn g() {",
                3 => "test t {",
                _ => "const C: i32 = {",
            });
            let n = rng.usize(40);
            let mut depth = 0i32;
            for _ in 0..n {
                let t = rand_token(rng);
                if t == "{" || t == "(" || t == "[" {
                    depth += 1;
                    if depth > 24 {
                        continue;
                    }
                }
                s.push(' ');
                s.push_str(&t);
            }
            if rng.chance(2, 3) {
                s.push_str(" }");
            }
            if rng.chance(1, 2) {
                s.push(';');
            }
        } else {
            let n = rng.usize(30);
            for _ in 0..n {
                s.push_str(&rand_token(rng));
                s.push(' ');
            }
        }
        s.push('\n');
    }
    s
}

/// A crude tokenizer for mutation purposes only (strings are kept whole).
fn split_tokens(src: &str) -> Vec<String> {
    let mut out = Vec::new();
    let cs: Vec<char> = src.chars().collect();
    let mut i = 0;
    while i < cs.len() {
        let c = cs[i];
        if c.is_whitespace() {
            let mut j = i;
            while j < cs.len() && cs[j].is_whitespace() {
                j += 1;
            }
            out.push(cs[i..j].iter().collect());
            i = j;
        } else if c == '"' {
            let mut j = i + 1;
            while j < cs.len() && cs[j] != '"' {
                if cs[j] == '\\' {
                    j += 1;
                }
                j += 1;
            }
            j = (j + 1).min(cs.len());
            out.push(cs[i..j].iter().collect());
            i = j;
        } else if c.is_alphanumeric() || c == '_' {
            let mut j = i;
            while j < cs.len() && (cs[j].is_alphanumeric() || cs[j] == '_') {
                j += 1;
            }
            out.push(cs[i..j].iter().collect());
            i = j;
        } else {
            out.push(c.to_string());
            i += 1;
        }
    }
    out
}

/// Family 2: token- and character-level mutations of a valid program.
fn mutate_text(rng: &mut Rng, src: &str, other: &str) -> (String, String) {
    let mut toks = split_tokens(src);
    let n = 1 + rng.usize(3);
    let mut kinds = Vec::new();
    for _ in 0..n {
        if toks.is_empty() {
            break;
        }
        let i = rng.usize(toks.len());
        match rng.below(10) {
            0 => {
                toks.remove(i);
                kinds.push("delete");
            }
            1 => {
                let t = toks[i].clone();
                toks.insert(i, t);
                kinds.push("duplicate");
            }
            2 => {
                if i + 1 < toks.len() {
                    toks.swap(i, i + 1);
                }
                kinds.push("swap");
            }
            3 => {
                toks[i] = rand_token(rng);
                kinds.push("replace");
            }
            4 => {
                toks.insert(i, rand_token(rng));
                kinds.push("insert");
            }
            5 => {
                toks.truncate(i);
                kinds.push("truncate");
            }
            6 => {
                // splice with another program
                let o = split_tokens(other);
                if !o.is_empty() {
                    let j = rng.usize(o.len());
                    toks.truncate(i);
                    toks.extend(o[j..].iter().cloned());
                }
                kinds.push("splice");
            }
            7 => {
                // character-level edit inside one token
                let mut cs: Vec<char> = toks[i].chars().collect();
                let u = UNI[rng.usize(UNI.len())].chars().next().unwrap();
                let specials = ['"', '\'', '\\', '{', '}', '\n', '\0', u];
                if cs.is_empty() || rng.bool() {
                    let p = rng.usize(cs.len() + 1);
                    cs.insert(p, specials[rng.usize(specials.len())]);
                } else {
                    let p = rng.usize(cs.len());
                    if rng.bool() {
                        cs.remove(p);
                    } else {
                        cs[p] = specials[rng.usize(specials.len())];
                    }
                }
                toks[i] = cs.into_iter().collect();
                kinds.push("char-edit");
            }
            8 => {
                // multi-byte text inside identifiers, strings, comments
                let u = UNI[rng.usize(UNI.len())];
                if toks[i].starts_with('"') && toks[i].len() >= 2 {
                    toks[i].insert_str(1, u);
                    kinds.push("unicode-in-string");
                } else if toks[i].chars().next().is_some_and(|c| c.is_alphabetic()) {
                    if rng.bool() {
                        toks[i].insert_str(0, u);
                    } else {
                        toks[i].push_str(u);
                    }
                    kinds.push("unicode-in-ident");
                } else {
                    toks.insert(i, format!("// {u}{u} comment\n"));
                    kinds.push("unicode-comment");
                }
            }
            _ => {
                toks.insert(0, format!("#!/usr/bin/env roto {}\n", UNI[rng.usize(UNI.len())]));
                kinds.push("shebang");
            }
        }
    }
    (toks.concat(), kinds.join("+"))
}

/// Family 4: hand-shaped Unicode programs.
fn unicode_program(rng: &mut Rng) -> String {
    let id_start = ["é", "ß", "ж", "東", "Ω", "ñ", "_é", "a\u{301}", "\u{301}a", "🙂", "x🙂", "1é", "\u{a0}x", "ｘ"];
    let text = ["é", "ß東", "𝄞", "a\u{301}", "🙂", "\u{a0}", "{{é}}", "é{{", "\u{feff}", "\\u{e9}", "\\x41", "\\u{110000}"];
    let a = id_start[rng.usize(id_start.len())];
    let b = id_start[rng.usize(id_start.len())];
    let t = text[rng.usize(text.len())];
    let u = text[rng.usize(text.len())];
    match rng.below(8) {
        0 => format!("fn {a}({b}: i32) -> i32 {{\n    let {a}{b} = {b} + 1;\n    {a}{b}\n}}\n"),
        1 => format!("fn main() -> String {{\n    let x = 3;\n    f\"{t} {{x}}{u}\"\n}}\n"),
        2 => format!("fn main() -> String {{\n    \"{t}\" + \"{u}\"\n}}\n"),
        3 => format!("// {t} {u}\nfn main() -> char {{\n    '{}'\n}}\n", t.chars().next().unwrap()),
        4 => format!("#!{t}\nfn main() {{ }} // {u}\n"),
        5 => format!("record {a} {{ {b}: i32 }}\nfn main() -> i32 {{\n    let r = {a} {{ {b}: 1 }};\n    r.{b}\n}}\n"),
        6 => format!("enum E {{ {a}, {b}(i32) }}\nfn main() -> i32 {{\n    match E.{a} {{ {a} => 1, {b}(y) => y }}\n}}\n"),
        _ => format!("fn main() -> String {{\n    f\"{t}{{ f\"{u}\" }}\"\n}}\n"),
    }
}

/// Structurally odd but small programs around known-fragile constructs.
fn odd_program(rng: &mut Rng) -> String {
    let xs = [
        "fn main() -> i32 { match (return 1) { Some(x) => x, None => 2 } }",
        "fn main() -> i32 { Option.None.x }",
        "fn main() { let x = []; x.push(x); }",
        "record A { x: List[A] }\nfn f(a: A) {}",
        "record A { x: A? }\nfn f(a: A) {}",
        "enum E { A(E) }",
        "record A { x: B }\nrecord B { x: A }",
        "fn main() { let x = None; }",
        "fn main() { let x = []; }",
        "fn main() -> i32 { return return 1 }",
        "fn main() { main.x }",
        "fn main() { 1.x }",
        "fn main() { main(); main.main(); }",
        "fn main() { let f = main; }",
        "fn f[T](x: T) {}",
        "const A: i32 = A;",
        "const A: i32 = f();\nfn f() -> i32 { A }",
        "import a.b.c;",
        "import super.x;",
        "import pkg;",
        "fn main() { import x; }",
        "fn main() { while true { return } }",
        "fn main() -> ! { main() }",
        "fn main() -> {a: i32} { {a: 1, a: 2} }",
        "fn main() { {} }",
        "fn main() { {}.x }",
        "fn main() { ().x }",
        "fn main() { [].len() }",
        "fn main() { [[]] == [[]] }",
        "fn main() { None == None }",
        "fn main() { None? }",
        "fn main() { f\"{}\" }",
        "fn main() { f\"{ }\" }",
        "fn main() { f\"{1;}\" }",
        "fn main() { x = 1; }",
        "fn main() { 1 = 1; }",
        "fn main() { let x = 1; x.y = 2; }",
        "fn main() { let x = {a: 1}; x.a.b = 2; }",
        "fn main() -> u8 { 256u8 }",
        "fn main() -> u8 { -1 }",
        "fn main() { match 1 { _ => 1 } }",
        "enum E {}\nfn f(e: E) -> i32 { match e {} }",
        "fn main() { for x in 1 {} }",
        "fn main() { for x in [1] { x = 2; } }",
        "test t { accept 1 }",
        "test t { }",
        "filtermap f() { accept 1; reject \"x\" }",
        "filtermap f() { }",
        "fn f(a: i32, a: i32) {}",
        "fn f() {}\nfn f() {}",
        "record R { a: i32, a: i32 }",
        "enum E { A, A }",
        "record R[T, T] { a: T }",
        "fn main() { let x: Option = None; }",
        "fn main() { let x: List[i32, i32] = []; }",
        "fn main() { let x: i32[i32] = 1; }",
        "fn main() { Some(1, 2); }",
        "fn main() { Option.Some; }",
        "fn main() { Verdict.Accept(1); }",
        "fn main() { std.x; }",
        "fn main() { pkg.main.x; }",
        "fn main() { super.main(); }",
        "fn main() { 1 / 1.0.0.0; }",
        "fn main() { 1.1.1.1 / 1.5; }",
        "fn main() { \"a\" + 1; }",
        "fn main() { [1] + [\"a\"]; }",
        "fn main() { !1; -true; }",
    ];
    let mut s = xs[rng.usize(xs.len())].to_string();
    if rng.chance(1, 3) {
        s.push('\n');
        s.push_str(xs[rng.usize(xs.len())]);
    }
    s
}

struct Input {
    family: &'static str,
    detail: String,
    /// input class named in the signature of a worker death / hang (new classes only)
    hint: Option<String>,
    /// coverage tags of the input
    tags: Vec<String>,
    /// (module name, source) ; first = root. One element = single file.
    files: Vec<(String, String)>,
}

fn from_made(family: &'static str, m: more::Made) -> Input {
    Input { family, detail: m.detail, hint: Some(m.hint), tags: m.tags, files: m.files }
}

fn make_input(rng: &mut Rng, max_nest: usize) -> Input {
    // a quarter of the cases goes to the three classes of totality_more.rs
    match rng.below(100) {
        0..=9 => return from_made("truncated", more::truncated(rng)),
        10..=20 => return from_made("infer", more::infer(rng)),
        21..=25 => return from_made("chains", more::chains(rng, max_nest)),
        26..=33 => return from_made("escapes", more::escapes(rng)),
        _ => {}
    }
    match rng.below(100) {
        0..=19 => Input { family: "token-soup", detail: String::new(), hint: None, tags: Vec::new(), files: vec![("pkg".into(), token_soup(rng))] },
        20..=54 => {
            let (p, _) = gen_base(rng);
            let (q, _) = gen_base(rng);
            let seed = rng.next();
            let src = print::print_program(&p, Some(seed));
            let other = print::print_program(&q, None);
            let (m, kinds) = mutate_text(rng, &src, &other);
            Input { family: "text-mutant", detail: kinds, hint: None, tags: Vec::new(), files: vec![("pkg".into(), m)] }
        }
        55..=69 => {
            let (p, _) = gen_base(rng);
            let kind = mutate::pick_edit(rng);
            let n = mutate::sites(&p, kind);
            let src = if n > 0 {
                let site = rng.usize(n);
                let w = rng.next();
                mutate::apply(&p, kind, site, w).map(|m| print::print_program(&m, None))
            } else {
                None
            };
            Input {
                family: "ill-typed",
                detail: kind.to_string(),
                hint: None,
                tags: Vec::new(),
                files: vec![("pkg".into(), src.unwrap_or_else(|| print::print_program(&p, None)))],
            }
        }
        70..=79 => Input { family: "unicode", detail: String::new(), hint: None, tags: Vec::new(), files: vec![("pkg".into(), unicode_program(rng))] },
        80..=87 => Input { family: "odd", detail: String::new(), hint: None, tags: Vec::new(), files: vec![("pkg".into(), odd_program(rng))] },
        _ => {
            // module trees: 2-5 files, contents from the other families, odd names
            let names = ["a", "b", "foo", "pkg", "mod", "super", "é", "", "x y", "fn", "a.b", "T"];
            let n = 2 + rng.usize(4);
            let mut files = Vec::new();
            for i in 0..n {
                let name = if i == 0 { "pkg".to_string() } else { names[rng.usize(names.len())].to_string() };
                let src = match rng.below(6) {
                    0 => String::new(),
                    1 => "\u{a0}".to_string(),
                    2 => odd_program(rng),
                    3 => unicode_program(rng),
                    4 => format!("fn f{i}() -> i32 {{ {i} }}\nimport super.f0;\n"),
                    _ => {
                        let (p, _) = gen_base(rng);
                        print::print_program(&p, None)
                    }
                };
                files.push((name, src));
            }
            Input { family: "module-tree", detail: format!("{n} files"), hint: None, tags: Vec::new(), files }
        }
    }
}

fn build_tree(input: &Input) -> FileTree {
    // file names are unique (they are paths in practice), module names need not be
    let counter = std::cell::Cell::new(0);
    let mk = |name: &str, src: &str| SourceFile {
        name: {
            counter.set(counter.get() + 1);
            format!("dir{}/{name}.roto", counter.get())
        },
        module_name: name.to_string(),
        contents: src.to_string(),
        location_offset: 0,
        children: Vec::new(),
    };
    if input.files.len() == 1 {
        return FileTree::test_file("pkg.roto", &input.files[0].1, 0);
    }
    let root = mk(&input.files[0].0, &input.files[0].1);
    // nest the last file under the second one when there are more than 3 files
    let mut children = Vec::new();
    let rest = &input.files[1..];
    if rest.len() > 2 {
        let dir = mk(&rest[0].0, &rest[0].1);
        let sub = vec![FileSpec::File(mk(&rest[rest.len() - 1].0, &rest[rest.len() - 1].1))];
        children.push(FileSpec::Directory(dir, sub));
        for f in &rest[1..rest.len() - 1] {
            children.push(FileSpec::File(mk(&f.0, &f.1)));
        }
    } else {
        for f in rest {
            children.push(FileSpec::File(mk(&f.0, &f.1)));
        }
    }
    FileTree::file_spec(FileSpec::Directory(root, children))
}

/// `'x'` / `'\u{301}'` in a panic message (the character a byte index falls into) is
/// input data, not part of the signature.
fn mask_quoted_chars(p: &str) -> String {
    let cs: Vec<char> = p.chars().collect();
    let mut out = String::new();
    let mut i = 0;
    while i < cs.len() {
        if cs[i] == '\'' {
            if let Some(j) = (i + 2..cs.len().min(i + 14)).find(|&j| cs[j] == '\'') {
                out.push_str("'_'");
                i = j + 1;
                continue;
            }
        }
        out.push(cs[i]);
        i += 1;
    }
    out
}

/// Does the source hold a `!` in a type position other than a return type: after `:`
/// (parameter, field, annotated let), inside `[..]` of a type, or followed by `?`.
fn has_never_type_annotation(src: &str) -> bool {
    let b: Vec<char> = src.chars().collect();
    for (i, c) in b.iter().enumerate() {
        if *c != '!' || b.get(i + 1) == Some(&'=') {
            continue;
        }
        let prev = b[..i].iter().rev().find(|x| !x.is_whitespace());
        let next = b[i + 1..].iter().find(|x| !x.is_whitespace());
        if matches!(prev, Some(':') | Some('[')) || (prev == Some(&',') && matches!(next, Some(']') | Some(',') | Some('}'))) || next == Some(&'?') {
            return true;
        }
    }
    false
}

/// Signature of a panic inside a compilation stage. A panic that carries Cranelift
/// verifier errors is named after the message of the first error (digits masked),
/// because the generic signature is cut off before it.
fn compile_panic_sig(p: &str, stage: &str) -> String {
    if p.contains("VerifierError")
        && let Some(i) = p.find("message: \"")
    {
        let rest = &p[i + 10..];
        let msg = &rest[..rest.find('"').unwrap_or(rest.len())];
        let mut norm = String::new();
        for c in msg.chars().take(90) {
            if c.is_ascii_digit() {
                if !norm.ends_with('#') {
                    norm.push('#');
                }
            } else if c == ' ' {
                norm.push('_');
            } else {
                norm.push(c);
            }
        }
        return format!("codegen-verifier:{norm}@{stage}");
    }
    // a panic inside a dependency: name the crate, not the registry directory of this machine
    if let Some(i) = p.find("/registry/src/")
        && let Some(j) = p[i + 14..].find('/')
    {
        return format!("{}@{stage}", panic_sig(&p[i + 14 + j + 1..]));
    }
    format!("{}@{stage}", panic_sig(p))
}

impl Totality {
    fn input_for(&self, rng: &mut Rng, args: &Args) -> Input {
        // `--src-file <path>`: replay one source text through the same oracle
        if let Some(path) = args.opt("src-file") {
            let src = std::fs::read_to_string(path).unwrap_or_default();
            return Input { family: "given", detail: path.to_string(), hint: None, tags: Vec::new(), files: vec![("pkg".into(), src)] };
        }
        let max_nest = args.opt("chain-max").and_then(|v| v.parse().ok()).unwrap_or(MAX_NEST);
        // `--class truncated|infer|chains`: only that class (for focused runs)
        match args.opt("class") {
            Some("truncated") => from_made("truncated", more::truncated(rng)),
            Some("infer") => from_made("infer", more::infer(rng)),
            Some("chains") => from_made("chains", more::chains(rng, max_nest)),
            _ => make_input(rng, max_nest),
        }
    }

    fn sample_of(input: &Input) -> J {
        let mut j = J::obj()
            .set("family", input.family)
            .set("detail", input.detail.as_str())
            .set("files", J::Arr(input.files.iter().map(|(n, s)| J::obj().set("module", n.as_str()).set("source", s.as_str())).collect()));
        if let Some(h) = &input.hint {
            j.put("sig_hint", h.as_str());
        }
        j
    }
}

impl Family for Totality {
    fn n_cases(&self, args: &Args) -> u64 {
        if args.thorough() { 2_000_000 } else { 60_000 }
    }

    fn describe(&mut self, _k: u64, rng: &mut Rng, args: &Args) -> Option<J> {
        // the whole input (all files) and, for the classes that can kill the worker or
        // run into the time limit by construction, the input class as `sig_hint`
        let input = self.input_for(rng, args);
        Some(Self::sample_of(&input))
    }

    fn run(&mut self, _k: u64, rng: &mut Rng, args: &Args) -> CaseOut {
        let mut out = CaseOut::default();
        let input = self.input_for(rng, args);
        let all: String = input.files.iter().map(|(n, s)| format!("{n}\u{1}{s}\u{2}")).collect();
        out.hash = hash_str(&all);
        out.nontrivial = true;
        out.evals = 1;
        out.tags.push(format!("input:{}", input.family));
        out.tags.extend(input.tags.iter().cloned());
        out.sample = Some(Self::sample_of(&input));
        let rt = &self.rt;
        // stage by stage, so that a panic or death is attributed to a stage
        let stage = std::cell::Cell::new("parse");
        let res = catch(|| {
            let tree = build_tree(&input);
            phase("parse");
            stage.set("parse");
            let parsed = tree.parse()?;
            phase("typecheck");
            stage.set("typecheck");
            let checked = parsed.typecheck(rt)?;
            phase("lower-mir");
            stage.set("lower-mir");
            let mir = checked.lower_to_mir();
            phase("lower-lir");
            stage.set("lower-lir");
            let lir = mir.lower_to_lir();
            phase("codegen");
            stage.set("codegen");
            let pkg = lir.codegen();
            phase("done");
            Ok::<_, roto::RotoReport>(pkg)
        });
        match res {
            Err(p) => {
                let mut sig = compile_panic_sig(&p, stage.get());
                // "did not find Var" in code generation has a known cause: a *place* (parameter,
                // field, binding) whose declared type is or contains the never type `!` is read
                // and passed on. Inputs with a `!` in a type position get their own signature, so
                // that the same message from any other input stays a separate finding.
                if p.contains("did not find Var") && input.files.iter().any(|(_, src)| has_never_type_annotation(src)) {
                    sig.push_str("/input-declares-a-never-typed-place");
                }
                out.viol(
                    sig,
                    format!("compiler panicked in stage {} on a {} input: {p}", stage.get(), input.family),
                    J::obj().set("stage", stage.get()),
                );
            }
            Ok(Ok(_pkg)) => {
                out.tags.push("outcome:compiled".into());
                if input.hint.is_some() {
                    out.tags.push(format!("outcome-of:{}:compiled", input.family));
                }
            }
            Ok(Err(report)) => {
                let kinds = roto::verif::report_kinds(&report);
                out.tags.push(format!("outcome:{}-error", kinds.first().copied().unwrap_or("no")));
                if input.hint.is_some() {
                    out.tags.push(format!("outcome-of:{}:{}-error", input.family, kinds.first().copied().unwrap_or("no")));
                }
                // both renderings must succeed
                for color in [true, false] {
                    let r = catch(|| {
                        let mut s = String::new();
                        report.write(&mut s, color).map(|_| s)
                    });
                    match r {
                        Err(p) => {
                            out.viol(
                                format!("render-{}", panic_sig(&mask_quoted_chars(&p))),
                                format!("rendering the report (color={color}) panicked: {p}"),
                                J::obj().set("color", color),
                            );
                            break;
                        }
                        Ok(Err(_)) => {
                            out.viol("render-fmt-error", "rendering returned fmt::Error", J::Null);
                            break;
                        }
                        Ok(Ok(s)) => {
                            if !color {
                                let first = s.lines().next().unwrap_or("").to_string();
                                let norm: String = first.chars().map(|c| if c.is_ascii_digit() { '#' } else { c }).take(70).collect();
                                out.tags.push(format!("msg:{norm}"));
                            }
                        }
                    }
                }
                // cited locations must lie inside the cited file on char boundaries
                for c in roto::verif::report_citations(&report) {
                    out.events += 1;
                    let Some(file) = report.files.get(c.file) else {
                        out.viol(
                            format!("citation:{}@no-such-file", c.what),
                            format!("citation refers to file index {} of {}", c.file, report.files.len()),
                            J::Null,
                        );
                        continue;
                    };
                    let text = &file.contents;
                    let ok = c.start <= c.end && c.end <= text.len() && text.is_char_boundary(c.start) && text.is_char_boundary(c.end);
                    if !ok {
                        let class = if c.end > text.len() { "beyond-end-of-file" } else if c.start > c.end { "start-after-end" } else { "inside-a-character" };
                        out.viol(
                            format!("citation:{}@{class}", c.what),
                            format!("{} citation {}..{} of file `{}` (length {}) is {class}", c.what, c.start, c.end, file.name, text.len()),
                            J::obj().set("start", c.start as u64).set("end", c.end as u64).set("len", text.len() as u64),
                        );
                    }
                }
            }
        }
        out
    }
}
